"""
C08 — normal forms and contraction-order optimisation preserve value.

Correspondence (real funsor vs Lean):
  * generated semiring expressions (nested sums of products with substitutions, <= 8 operands, inputs of
    sizes 1-4, random subsets of reduced variables, operands with and without each variable, optional
    free real parameters bound at sample points) for (add,mul), (logaddexp,add) [through exp, rtol 1e-9],
    (max,add), (min,add), (max,mul)/(min,mul) on non-negative data, (or,and) on booleans.
    Each is built lazily; then naive eager evaluation, `reinterpret`, `reinterpret` under normalize (+ its
    eager evaluation, + `reinterpret(n) is n`), `apply_optimizer(x)` (eager and lazy + evaluation) are
    compared over the WHOLE input space with Lean `denote` of the lazy term (Model/Term.lean), and the
    Lean normaliser model `norm` (Model/C08.lean) evaluated on the same term;
  * every firing of optimizer.optimize_contract_finitary_funsor is observed (run-time wrapper of
    optimize_base.dispatch + funsor.optimizer.greedy): its operands, the path opt_einsum's greedy
    actually chose and its return value; the path is fed to the Lean optimizer model `optimize`, whose
    result table must equal both the real return value and `⨁_reduced ⨂ operands`;
  * all einsum equations with <= 3 operands over <= 3 symbols (thorough: 4 x 4) through
    funsor.einsum.einsum for every backend name it accepts, against a brute-force python oracle and
    Lean `denote` of the contraction.
Dedicated streams: KF-shared-binder-unfold, KF-contraction-absent-var.
"""
import contextlib
import itertools
import math
from collections import OrderedDict
from fractions import Fraction

import numpy as np

from ..common import sx, parse_sx, atom_to_num, Q
from .. import futil, ser
from ..futil import funsor, Tensor, Number, Variable, Bint, Real, ops, exact, same_num

from funsor.cnf import Contraction
from funsor.terms import Funsor, Binary, Reduce, Subs, Unary
from funsor.interpretations import lazy, reflect, normalize, eager
from funsor.interpreter import reinterpret
import funsor.optimizer as fopt
from funsor.optimizer import apply_optimizer
import funsor.einsum as feinsum

DECLINE = (NotImplementedError, AssertionError, ValueError, TypeError, KeyError, IndexError, AttributeError)

# name: (sum_op, prod_op, wire semiring for the Lean optimizer model, data kind, twin name for `denote`)
SR = OrderedDict([
    ("add-mul", (ops.add, ops.mul, "add-mul", "int", None)),
    ("logaddexp-add", (ops.logaddexp, ops.add, "add-mul", "log", "add-mul")),
    ("max-add", (ops.max, ops.add, "max-add", "int-ninf", None)),
    ("min-add", (ops.min, ops.add, "min-add", "int-pinf", None)),
    ("max-mul", (ops.max, ops.mul, "max-mul", "nonneg-int", None)),
    ("min-mul", (ops.min, ops.mul, "min-mul", "nonneg-int", None)),
    ("or-and", (ops.or_, ops.and_, "or-and", "bool", None)),
])
SR_WEIGHTS = (["add-mul"] * 4 + ["or-and"] * 4 + ["logaddexp-add"] * 2 + ["max-add"] * 2
              + ["min-add", "max-mul", "min-mul"])

# how the data of the leaves of the case being generated are STORED (set by gen_case from the case's PRNG):
#   "typed-bool": or-and leaves are Bint[2] Tensors whose 0/1 data are stored as bool / uint8 / int32 / int64
#   "real-bool":  or-and leaves are numpy bool arrays typed Real (what `Tensor(bool_array)` gives)
#   "floats":     real leaves stored as float32 or float64
#   None:         float64 throughout
_STORAGE = [None]
_LEAF_ARRAYS = {}    # (id(recipe leaf), log?) -> (recipe leaf, array)
INT_STORES = ["bool", "uint8", "int64", "int32"]
OPS_TO_SR = {(v[0], v[1]): k for k, v in SR.items()}

NAMES = ["a", "b", "c", "d"]
PARAMS = ["x", "y"]


# ------------------------------------------------------------------------------------------------
# recipes
# ------------------------------------------------------------------------------------------------

def gen_data(rng, shape, kind):
    n = int(np.prod(shape)) if shape else 1
    if kind == "bool":
        return np.array([rng.random() < 0.65 for _ in range(n)], dtype=bool).reshape(shape)
    if kind == "log":
        # linear values (dyadic); the log-space data are np.log of these
        return np.array([rng.choice([0.0, 0.25, 0.5, 1.0, 1.0, 2.0, 3.0]) for _ in range(n)]).reshape(shape)
    return futil.gen_data(rng, shape, kind)


def units(srname):
    """(zero, one) of the semiring as python numbers in implementation space."""
    return {"add-mul": (0.0, 1.0), "logaddexp-add": (-math.inf, 0.0), "max-add": (-math.inf, 0.0),
            "min-add": (math.inf, 0.0), "max-mul": (0.0, 1.0), "min-mul": (math.inf, 1.0),
            "or-and": (False, True)}[srname]


def gen_leaf(rng, ctx, srname, params):
    kind = SR[srname][3]
    r = rng.random()
    if params and r < 0.12:
        return ("param", rng.choice(params)), set()
    if r < 0.22 and srname != "or-and":
        zero, one = units(srname)
        if srname == "min-mul":
            choices = [one, one, 2.0, 3.0]          # +inf * 0 is NaN: keep the ⊕-unit out
        elif kind == "log":
            choices = [one, one, zero, 2.0, 0.5]     # LINEAR values for log (mapped by build)
            return ("num", rng.choice([1.0, 1.0, 0.0, 2.0, 0.5])), set()
        else:
            choices = [one, one, zero, 2.0, 3.0]
        return ("num", rng.choice(choices)), set()
    names = [n for n in ctx if rng.random() < 0.55]
    rng.shuffle(names)
    data = gen_data(rng, tuple(ctx[n] for n in names), kind)
    mode = _STORAGE[0]
    store = None
    if mode == "typed-bool" and kind == "bool":
        store = rng.choice(INT_STORES)
    elif mode == "floats" and kind not in ("bool", "log"):
        store = rng.choice(["float32", "float64"])
    return ("leaf", tuple(names), data, store), set(names)


def gen_expr(rng, ctx, srname, params, depth, budget, top=False):
    """-> (recipe, free names).  budget: [remaining leaves]"""
    if depth <= 0 or budget[0] <= 1 or (not top and rng.random() < 0.12):
        budget[0] -= 1
        return gen_leaf(rng, ctx, srname, params)
    if srname == "add-mul" and rng.random() < 0.07:      # subtraction / negation (normalize: binary_subtract, unary_contract)
        a, fa = gen_expr(rng, ctx, srname, params, depth - 1, budget)
        if rng.random() < 0.3:
            return ("neg", a), fa
        b, fb = gen_expr(rng, ctx, srname, params, depth - 1, budget)
        return ("minus", a, b), fa | fb
    if rng.random() < 0.03:
        # a product with a REPEATED LEAF: f ⊗ f, f ⊗ f ⊗ g, the same interned Tensor / Number 2-3 times as direct operands
        # of one product node (⊗ = add in the tropical / log semirings, where the canonical-order rule fires)
        budget[0] -= 1
        while True:
            base, fa = gen_leaf(rng, ctx, srname, params)
            if base[0] != "param":
                break
        factors = [base] * rng.choice([2, 2, 3])
        free = set(fa)
        if rng.random() < 0.5:
            budget[0] -= 1
            h, fh = gen_leaf(rng, ctx, srname, params)
            factors.insert(rng.randrange(len(factors) + 1), h)
            free |= fh
        return ("prod", tuple(factors)), free
    if rng.random() < 0.04:
        # a product with a REPEATED identical compound factor (cons-hashing makes the copies one object): squares and
        # cubes of (f ⊕ g), with or without further factors, the copies in every position; binder-free inside the
        # repeated factor (so the region of KF-shared-binder-unfold is not touched)
        budget[0] -= 2
        la, fa = gen_leaf(rng, ctx, srname, params)
        lb, fb_ = gen_leaf(rng, ctx, srname, params)
        if params and rng.random() < 0.4:
            la = ("prod", (la, ("param", rng.choice(params))))
        base = ("plus", (la, lb))
        free = set(fa) | set(fb_)
        factors = [base] * rng.choice([2, 2, 2, 3])
        for _ in range(rng.choice([0, 0, 1, 1, 2])):
            budget[0] -= 1
            h, fh = gen_leaf(rng, ctx, srname, params)
            factors.insert(rng.randrange(len(factors) + 1), h)
            free |= fh
        return ("prod", tuple(factors)), free
    c = rng.random()
    if c < 0.34:      # product
        k = rng.choice([2, 2, 3, 3, 4])
        parts = [gen_expr(rng, ctx, srname, params, depth - 1, budget) for _ in range(k)]
        return ("prod", tuple(p[0] for p in parts)), set().union(*[p[1] for p in parts])
    if c < 0.46:      # ⊕ of sub-expressions
        k = rng.choice([2, 2, 3])
        parts = [gen_expr(rng, ctx, srname, params, depth - 1, budget) for _ in range(k)]
        return ("plus", tuple(p[0] for p in parts)), set().union(*[p[1] for p in parts])
    if c < 0.76:      # sum over a subset of the variables
        body, fb = gen_expr(rng, ctx, srname, params, depth - 1, budget)
        present = sorted(fb)
        rv = [n for n in present if rng.random() < 0.6]
        absent = [n for n in ctx if n not in fb and rng.random() < 0.08]
        if not rv and not absent:
            if not present:
                return body, fb
            rv = [rng.choice(present)]
        return ("sum", tuple(rv), tuple((n, ctx[n]) for n in absent), body), fb - set(rv)
    if c < 0.88:      # direct Contraction(red, bin, vars, *terms), every reduced variable in some operand
        k = rng.choice([2, 3, 3, 4])
        parts = [gen_expr(rng, ctx, srname, params, depth - 1, budget) for _ in range(k)]
        fb = set().union(*[p[1] for p in parts])
        rv = [n for n in sorted(fb) if rng.random() < 0.6]
        if not rv:
            return ("prod", tuple(p[0] for p in parts)), fb
        return ("contraction", tuple(rv), tuple(p[0] for p in parts)), fb - set(rv)
    # substitution: renamings (fresh / colliding / swap) and numbers
    body, fb = gen_expr(rng, ctx, srname, params, depth - 1, budget)
    if not fb:
        return body, fb
    # simultaneous multi-binding substitutions: swaps i<->j, chains i->j->m, diagonals (the value of one binding
    # is the key of another), mixed with numbers and index tensors
    groups = {}
    for n, sz in ctx.items():
        groups.setdefault(sz, []).append(n)
    groups = [g for g in groups.values() if len(g) >= 2 and any(n in fb for n in g)]
    if groups and rng.random() < 0.5:
        g = list(rng.choice(groups))
        rng.shuffle(g)
        size = ctx[g[0]]
        keys = [n for n in g if n in fb][: rng.choice([2, 2, 3])]
        subs = []
        free = set(fb) - set(keys)
        for k in keys:
            r = rng.random()
            if r < 0.7:
                nxt = g[(g.index(k) + 1) % len(g)]          # rotation of the group: swap for 2 names, cycle / chain for 3+
                subs.append((k, ("var", nxt, size)))
                free.add(nxt)
            elif r < 0.85:
                subs.append((k, ("int", rng.randrange(size), size)))
            else:
                src = rng.choice(list(ctx))
                subs.append((k, ("idx", src, tuple(rng.randrange(size) for _ in range(ctx[src])), size)))
                free.add(src)
        rng.shuffle(subs)
        return ("subs", body, tuple(subs)), free
    keys = [n for n in sorted(fb) if rng.random() < 0.5] or [rng.choice(sorted(fb))]
    subs = []
    free = set(fb) - set(keys)
    for k in keys:
        size = ctx[k]
        cands = [n for n, s in ctx.items() if s == size and n != k]
        r = rng.random()
        if cands and r < 0.6:
            n = rng.choice(cands)
            subs.append((k, ("var", n, size)))
            free.add(n)
        elif r < 0.88:
            subs.append((k, ("int", rng.randrange(size), size)))
        else:
            src = rng.choice(list(ctx))
            subs.append((k, ("idx", src, tuple(rng.randrange(size) for _ in range(ctx[src])), size)))
            free.add(src)
    return ("subs", body, tuple(subs)), free


def gen_case(rng, tier):
    srname = rng.choice(SR_WEIGHTS)
    nn = rng.choice([1, 2, 2, 3, 3, 4])
    ctx = OrderedDict((n, rng.choice([1, 2, 2, 3, 3, 4])) for n in NAMES[:nn])
    if rng.random() < 0.35:       # equal sizes: renamings between any two inputs are well typed
        sz = rng.choice([2, 2, 3])
        ctx = OrderedDict((n, sz) for n in ctx)
    params = []
    if srname not in ("or-and",) and rng.random() < 0.25:
        params = PARAMS[: rng.choice([1, 1, 2])]
    depth = rng.choice([2, 3, 3, 4])
    if srname == "or-and":
        _STORAGE[0] = "typed-bool" if rng.random() < 0.8 else "real-bool"
        if nn >= 2 and rng.random() < 0.5:      # sizes >= 2 so that pair contractions see >= 2 satisfying assignments
            ctx = OrderedDict((n, max(2, sz)) for n, sz in ctx.items())
    elif SR[srname][3] != "log" and rng.random() < 0.3:
        _STORAGE[0] = "floats"
    else:
        _STORAGE[0] = None
    while True:
        recipe, free = gen_expr(rng, ctx, srname, params, depth, [8], top=True)
        if recipe_leaves(recipe) <= 8 and (recipe_leaves(recipe) >= 2 or rng.random() < 0.1):
            break
    # sample points for the real parameters (LINEAR values for the log semiring)
    if SR[srname][3] in ("int", "int-ninf", "int-pinf"):
        pool = [2.0, -1.0, 0.5, 3.0] if srname == "add-mul" else [2.0, -1.0, 0.0, 3.0]
    else:
        pool = [2.0, 0.5, 1.0, 3.0]
    env = OrderedDict((p, rng.choice(pool)) for p in params)
    mode = rng.choice(["lazy", "lazy", "reflect"])
    return dict(sr=srname, ctx=ctx, recipe=recipe, params=env, mode=mode)


def recipe_leaves(r):
    if r[0] in ("leaf", "num", "param"):
        return 1
    if r[0] in ("prod", "plus"):
        return sum(recipe_leaves(p) for p in r[1])
    if r[0] == "sum":
        return recipe_leaves(r[3])
    if r[0] == "contraction":
        return sum(recipe_leaves(p) for p in r[2])
    if r[0] in ("subs", "neg"):
        return recipe_leaves(r[1])
    if r[0] == "minus":
        return recipe_leaves(r[1]) + recipe_leaves(r[2])
    raise ValueError(r[0])


def recipe_tags(r, acc=None):
    acc = acc if acc is not None else []
    acc.append(r[0])
    if r[0] in ("prod", "plus"):
        for p in r[1]:
            recipe_tags(p, acc)
    elif r[0] == "sum":
        recipe_tags(r[3], acc)
    elif r[0] == "contraction":
        for p in r[2]:
            recipe_tags(p, acc)
    elif r[0] in ("subs", "neg"):
        recipe_tags(r[1], acc)
    elif r[0] == "minus":
        recipe_tags(r[1], acc)
        recipe_tags(r[2], acc)
    return acc


def subs_nodes(r, acc=None):
    """the binding lists of all substitution nodes of a recipe"""
    acc = acc if acc is not None else []
    if r[0] == "subs":
        acc.append(r[2])
        subs_nodes(r[1], acc)
    elif r[0] in ("prod", "plus"):
        for p in r[1]:
            subs_nodes(p, acc)
    elif r[0] == "sum":
        subs_nodes(r[3], acc)
    elif r[0] == "contraction":
        for p in r[2]:
            subs_nodes(p, acc)
    elif r[0] == "neg":
        subs_nodes(r[1], acc)
    elif r[0] == "minus":
        subs_nodes(r[1], acc)
        subs_nodes(r[2], acc)
    return acc


def has_repeated_factor(r):
    """some product has the same compound (non-leaf) sub-recipe twice among its direct factors"""
    if r[0] == "prod":
        comp = [repr(describe_recipe(p)) for p in r[1] if p[0] not in ("leaf", "num", "param")]
        if len(comp) != len(set(comp)):
            return True
    kids = []
    if r[0] in ("prod", "plus"):
        kids = r[1]
    elif r[0] == "sum":
        kids = [r[3]]
    elif r[0] == "contraction":
        kids = r[2]
    elif r[0] in ("subs", "neg"):
        kids = [r[1]]
    elif r[0] == "minus":
        kids = [r[1], r[2]]
    return any(has_repeated_factor(k) for k in kids)


def has_repeated_leaf(r):
    """some product has the same leaf / number recipe twice among its direct factors"""
    if r[0] == "prod":
        leaves = [p for p in r[1] if p[0] in ("leaf", "num")]
        if any(a is b or (a[0] == "num" and b[0] == "num" and a[1] == b[1])
               for i, a in enumerate(leaves) for b in leaves[i + 1:]):
            return True
    kids = []
    if r[0] in ("prod", "plus"):
        kids = r[1]
    elif r[0] == "sum":
        kids = [r[3]]
    elif r[0] == "contraction":
        kids = r[2]
    elif r[0] in ("subs", "neg"):
        kids = [r[1]]
    elif r[0] == "minus":
        kids = [r[1], r[2]]
    return any(has_repeated_leaf(k) for k in kids)


def describe_recipe(x):
    if isinstance(x, np.ndarray):
        return x.tolist()
    if isinstance(x, tuple):
        return [describe_recipe(y) for y in x]
    return x


def fold(op, xs):
    out = xs[0]
    for x in xs[1:]:
        out = op(out, x)
    return out


def build(r, srname, ctx, linear=False):
    """Construct the expression through funsor's public API under the ACTIVE interpretation.
    linear=True (log semiring only): the (add,mul) twin with linear data (for Lean `denote`)."""
    sum_op, prod_op, _, kind, twin = SR[srname]
    if linear:
        sum_op, prod_op = SR[twin][0], SR[twin][1]
    tag = r[0]
    if tag == "leaf":
        store = r[3] if len(r) > 3 else None
        key = (id(r), bool(kind == "log" and not linear))
        hit = _LEAF_ARRAYS.get(key)
        if hit is None or hit[0] is not r:
            data = r[2]
            if kind == "log" and not linear:
                with np.errstate(divide="ignore"):
                    data = np.log(data)
            if store is not None:
                data = data.astype(store)
            if len(_LEAF_ARRAYS) > 4000:
                _LEAF_ARRAYS.clear()
            _LEAF_ARRAYS[key] = hit = (r, data)
        data = hit[1]       # one array object per recipe leaf: a leaf used twice is the SAME interned Tensor
        inputs = OrderedDict((n, Bint[ctx[n]]) for n in r[1])
        if store in INT_STORES:
            return Tensor(data, inputs, 2)       # Bint[2]-valued, 0/1 stored in `store`
        return Tensor(data, inputs)
    if tag == "num":
        v = r[1]
        if kind == "log" and not linear:
            v = math.log(v) if v > 0 else -math.inf
        return Number(v)
    if tag == "param":
        return Variable(r[1], Real)
    if tag == "prod":
        return fold(prod_op, [build(p, srname, ctx, linear) for p in r[1]])
    if tag == "plus":
        return fold(sum_op, [build(p, srname, ctx, linear) for p in r[1]])
    if tag == "sum":
        _, rv, absent, body = r
        vs = frozenset(rv) | frozenset(Variable(n, Bint[s]) for n, s in absent)
        return build(body, srname, ctx, linear).reduce(sum_op, vs)
    if tag == "contraction":
        _, rv, parts = r
        terms = [build(p, srname, ctx, linear) for p in parts]
        return Contraction(sum_op, prod_op, frozenset(Variable(n, Bint[ctx[n]]) for n in rv), *terms)
    if tag == "minus":
        return build(r[1], srname, ctx, linear) - build(r[2], srname, ctx, linear)
    if tag == "neg":
        return -build(r[1], srname, ctx, linear)
    if tag == "subs":
        body = build(r[1], srname, ctx, linear)
        kw = {}
        for k, v in r[2]:
            if v[0] == "var":
                kw[k] = Variable(v[1], Bint[v[2]])
            elif v[0] == "idx":
                kw[k] = Tensor(np.array(v[2], dtype=np.int64), OrderedDict([(v[1], Bint[ctx[v[1]]])]), v[3])
            else:
                kw[k] = Number(v[1], v[2])
        return body(**kw)
    raise ValueError(tag)


def leaf_names(r, acc=None):
    """id(leaf recipe) -> python variable name: a leaf used twice must be ONE Tensor object in a replay"""
    acc = acc if acc is not None else {}
    if r[0] == "leaf":
        acc.setdefault(id(r), (f"L{len(acc)}", r))
    elif r[0] in ("prod", "plus"):
        for q in r[1]:
            leaf_names(q, acc)
    elif r[0] == "sum":
        leaf_names(r[3], acc)
    elif r[0] == "contraction":
        for q in r[2]:
            leaf_names(q, acc)
    elif r[0] in ("subs", "neg"):
        leaf_names(r[1], acc)
    elif r[0] == "minus":
        leaf_names(r[1], acc)
        leaf_names(r[2], acc)
    return acc


_PY_NAMES = [None]


def python_of(r, ctx):
    tag = r[0]
    if tag == "leaf" and _PY_NAMES[0] is not None and id(r) in _PY_NAMES[0]:
        return _PY_NAMES[0][id(r)][0]
    if tag == "leaf":
        return (f"T({r[2].tolist()!r}, OrderedDict([" + ", ".join(f"({n!r}, Bint[{ctx[n]}])" for n in r[1]) + "]), "
                f"{(r[3] if len(r) > 3 else None)!r})")
    if tag == "num":
        return f"N({r[1]!r})"
    if tag == "param":
        return f"Variable({r[1]!r}, Real)"
    if tag == "prod":
        return "fold(PROD, [" + ", ".join(python_of(p, ctx) for p in r[1]) + "])"
    if tag == "plus":
        return "fold(SUM, [" + ", ".join(python_of(p, ctx) for p in r[1]) + "])"
    if tag == "sum":
        vs = "frozenset([" + ", ".join([repr(n) for n in r[1]] + [f"Variable({n!r}, Bint[{s}])" for n, s in r[2]]) + "])"
        return f"({python_of(r[3], ctx)}).reduce(SUM, {vs})"
    if tag == "contraction":
        vs = "frozenset([" + ", ".join(f"Variable({n!r}, Bint[{ctx[n]}])" for n in r[1]) + "])"
        return f"Contraction(SUM, PROD, {vs}, " + ", ".join(python_of(p, ctx) for p in r[2]) + ")"
    if tag == "minus":
        return f"(({python_of(r[1], ctx)}) - ({python_of(r[2], ctx)}))"
    if tag == "neg":
        return f"(-({python_of(r[1], ctx)}))"
    if tag == "subs":
        def arg(v):
            if v[0] == "var":
                return f"Variable({v[1]!r}, Bint[{v[2]}])"
            if v[0] == "idx":
                return f"Tensor(np.array({list(v[2])!r}), OrderedDict([({v[1]!r}, Bint[{ctx[v[1]]}])]), {v[3]})"
            return f"Number({v[1]}, {v[2]})"
        kw = ", ".join(f"{k!r}: " + arg(v) for k, v in r[2])
        return f"({python_of(r[1], ctx)})(**{{{kw}}})"
    raise ValueError(tag)


PY_HEADER = """import math
import numpy as np
from collections import OrderedDict
import funsor
from funsor.domains import Bint, Real
from funsor.tensor import Tensor
from funsor.terms import Number, Variable
from funsor.cnf import Contraction
from funsor.interpretations import lazy, reflect, normalize
from funsor.interpreter import reinterpret
from funsor.optimizer import apply_optimizer
import funsor.ops as ops
def fold(op, xs):
    out = xs[0]
    for x in xs[1:]:
        out = op(out, x)
    return out
"""


def replay_python(case, stage, ins, expected):
    names = leaf_names(case["recipe"])
    defs = "".join(f"{nm} = {python_of(leaf, case['ctx'])}\n" for nm, leaf in names.values())
    _PY_NAMES[0] = names
    try:
        return _replay_python(case, stage, ins, expected, defs)
    finally:
        _PY_NAMES[0] = None


def _replay_python(case, stage, ins, expected, defs):
    srname = case["sr"]
    kind = SR[srname][3]
    sum_name = {"add-mul": "ops.add", "logaddexp-add": "ops.logaddexp", "max-add": "ops.max", "min-add": "ops.min",
                "max-mul": "ops.max", "min-mul": "ops.min", "or-and": "ops.or_"}[srname]
    prod_name = {"add-mul": "ops.mul", "logaddexp-add": "ops.add", "max-add": "ops.add", "min-add": "ops.add",
                 "max-mul": "ops.mul", "min-mul": "ops.mul", "or-and": "ops.and_"}[srname]
    s = PY_HEADER
    s += f"SUM, PROD = {sum_name}, {prod_name}\n"
    if kind == "log":
        s += ("def T(d, ins, store=None):\n    with np.errstate(divide='ignore'):\n        return Tensor(np.log(np.array(d, dtype=float)), ins)\n"
              "def N(v):\n    return Number(math.log(v) if v > 0 else -math.inf)\n")
    elif kind == "bool":
        s += ("def T(d, ins, store=None):\n    if store is None:\n        return Tensor(np.array(d, dtype=bool), ins)\n"
              "    return Tensor(np.array(d, dtype=bool).astype(store), ins, 2)\ndef N(v):\n    return Number(v)\n")
    else:
        s += "def T(d, ins, store=None):\n    return Tensor(np.array(d, dtype=store or float), ins)\ndef N(v):\n    return Number(v)\n"
    s += defs
    s += f"with {case['mode']}:\n    x = {python_of(case['recipe'], case['ctx'])}\n"
    s += {"naive-eager": f"r = {python_of(case['recipe'], case['ctx'])}\n",
          "reinterpret": "r = reinterpret(x)\n",
          "normalize": "with normalize:\n    n = reinterpret(x)\nr = reinterpret(n)\n",
          "normalize-term": "with normalize:\n    n = reinterpret(x)\nr = reinterpret(n)\n",
          "normalize-identity": "with normalize:\n    n = reinterpret(x)\n    n2 = reinterpret(n)\nr = None\nprint('identical:', n2 is n)\n",
          "optimizer": "r = apply_optimizer(x)\n",
          "optimizer-lazy": "with lazy:\n    o = apply_optimizer(x)\nr = reinterpret(o)\n",
          "optimizer-term": "with lazy:\n    o = apply_optimizer(x)\nr = reinterpret(o)\n",
          "normalize-direct": f"with normalize:\n    d = {python_of(case['recipe'], case['ctx'])}\nr = reinterpret(d)\n",
          "normalize-direct-term": f"with normalize:\n    d = {python_of(case['recipe'], case['ctx'])}\nr = reinterpret(d)\n",
          "unfold-direct": f"from funsor.optimizer import unfold\nwith unfold:\n    d = {python_of(case['recipe'], case['ctx'])}\nr = reinterpret(d)\n",
          "unfold-direct-term": f"from funsor.optimizer import unfold\nwith unfold:\n    d = {python_of(case['recipe'], case['ctx'])}\nr = reinterpret(d)\n",
          "normalize-direct-optimizer": f"with normalize:\n    d = {python_of(case['recipe'], case['ctx'])}\nr = apply_optimizer(d)\n",
          }.get(stage, "r = apply_optimizer(x)\n")
    env = dict(case["params"])
    if kind == "log":
        env = {k: math.log(v) for k, v in env.items()}
    s += f"env = {env!r}\nins = {list(ins)!r}\nexpected = {[float(v) for v in expected] if expected is not None else None!r}   # Lean denote of x over ins (row-major"
    s += ", linear space)\n" if kind == "log" else ")\n"
    s += ("if r is None:\n    FAILS = not (n2 is n)\nelse:\n"
          "    r = r(**{k: v for k, v in env.items() if k in r.inputs})\n"
          "    print(r)\n"
          "    names = [n for n, _ in ins]\n"
          "    bad = set(r.inputs) - set(names)\n"
          "    if bad or not isinstance(r, (Tensor, Number)):\n        FAILS = bool(bad)\n    else:\n"
          "        data = np.asarray(r.data, dtype=float)\n"
          "        have = list(r.inputs)\n"
          "        data = data.transpose([have.index(n) for n in names if n in have])\n"
          "        data = np.broadcast_to(data.reshape([s if n in have else 1 for n, s in ins]), [s for _, s in ins])\n")
    s += ("        got = np.exp(data).reshape(-1)\n" if kind == "log" else
          "        got = (data.reshape(-1) != 0).astype(float)   # truth values\n" if kind == "bool" else "        got = data.reshape(-1)\n")
    s += "        print(got, expected)\n        FAILS = not np.allclose(got, np.array(expected, dtype=float), rtol=1e-9, atol=1e-12, equal_nan=True)\n"
    return s


# ------------------------------------------------------------------------------------------------
# observing the real code
# ------------------------------------------------------------------------------------------------

@contextlib.contextmanager
def record_optimizer(log):
    """Observe every firing of optimize_contract_finitary_funsor and the path greedy chose for it."""
    orig_dispatch = fopt.optimize_base.dispatch
    orig_greedy = fopt.greedy
    paths = []

    def greedy(inputs, output, size_dict, *a, **k):
        p = orig_greedy(inputs, output, size_dict, *a, **k)
        paths.append(p)
        return p

    import collections as _collections
    import types as _types
    orig_collections = fopt.collections
    ops_log = []        # ("sub" | "upd", names) calls on reduce_dim_counter of the firing in progress

    class LoggingCounter(_collections.Counter):
        # optimizer.py:123-144: n initial updates, then per path step subtract(ta), subtract(tb), update(kept)
        def subtract(self, other=None, **kw):
            ops_log.append(("sub", sorted(getattr(d, "name", str(d)) for d in (other or {}))))
            return super().subtract(other, **kw)

        def update(self, other=None, **kw):
            ops_log.append(("upd", sorted(getattr(d, "name", str(d)) for d in (other or {}))))
            return super().update(other, **kw)

    def steps_of(nterms):
        """path_end_reduced_vars of every step = (reduced ∩ ta ∪ reduced ∩ tb) - kept"""
        seq = ops_log[nterms + 1:]      # Counter() itself calls update() once
        out = []
        if len(seq) % 3:
            return None
        for i in range(0, len(seq), 3):
            (k1, s1), (k2, s2), (k3, s3) = seq[i:i + 3]
            if (k1, k2, k3) != ("sub", "sub", "upd"):
                return None
            out.append(sorted((set(s1) | set(s2)) - set(s3)))
        return out

    def dispatch(cls, *args):
        fn = orig_dispatch(cls, *args)
        if getattr(fn, "__name__", "") == "optimize_contract_finitary_funsor":
            def rec(*a):
                before = len(paths)
                del ops_log[:]
                fopt.collections = _types.SimpleNamespace(Counter=LoggingCounter)   # only while the rule runs
                try:
                    r = fn(*a)
                finally:
                    fopt.collections = orig_collections
                if r is not None and len(paths) == before + 1:
                    log.append(dict(red_op=a[0], bin_op=a[1], reduced=a[2], terms=a[3], path=list(paths[-1]), result=r,
                                    steps=steps_of(len(a[3]))))
                return r
            return rec
        return fn

    fopt.optimize_base.dispatch = dispatch
    fopt.greedy = greedy
    try:
        yield
    finally:
        fopt.optimize_base.dispatch = orig_dispatch
        fopt.greedy = orig_greedy
        fopt.collections = orig_collections


def binder_positions(f, acc=None):
    """Multiset of bound names over all POSITIONS of the term tree (hash-consed sub-terms that occur
    twice are visited twice)."""
    acc = acc if acc is not None else []
    if isinstance(f, Funsor):
        acc.extend(f.bound)
        for v in f._ast_values:
            binder_positions(v, acc)
    elif isinstance(f, (tuple, frozenset)):
        for v in f:
            binder_positions(v, acc)
    return acc


def has_absent_contraction(f, seen=None):
    """Fingerprint of KF-contraction-absent-var: some Contraction in the term reduces a variable that
    none of its operands mentions."""
    seen = seen if seen is not None else set()
    if isinstance(f, Funsor):
        if id(f) in seen:
            return False
        seen.add(id(f))
        if isinstance(f, Contraction):
            names = set().union(*[set(t.inputs) for t in f.terms])
            if any(v.name not in names for v in f.reduced_vars):
                return True
        return any(has_absent_contraction(v, seen) for v in f._ast_values)
    if isinstance(f, (tuple, frozenset)):
        return any(has_absent_contraction(v, seen) for v in f)
    return False


def absent_var_region(x):
    """The lazy term or its unfolded form (what the optimizer is given) contains such a Contraction."""
    if has_absent_contraction(x):
        return True
    try:
        with fopt.unfold:
            u = reinterpret(x)
    except DECLINE:
        return False
    return has_absent_contraction(u)


def shares_binders(f):
    """Fingerprint of KF-shared-binder-unfold: some bound name is bound at two positions of the term."""
    names = binder_positions(f)
    return len(names) != len(set(names))


def values_of(f, ins, env, log):
    """Ground result -> list of exact numbers over all points of `ins` (row-major); None if lazy.
    Log semiring: mapped to linear space (floats)."""
    if env:
        f = f(**{k: v for k, v in env.items() if k in f.inputs})
    if not isinstance(f, (Tensor, Number)):
        return None
    if f.output.shape:
        raise ValueError("non-scalar output")
    tab = futil.table(f, list(ins))
    flat = np.asarray(tab).reshape(-1)
    if log:
        with np.errstate(over="ignore"):
            return [float(v) for v in np.exp(flat.astype(float))]
    return [exact(v) for v in flat]


def truthify(vals):
    """(or, and): compare TRUTH values (a Bint[2] result is compared as 0/1)."""
    if vals is None:
        return None
    return [Fraction(0) if v == 0 else Fraction(1) for v in vals]


def out_of_range(f, vals):
    """a result typed Bint[2] whose data are not all 0/1 (declared-type range: C06's clause, counted here)"""
    return vals is not None and getattr(f, "dtype", None) == 2 and any(v not in (0, 1) for v in vals)


def model_values(answer):
    """driver `denote` answer -> list of numbers | None (undefined somewhere / non-scalar)."""
    tab = ser.parse_table(answer)
    if tab is None:
        raise RuntimeError(answer)
    out = []
    for cell in tab:
        if cell is None or cell[0] != []:
            return None
        out.append(cell[1][0])
    return out


def vals_equal(a, b, tol):
    if a is None or b is None or len(a) != len(b):
        return False
    return all(same_num(x, y, tol) for x, y in zip(a, b))


def impl_env(case):
    """parameter bindings in implementation space / in the model's (linear) space"""
    kind = SR[case["sr"]][3]
    lin = OrderedDict(case["params"])
    if kind == "log":
        return OrderedDict((k, math.log(v)) for k, v in lin.items()), lin
    return lin, lin


def bint_inputs(f):
    return sorted((k, int(v.size)) for k, v in f.inputs.items() if v.dtype != "real")


# ------------------------------------------------------------------------------------------------
# one case through the real code
# ------------------------------------------------------------------------------------------------

ABSENT_POOL = []   # clean-stream candidates that fell into the region of KF-contraction-absent-var

STAGES = ["naive-eager", "reinterpret", "normalize", "optimizer", "optimizer-lazy",
          "normalize-direct", "unfold-direct", "normalize-direct-optimizer"]


def run_impl(case):
    """-> dict with the lazy term, the stage results (funsor | ('declined', why)), optimizer firings."""
    srname, ctx, recipe = case["sr"], case["ctx"], case["recipe"]
    out = {"stages": {}, "firings": [], "terms": {}}
    interp = lazy if case["mode"] == "lazy" else reflect
    with interp:
        x = build(recipe, srname, ctx)
    out["x"] = x
    if SR[srname][4]:
        with interp:
            out["x_lin"] = build(recipe, srname, ctx, linear=True)

    def stage(name, fn):
        try:
            out["stages"][name] = fn()
        except DECLINE as e:
            out["stages"][name] = ("declined", f"{type(e).__name__}: {str(e)[:60]}")

    stage("naive-eager", lambda: build(recipe, srname, ctx))
    stage("reinterpret", lambda: reinterpret(x))

    def norm():
        with normalize:
            n = reinterpret(x)
            n2 = reinterpret(n)
        out["terms"]["normalize"] = n
        out["norm_identical"] = n2 is n
        return reinterpret(n)
    stage("normalize", norm)

    def opt():
        with record_optimizer(out["firings"]):
            return apply_optimizer(x)
    stage("optimizer", opt)

    def opt_lazy():
        with lazy:
            o = apply_optimizer(x)
        out["terms"]["optimizer-lazy"] = o
        return reinterpret(o)
    stage("optimizer-lazy", opt_lazy)

    # the same expression WRITTEN DIRECTLY under the normalize / unfold interpretations (binder and
    # substitution keys are then the user's names, not alpha-mangled ones), then evaluated
    def norm_direct():
        with normalize:
            d = build(recipe, srname, ctx)
            d2 = reinterpret(d)
        out["terms"]["normalize-direct"] = d
        out["direct"] = d
        out["norm_direct_identical"] = d2 is d
        return reinterpret(d)
    stage("normalize-direct", norm_direct)

    def unfold_direct():
        with fopt.unfold:
            d = build(recipe, srname, ctx)
        out["terms"]["unfold-direct"] = d
        return reinterpret(d)
    stage("unfold-direct", unfold_direct)

    def norm_direct_opt():
        if "direct" not in out:
            raise NotImplementedError("no direct normal form")
        return apply_optimizer(out["direct"])
    stage("normalize-direct-optimizer", norm_direct_opt)
    return out


def firing_request(fr, env_lin, log):
    """One observed optimizer firing -> (driver request, free inputs) | None if beyond the model."""
    key = (fr["red_op"], fr["bin_op"])
    if key not in OPS_TO_SR:
        return None
    wire_sr = SR[OPS_TO_SR[key]][2]
    sizes = {}
    operands = []
    for t in fr["terms"]:
        if t.output.shape:
            return None
        for k, v in t.inputs.items():
            if v.dtype != "real":
                sizes[k] = int(v.size)
            elif v.shape:
                return None
        try:
            if log:
                w = log_operand_wire(t)
            else:
                w = ser.to_wire(t)
        except ser.Unsupported:
            return None
        operands.append([[Q(k) for k in t.inputs], w])
    reduced = sorted(v.name for v in fr["reduced"])
    for v in fr["reduced"]:
        sizes.setdefault(v.name, int(v.output.size))
    free = sorted((k, s) for k, s in sizes.items() if k not in reduced)
    path = [[int(a), int(b)] for a, b in fr["path"]] if all(len(p) == 2 for p in fr["path"]) else None
    if path is None:
        return None
    req = ("C08 optimize " + wire_sr + " " + sx([[Q(k), s] for k, s in sorted(sizes.items())]) + " "
           + sx([Q(n) for n in reduced]) + " " + sx(operands) + " " + sx(path) + " "
           + sx(ser.ins_wire(free)) + " " + sx(ser.env_wire(env_lin)))
    return req, free


def log_operand_wire(t):
    """An operand of a (logaddexp, add) contraction, mapped to linear space."""
    if isinstance(t, Tensor):
        with np.errstate(over="ignore"):
            data = np.exp(np.asarray(t.data, dtype=float))
        return ["tensor", [[Q(k), int(v.size)] for k, v in t.inputs.items()], ["real"],
                [float(v) for v in data.reshape(-1)]]
    if isinstance(t, Number):
        return ["num", float(np.exp(float(t.data))), "real"]
    if isinstance(t, Variable) and t.output == Real:
        return ["var", Q(t.name), ["real"]]
    raise ser.Unsupported("log operand " + type(t).__name__)


def parse_optimize(ans):
    if not ans.startswith("ok "):
        raise RuntimeError(ans)
    if ans.strip() == "ok malformed-path":
        return None
    t = parse_sx(ans[3:])
    d = {item[0]: item[1:] for item in t}
    return dict(value=[atom_to_num(v) for v in d["value"][0]], spec=[atom_to_num(v) for v in d["spec"][0]],
                trace=d["trace"][0], final=[str(n) for n in d["final"][0]], ins=[str(n) for n in d["ins"][0]])


# ------------------------------------------------------------------------------------------------
# correspondence
# ------------------------------------------------------------------------------------------------

def check_cases(ctx, cases, label="clean"):
    """Run the cases through the real code and Lean; report disagreements.  Returns #failures."""
    reqs, jobs = [], []
    nfail = 0
    for case in cases:
        srname = case["sr"]
        log = SR[srname][3] == "log"
        tol = 1e-9 if log else 0.0
        try:
            res = run_impl(case)
        except DECLINE as e:
            ctx.count(f"build-declined:{type(e).__name__}")
            continue
        x = res["x"]
        if shares_binders(x):
            ctx.count("excluded:shared-binder")      # region of KF-shared-binder-unfold: not in the clean stream
            continue
        if absent_var_region(x) or any(
                any(not any(v.name in t.inputs for t in fr["terms"]) for v in fr["reduced"]) for fr in res["firings"]):
            ctx.count("excluded:absent-var-region")  # region of KF-contraction-absent-var
            ABSENT_POOL.append(case)
            continue
        xs = res.get("x_lin", x)
        try:
            wire = ser.to_wire(xs)
        except ser.Unsupported as e:
            ctx.count(f"beyond-model:{e}")
            continue
        ins = bint_inputs(x)
        env_impl, env_lin = impl_env(case)
        job = dict(case=case, res=res, ins=ins, env_impl=env_impl, env_lin=env_lin, log=log, tol=tol, extra=[])
        job["spec_req"] = len(reqs)
        reqs.append(f"C08 denote {sx(wire)} {sx(ser.ins_wire(ins))} {sx(ser.env_wire(env_lin))}")
        # Lean denote of the normalised term and of the lazily optimised term (syntax produced by funsor)
        if not log:
            for name, t in res["terms"].items():
                try:
                    w = ser.to_wire(t)
                except ser.Unsupported:
                    ctx.count(f"beyond-model:term:{name}")
                    continue
                job["extra"].append((name + "-term", len(reqs), t))
                reqs.append(f"C08 denote {sx(w)} {sx(ser.ins_wire(ins))} {sx(ser.env_wire(env_lin))}")
        # the Lean normaliser / unfolder models on the same lazy term
        job["rewrites"] = []
        wire_sr = SR[srname][2]
        for which in ("norm", "unfold"):
            job["rewrites"].append((which, len(reqs)))
            reqs.append(f"C08 rewrite {which} {wire_sr} {sx(wire)} {sx(ser.ins_wire(ins))} {sx(ser.ins_wire(ins))} "
                        f"{sx(ser.env_wire(env_lin))}")
        # optimizer firings
        job["firings"] = []
        for fr in res["firings"]:
            fq = firing_request(fr, env_lin, log)
            if fq is None:
                ctx.count("firing:beyond-model")
                continue
            job["firings"].append((fr, len(reqs), fq[1]))
            reqs.append(fq[0])
        jobs.append(job)
    answers = ctx.driver.ask(reqs) if reqs else []
    for job in jobs:
        case, res, ins, log, tol = job["case"], job["res"], job["ins"], job["log"], job["tol"]
        srname = case["sr"]
        ctx.count(f"semiring:{srname}")
        ctx.count(f"mode:{case['mode']}")
        ctx.count(f"leaves:{recipe_leaves(case['recipe'])}")
        for tg in set(recipe_tags(case["recipe"])):
            ctx.count(f"has:{tg}")
        if case["params"]:
            ctx.count("with-real-params")
        for sub in subs_nodes(case["recipe"]):
            keys = [k for k, _ in sub]
            if len(sub) >= 2:
                ctx.count("subs:multi-binding")
            if any(v[0] == "var" and v[1] in keys and v[1] != k for k, v in sub):
                ctx.count("subs:value-is-another-key(swap/chain)")
            if any(v[0] == "idx" for _, v in sub):
                ctx.count("subs:index-tensor")
        if has_repeated_factor(case["recipe"]):
            ctx.count("product:repeated-compound-factor")
        if has_repeated_leaf(case["recipe"]):
            ctx.count("product:repeated-leaf-operand")
        try:
            spec = model_values(answers[job["spec_req"]])
        except RuntimeError as e:
            ctx.infra_errors.append(f"driver: {e} for {describe(case)}")
            continue
        if spec is None:
            ctx.count("spec-undefined")
            ctx.case()
            continue
        names = set(n for n, _ in ins)

        def report(stage, got, why="value"):
            nonlocal nfail
            nfail += 1
            small = shrink_case(ctx, case, stage) if label == "clean" else case
            sres = None
            if small is not case:
                sres = oracle_stage(ctx, small, stage)
            if sres is not None:
                ctx.fail("input", f"C08.{stage}-ne-denote", witness=describe(small), expected=str(sres[0])[:500],
                         got=str(sres[1])[:500], python=replay_python(small, stage, sres[2], sres[0]))
            else:
                ctx.fail("input", f"C08.{stage}-ne-denote", witness=describe(case), expected=str(spec)[:500],
                         got=str(got)[:500], python=replay_python(case, stage, ins, spec))

        ok_all = True
        for stage in STAGES:
            r = res["stages"].get(stage)
            if isinstance(r, tuple):
                ctx.count(f"declined:{stage}:{r[1].split(':')[0]}")
                continue
            extra_in = set(k for k, v in r.inputs.items()) - names - set(case["params"])
            if extra_in:
                ok_all = False
                report(stage, f"foreign inputs {sorted(extra_in)}", "inputs")
                continue
            try:
                got = values_of(r, ins, job["env_impl"], log)
                if srname == "or-and":
                    if out_of_range(r, got):
                        ctx.count(f"range:bint2-result-not-0/1:{stage}")
                    got = truthify(got)
            except (KeyError, ValueError) as e:
                ok_all = False
                report(stage, f"{type(e).__name__}: {e}")
                continue
            if got is None:
                ctx.count(f"lazy-result:{stage}")
                continue
            if not vals_equal(got, spec, tol):
                ok_all = False
                report(stage, got)
        if "norm_identical" in res and not res["norm_identical"]:
            ok_all = False
            nfail += 1
            ctx.fail("input", "C08.normalize-not-identical", witness=describe(case),
                     expected="reinterpret(n) is n under normalize for the normalised n", got="a different object",
                     python=replay_python(case, "normalize-identity", ins, None))
        if "norm_direct_identical" in res and not res["norm_direct_identical"]:
            ok_all = False
            nfail += 1
            ctx.fail("input", "C08.normalize-direct-not-identical", witness=describe(case),
                     expected="reinterpret(n) is n under normalize for n built directly under normalize",
                     got="a different object", python=replay_python(case, "normalize-direct", ins, spec))
        for name, idx, t in job["extra"]:
            try:
                mv = model_values(answers[idx])
            except RuntimeError as e:
                ctx.infra_errors.append(f"driver: {e}")
                continue
            if mv is None:
                ctx.count(f"spec-undefined:{name}")
                continue
            bad_in = set(k for k, v in t.inputs.items() if v.dtype != "real") - names
            if bad_in or not vals_equal(mv, spec, 0.0):
                ok_all = False
                report(name.replace("-term", "") + "-term" if False else name, mv if not bad_in else f"foreign inputs {sorted(bad_in)}")
        for which, idx in job["rewrites"]:
            ans = answers[idx]
            if not ans.startswith("ok "):
                ctx.infra_errors.append(f"driver: {ans} for rewrite {which} {describe(case)}")
                continue
            d = {item[0]: item[1:] for item in parse_sx(ans[3:])}
            before = [atom_to_num(v) for v in d["before"][0]]
            after = [atom_to_num(v) for v in d["after"][0]]
            if any(isinstance(v, float) and v != v for v in before):
                ctx.count(f"model-{which}:beyond-fragment")
                continue
            if not vals_equal(before, spec, 0.0):
                ctx.infra_errors.append(f"Lean Ex.eval disagrees with Lean denote on {describe(case)}: {before} vs {spec}")
                continue
            if not vals_equal(after, spec, 0.0):
                ctx.infra_errors.append(f"Lean model {which} changed the value (a rule's side condition fails on a clean-stream "
                                        f"term?) {describe(case)}: {after} vs {spec}")
                continue
            ctx.count(f"model-{which}:value-preserved")
            if which == "norm":
                ctx.count("model-norm:flat" if d["flat"][0] == "true" else "model-norm:not-flat")
                n = res["terms"].get("normalize")
                if n is not None:
                    shape = root_shape(n, srname if not log else "add-mul", log)
                    mshape = d["root"][0]
                    mshape = [str(a) for a in mshape] if isinstance(mshape, list) else str(mshape)
                    ctx.count("model-norm:root-shape-agrees" if shape == mshape else "model-norm:root-shape-differs")
        for fr, idx, free in job["firings"]:
            ctx.count("optimizer-firing")
            ctx.count(f"firing:operands:{len(fr['terms'])}")
            try:
                m = parse_optimize(answers[idx])
            except RuntimeError as e:
                ctx.infra_errors.append(f"driver: {e}")
                continue
            if m is None:
                ok_all = False
                nfail += 1
                ctx.fail("correspondence", "C08.greedy-path-rejected-by-model",
                         witness=dict(case=describe(case), path=[list(p) for p in fr["path"]], operands=len(fr["terms"])))
                continue
            if any(str(v) == "nan" for v in m["spec"]):
                ctx.count("firing:spec-undefined")
                continue
            try:
                got = values_of(fr["result"], free, job["env_impl"], log)
                if srname == "or-and":
                    if out_of_range(fr["result"], got):
                        ctx.count("range:bint2-result-not-0/1:firing")
                    got = truthify(got)
            except (KeyError, ValueError) as e:
                got = f"{type(e).__name__}: {e}"
            absent = [v.name for v in fr["reduced"] if not any(v.name in t.inputs for t in fr["terms"])]
            if absent:
                ctx.count("firing:absent-reduced-var")
            if not vals_equal(m["value"], m["spec"], tol if log else 0.0):
                if absent:
                    continue           # region of KF-contraction-absent-var (never generated by the clean stream)
                ok_all = False
                ctx.infra_errors.append(f"Lean optimizer model disagrees with its own specification (theorem "
                                        f"optimize_any_path_sound): {describe(case)} path={fr['path']}")
                continue
            if isinstance(got, list) and not vals_equal(got, m["value"], tol):
                ok_all = False
                nfail += 1
                ctx.fail("input", "C08.optimize-firing-ne-model", witness=dict(case=describe(case), path=[list(p) for p in fr["path"]],
                         reduced=sorted(v.name for v in fr["reduced"]), operands=[sorted(t.inputs) for t in fr["terms"]]),
                         expected=str(m["value"])[:400], got=str(got)[:400], python=replay_python(case, "optimizer", ins, spec))
            elif isinstance(got, str):
                ok_all = False
                nfail += 1
                ctx.fail("input", "C08.optimize-firing-inputs", witness=describe(case), expected=str(free), got=got,
                         python=replay_python(case, "optimizer", ins, spec))
            else:
                if got is None:
                    ctx.count("firing:lazy-result")
                ctx.count("firing:tied")
            # per-step path_end_reduced_vars: the real run vs the model's trace (fidelity, not gated)
            mtrace = [sorted(str(n) for n in (st[2] if isinstance(st[2], list) else [])) for st in m["trace"]]
            if fr.get("steps") is not None and len(fr["steps"]) == len(mtrace):
                ctx.count("firing:trace-agrees" if fr["steps"] == mtrace else "firing:trace-differs")
                ctx.count("firing:final-vars-empty" if not m["final"] else "firing:final-vars-nonempty")
            else:
                ctx.count("firing:trace-unobserved")
        nontrivial = (recipe_leaves(case["recipe"]) >= 2 and len(ins) >= 0 and
                      any(t in ("sum", "contraction") for t in recipe_tags(case["recipe"])))
        if ok_all:
            ctx.case(sample=dict(semiring=srname, expr=python_of(case["recipe"], case["ctx"])[:300], inputs=ins,
                                 params=dict(case["params"])),
                     nontrivial_key=repr(describe(case)) if nontrivial else None)
    return nfail


def root_shape(n, srname, log=False):
    """root of a funsor term in the vocabulary of the Lean model's `rootShape` (fidelity only)"""
    if isinstance(n, Contraction):
        sum_op, prod_op = SR[srname][0], SR[srname][1]
        if log:
            sum_op, prod_op = ops.logaddexp, ops.add

        def k(op):
            return "null" if op is ops.null else "add" if op is sum_op else "mul" if op is prod_op else "other"
        return ["contraction", k(n.red_op), k(n.bin_op), str(len(n.reduced_vars)), str(len(n.terms))]
    if isinstance(n, Number):
        return "num"
    if isinstance(n, Binary):
        return "binary"
    if isinstance(n, Reduce):
        return "reduce"
    if isinstance(n, Subs):
        return "subs"
    if isinstance(n, Unary):
        return "unary"
    return "leaf"


def describe(case):
    def go(x):
        if isinstance(x, np.ndarray):
            return x.tolist()
        if isinstance(x, tuple):
            return [go(y) for y in x]
        if isinstance(x, float) and (math.isinf(x) or x != x):
            return str(x)
        return x
    return dict(semiring=case["sr"], sizes=dict(case["ctx"]), params=dict(case["params"]), mode=case["mode"],
                recipe=go(case["recipe"]))


# ------------------------------------------------------------------------------------------------
# python-side oracle (used by shrinking and by search when Lean is unavailable)
# ------------------------------------------------------------------------------------------------

def oracle(recipe, srname, ctx, env_lin):
    """Brute-force value of the recipe: returns (free names tuple, function point-dict -> number) in the
    MODEL's space (linear for log).  Exact Fractions / floats for ±inf."""
    wire_sr = SR[srname][2]
    kind = SR[srname][3]

    def sadd(a, b):
        if wire_sr == "add-mul":
            return a + b
        if wire_sr.startswith("max") or wire_sr == "or-and":
            return max(a, b)
        return min(a, b)

    def smul(a, b):
        if wire_sr == "or-and":
            return min(a, b)
        if wire_sr.endswith("mul"):
            return a * b
        return a + b

    def num(v):
        if isinstance(v, (bool, np.bool_)):
            return Fraction(int(v))
        v = float(v)
        if math.isinf(v) or v != v:
            return v
        return Fraction(v)

    def ev(r, pt):
        tag = r[0]
        if tag == "leaf":
            return num(r[2][tuple(pt[n] for n in r[1])]) if r[1] else num(r[2].reshape(-1)[0])
        if tag == "num":
            return num(r[1])
        if tag == "param":
            return num(env_lin[r[1]])
        if tag == "prod":
            return fold(smul, [ev(p, pt) for p in r[1]])
        if tag == "plus":
            return fold(sadd, [ev(p, pt) for p in r[1]])
        if tag == "sum":
            vs = [(n, ctx[n]) for n in r[1]] + list(r[2])
            vals = []
            for asg in itertools.product(*[range(s) for _, s in vs]):
                p2 = dict(pt)
                p2.update({n: i for (n, _), i in zip(vs, asg)})
                vals.append(ev(r[3], p2))
            return fold(sadd, vals)
        if tag == "contraction":
            vs = [(n, ctx[n]) for n in r[1]]
            vals = []
            for asg in itertools.product(*[range(s) for _, s in vs]):
                p2 = dict(pt)
                p2.update({n: i for (n, _), i in zip(vs, asg)})
                vals.append(fold(smul, [ev(p, p2) for p in r[2]]))
            return fold(sadd, vals)
        if tag == "minus":
            return ev(r[1], pt) - ev(r[2], pt)
        if tag == "neg":
            return -ev(r[1], pt)
        if tag == "subs":
            p2 = dict(pt)
            for k, v in r[2]:
                p2[k] = pt[v[1]] if v[0] == "var" else (v[2][pt[v[1]]] if v[0] == "idx" else v[1])
            return ev(r[1], p2)
        raise ValueError(tag)
    return ev


def oracle_stage(ctx, case, stage, res=None):
    """(expected, got, ins) if `stage` of `case` disagrees with the python oracle, else None."""
    srname, c, recipe = case["sr"], case["ctx"], case["recipe"]
    log = SR[srname][3] == "log"
    if res is None:
        try:
            res = run_impl(case)
        except DECLINE:
            return None
    x = res["x"]
    if shares_binders(x) or absent_var_region(x):
        return None
    ins = bint_inputs(x)
    env_impl, env_lin = impl_env(case)
    ev = oracle(recipe, srname, c, env_lin)
    try:
        expected = [ev(recipe, dict(zip([n for n, _ in ins], pt))) for pt in itertools.product(*[range(s) for _, s in ins])]
    except (KeyError, IndexError, ValueError, TypeError, ArithmeticError):
        return None
    if any(isinstance(v, float) and v != v for v in expected):
        return None
    tol = 1e-9 if log else 0.0
    if stage == "normalize-identity":
        return None
    st = stage.replace("-term", "")
    if st == "optimizer-lazy" or stage == "optimizer-term":
        st = "optimizer-lazy"
    r = res["stages"].get(st)
    if r is None or isinstance(r, tuple):
        return None
    if set(k for k in r.inputs) - set(n for n, _ in ins) - set(case["params"]):
        return (expected, f"foreign inputs {sorted(r.inputs)}", ins)
    try:
        got = values_of(r, ins, env_impl, log)
        if srname == "or-and":
            got = truthify(got)
    except (KeyError, ValueError) as e:
        return (expected, str(e), ins)
    if got is None or vals_equal(got, expected, tol):
        return None
    return (expected, got, ins)


def shrink_variants(r):
    tag = r[0]
    if tag in ("prod", "plus"):
        for p in r[1]:
            yield p
        if len(r[1]) > 2:
            for i in range(len(r[1])):
                yield (tag, tuple(p for j, p in enumerate(r[1]) if j != i))
        for i, p in enumerate(r[1]):
            for v in shrink_variants(p):
                yield (tag, tuple(v if j == i else q for j, q in enumerate(r[1])))
    elif tag == "sum":
        yield r[3]
        if len(r[1]) + len(r[2]) > 1:
            for i in range(len(r[1])):
                yield ("sum", tuple(n for j, n in enumerate(r[1]) if j != i), r[2], r[3])
            for i in range(len(r[2])):
                yield ("sum", r[1], tuple(n for j, n in enumerate(r[2]) if j != i), r[3])
        for v in shrink_variants(r[3]):
            yield ("sum", r[1], r[2], v)
    elif tag == "contraction":
        for p in r[2]:
            yield p
        if len(r[2]) > 2:
            for i in range(len(r[2])):
                yield ("contraction", r[1], tuple(p for j, p in enumerate(r[2]) if j != i))
        if len(r[1]) > 1:
            for i in range(len(r[1])):
                yield ("contraction", tuple(n for j, n in enumerate(r[1]) if j != i), r[2])
        for i, p in enumerate(r[2]):
            for v in shrink_variants(p):
                yield ("contraction", r[1], tuple(v if j == i else q for j, q in enumerate(r[2])))
    elif tag == "minus":
        yield r[1]
        yield r[2]
        for v in shrink_variants(r[1]):
            yield ("minus", v, r[2])
        for v in shrink_variants(r[2]):
            yield ("minus", r[1], v)
    elif tag == "neg":
        yield r[1]
        for v in shrink_variants(r[1]):
            yield ("neg", v)
    elif tag == "subs":
        yield r[1]
        if len(r[2]) > 1:
            for i in range(len(r[2])):
                yield ("subs", r[1], tuple(s for j, s in enumerate(r[2]) if j != i))
        for v in shrink_variants(r[1]):
            yield ("subs", v, r[2])


def shrink_case(ctx, case, stage, budget=150):
    """Greedy delta-debugging of the recipe against the python oracle."""
    if stage.endswith("-term") or stage == "normalize-identity":
        return case
    try:
        if oracle_stage(ctx, case, stage) is None:
            return case
    except Exception:
        return case
    cur = case
    improved = True
    while improved and budget > 0:
        improved = False
        for v in shrink_variants(cur["recipe"]):
            budget -= 1
            if budget <= 0:
                break
            cand = dict(cur, recipe=v)
            try:
                if recipe_leaves(v) <= recipe_leaves(cur["recipe"]) and v != cur["recipe"] and \
                        oracle_stage(ctx, cand, stage) is not None:
                    cur = cand
                    improved = True
                    break
            except Exception:
                continue
    return cur


# ------------------------------------------------------------------------------------------------
# dedicated streams for the open findings
# ------------------------------------------------------------------------------------------------

def stream_shared_binder(ctx):
    """KF-shared-binder-unfold: (Σ_i f)·(Σ_i f) with the two factors the same hash-consed Reduce."""
    fid = "KF-shared-binder-unfold"
    rng = ctx.rng
    hits = 0
    tried = 0
    example = None
    for _ in range(6):
        n = rng.choice([2, 3, 4])
        data = np.array([float(rng.choice([1, 2, 3])) for _ in range(n)])
        f = Tensor(data, OrderedDict(i=Bint[n]))
        with lazy:
            s = f.reduce(ops.add, "i")
            x = s * s
        if not shares_binders(x):
            continue
        tried += 1
        want = float(data.sum() ** 2)
        try:
            got = apply_optimizer(x)
            gotv = float(np.asarray(got.data))
        except DECLINE:
            continue
        if gotv != want:
            hits += 1
            example = f"f={data.tolist()}: apply_optimizer((Σ_i f)*(Σ_i f)) = {gotv}, (Σ_i f)^2 = {want}"
        ctx.count("dedicated:shared-binder")
    if hits:
        if not ctx.known(fid, True, what=example):
            ctx.fail("input", "C08.shared-binder-unfold", witness=example, expected="(Σ_i f)^2", got="Σ_i f^2",
                     python=PY_HEADER + "f = Tensor(np.array([1.,2.,3.]), OrderedDict(i=Bint[3]))\nwith lazy:\n    s = f.reduce(ops.add, 'i')\n    x = s * s\n"
                     "r = apply_optimizer(x)\nprint(r)\nFAILS = float(r.data) != 36.0\n")
    elif tried:
        ctx.known(fid, False)


def stream_absent_var(ctx):
    """KF-contraction-absent-var: Contraction(⊕, ⊗, {k, i}, f(i), g(j)[, h]) with k in no operand."""
    fid = "KF-contraction-absent-var"
    rng = ctx.rng
    hits = 0
    tried = 0
    example = None
    reqs, meta = [], []
    for trial in range(8):
        srname = rng.choice(["add-mul", "add-mul", "logaddexp-add"])
        sum_op, prod_op, wire_sr, kind, _ = SR[srname]
        ni, nj, nk = rng.choice([2, 3]), rng.choice([2, 3]), rng.choice([2, 3, 4])
        lin = [gen_data(rng, (ni,), "log") + 1.0, gen_data(rng, (nj,), "log") + 1.0, gen_data(rng, (nj,), "log") + 1.0]
        mk = (lambda d: np.log(d)) if kind == "log" else (lambda d: d)
        f = Tensor(mk(lin[0]), OrderedDict(i=Bint[ni]))
        g = Tensor(mk(lin[1]), OrderedDict(j=Bint[nj]))
        h = Tensor(mk(lin[2]), OrderedDict(j=Bint[nj]))
        terms = [f, g] if trial % 2 == 0 else [f, g, h]
        rv = frozenset([Variable("k", Bint[nk]), Variable("i", Bint[ni])])
        tried += 1
        want = float(nk) * lin[0].sum() * (lin[1] if len(terms) == 2 else lin[1] * lin[2])
        firings = []
        try:
            e = Contraction(sum_op, prod_op, rv, *terms)
            with lazy:
                x = Contraction(sum_op, prod_op, rv, *terms)
            with record_optimizer(firings):
                o = apply_optimizer(x)
        except DECLINE:
            continue
        ge = np.asarray(e.data, dtype=float)
        go = np.asarray(o.data, dtype=float)
        if kind == "log":
            ge, go = np.exp(ge), np.exp(go)
        bad_e = not np.allclose(ge, want, rtol=1e-9)
        bad_o = not np.allclose(go, want, rtol=1e-9)
        if bad_e or bad_o:
            hits += 1
            example = (f"{srname}: Contraction(⊕,⊗,{{k:Bint[{nk}], i}}, f(i), g(j){', h(j)' if len(terms) == 3 else ''}) "
                       f"eager={ge.tolist()} optimizer={go.tolist()} ⨁⨂={np.asarray(want).tolist()}")
        ctx.count("dedicated:absent-var")
        # the Lean optimizer model must reproduce the real (wrong) value on the recorded path
        for fr in firings:
            fq = firing_request(fr, {}, kind == "log")
            if fq is not None:
                reqs.append(fq[0])
                meta.append((fr, fq[1], kind == "log"))
    for (fr, free, log), ans in zip(meta, ctx.driver.ask(reqs) if reqs else []):
        m = parse_optimize(ans)
        if m is None:
            continue
        got = values_of(fr["result"], free, {}, log)
        ctx.count("dedicated:absent-var:model-agrees" if vals_equal(got, m["value"], 1e-9 if log else 0.0)
                  else "dedicated:absent-var:model-differs")
        if not vals_equal(got, m["value"], 1e-9 if log else 0.0):
            ctx.fail("correspondence", "C08.absent-var-model-fidelity",
                     witness=dict(model=str(m["value"]), impl=str(got)))
    if hits:
        if not ctx.known(fid, True, what=example):
            ctx.fail("input", "C08.contraction-absent-var", witness=example, expected="|k| * Σ_i f ⊗ g", got="Σ_i f ⊗ g",
                     python=PY_HEADER + "f = Tensor(np.array([1.,2.,3.]), OrderedDict(i=Bint[3]))\ng = Tensor(np.array([1.,10.]), OrderedDict(j=Bint[2]))\n"
                     "r = Contraction(ops.add, ops.mul, frozenset([Variable('k', Bint[4]), Variable('i', Bint[3])]), f, g)\nprint(r)\n"
                     "FAILS = not np.allclose(r.data, [24., 240.])\n")
    elif tried:
        ctx.known(fid, False)


# ------------------------------------------------------------------------------------------------
# einsum equations
# ------------------------------------------------------------------------------------------------

EINSUM_BACKENDS = {"add-mul": ["numpy", "torch", "jax.numpy"],
                   "logaddexp-add": ["funsor.einsum.numpy_log", "pyro.ops.einsum.torch_log",
                                     "pyro.ops.einsum.torch_marginal", "pyro.ops.einsum.torch_sample"],
                   "max-add": ["funsor.einsum.numpy_map", "pyro.ops.einsum.torch_map"]}


def einsum_equations(max_ops, nsym):
    """All equations with 1..max_ops operands, each operand a subset of the first `nsym` symbols (as a
    set: funsor inputs are named), outputs any subset of the symbols used; up to symbol order inside an
    operand (chosen by the caller)."""
    syms = "abcd"[:nsym]
    subsets = [tuple(s for s, b in zip(syms, bits) if b) for bits in itertools.product([0, 1], repeat=nsym)]
    for k in range(1, max_ops + 1):
        for operands in itertools.product(subsets, repeat=k):
            used = sorted(set().union(*[set(o) for o in operands]))
            for bits in itertools.product([0, 1], repeat=len(used)):
                yield operands, tuple(s for s, b in zip(used, bits) if b)


def brute_einsum(srname, operands, arrays, output, sizes):
    """python oracle in linear/model space: list over output points (row-major)."""
    wire = SR[srname][2]
    used = sorted(set().union(*[set(o) for o in operands]))
    red = [s for s in used if s not in output]
    out = []
    for opt in itertools.product(*[range(sizes[s]) for s in output]):
        acc = None
        for rpt in itertools.product(*[range(sizes[s]) for s in red]):
            pt = dict(zip(output, opt))
            pt.update(zip(red, rpt))
            term = None
            for o, a in zip(operands, arrays):
                v = a[tuple(pt[s] for s in o)] if o else a.reshape(-1)[0]
                v = exact(v)
                if term is None:
                    term = v
                elif wire == "or-and":
                    term = min(term, v)
                elif wire.endswith("mul"):
                    term = term * v
                else:
                    term = term + v
            if acc is None:
                acc = term
            elif wire == "add-mul":
                acc = acc + term
            else:
                acc = max(acc, term)
        out.append(acc)
    return out


def stream_einsum(ctx):
    rng = ctx.rng
    if ctx.tier == "quick":
        max_ops, nsym = 3, 3
    else:
        max_ops, nsym = 4, 4
    eqs = list(einsum_equations(max_ops, nsym))
    full = True
    if ctx.tier == "thorough":
        # 4 operands x 4 symbols is ~1M equations: all of <= 3 x 3, all 4x4 equations up to a cap chosen at random
        small = list(einsum_equations(3, 3))
        cap = 6000
        big = [e for e in eqs if len(e[0]) == 4 or any("d" in o for o in e[0])]
        rng.shuffle(big)
        if len(big) > cap:
            full = False
            big = big[:cap]
        eqs = small + big
    ctx.extra["einsum_equations"] = len(eqs)
    ctx.extra["einsum_exhaustive_3x3"] = True
    ctx.extra["einsum_exhaustive_4x4"] = full and ctx.tier == "thorough"
    srnames = ["add-mul", "logaddexp-add", "max-add"]
    reqs, meta = [], []
    for idx, (operands, output) in enumerate(eqs):
        sizes = {s: rng.choice([1, 2, 2, 3]) for s in "abcd"}
        # every backend NAME is exercised over the run; each equation with one backend per semiring
        for srname in srnames:
            kind = SR[srname][3]
            backend = EINSUM_BACKENDS[srname][idx % len(EINSUM_BACKENDS[srname])] if idx % 3 else EINSUM_BACKENDS[srname][0]
            arrays_lin, terms = [], []
            perm_ops = []
            for o in operands:
                o = list(o)
                rng.shuffle(o)
                perm_ops.append(tuple(o))
                lin = gen_data(rng, tuple(sizes[s] for s in o), "log" if kind == "log" else ("nonneg-int" if kind == "int" else kind))
                arrays_lin.append(lin)
                with np.errstate(divide="ignore"):
                    data = np.log(lin) if kind == "log" else lin
                terms.append(Tensor(data, OrderedDict((s, Bint[sizes[s]]) for s in o)))
            out_syms = list(output)
            rng.shuffle(out_syms)
            eqn = ",".join("".join(o) for o in perm_ops) + "->" + "".join(out_syms)
            try:
                r = feinsum.einsum(eqn, *terms, backend=backend)
            except DECLINE as e:
                ctx.count(f"einsum:declined:{type(e).__name__}")
                continue
            ctx.count(f"einsum:backend:{backend}")
            ctx.count(f"einsum:operands:{len(operands)}")
            ins = [(s, sizes[s]) for s in sorted(output)]
            want = brute_einsum(srname if kind != "log" else "add-mul", perm_ops, arrays_lin, tuple(s for s, _ in ins), sizes)
            log = kind == "log"
            bad = None
            if set(r.inputs) - set(output):
                bad = f"foreign inputs {sorted(r.inputs)}"
            else:
                try:
                    got = values_of(r, ins, {}, log)
                except (KeyError, ValueError) as e:
                    got, bad = None, str(e)
                if bad is None and (got is None or not vals_equal(got, want, 1e-9 if log else 0.0)):
                    bad = got
            if bad is not None:
                py = (PY_HEADER + "from funsor.einsum import einsum\n" +
                      "terms = [" + ", ".join(
                          f"Tensor(np.array({t.data.tolist()!r}, dtype=float), OrderedDict([" + ", ".join(f"({k!r}, Bint[{v.size}])" for k, v in t.inputs.items()) + "]))"
                          for t in terms).replace("-inf", "-math.inf") + "]\n" +
                      f"r = einsum({eqn!r}, *terms, backend={backend!r})\nprint(r)\n"
                      f"want = {[float(v) for v in want]!r}   # brute force over {ins}" + (" (linear space)" if log else "") + "\n"
                      "names = " + repr([n for n, _ in ins]) + "\n"
                      "FAILS = bool(set(r.inputs) - set(names))\nif not FAILS:\n"
                      "    have = list(r.inputs)\n    d = np.asarray(r.data, dtype=float).transpose([have.index(n) for n in names if n in have])\n"
                      "    d = np.broadcast_to(d.reshape([" + "s if n in have else 1 for n, s in " + repr(ins) + "]), " + repr([s for _, s in ins]) + ").reshape(-1)\n"
                      + ("    d = np.exp(d)\n" if log else "") +
                      "    FAILS = not np.allclose(d, want, rtol=1e-9, equal_nan=True)\n")
                ctx.fail("input", "C08.einsum-ne-bruteforce", witness=dict(equation=eqn, backend=backend, sizes={s: sizes[s] for s in "abcd"[:nsym]},
                         data=[a.tolist() for a in arrays_lin]), expected=str(want)[:400], got=str(bad)[:400], python=py)
                continue
            # the two numpy einsum back ends themselves (funsor/einsum/numpy_log.py, numpy_map.py), which
            # funsor reaches through opt_einsum.contract(..., backend=<module name>)
            direct = {"logaddexp-add": "funsor.einsum.numpy_log", "max-add": "funsor.einsum.numpy_map"}.get(srname)
            if direct is not None:
                import opt_einsum
                try:
                    with np.errstate(all="ignore"):
                        arr = opt_einsum.contract(eqn, *[np.asarray(t.data, dtype=float) for t in terms], backend=direct)
                    rd = Tensor(np.asarray(arr), OrderedDict((s_, Bint[sizes[s_]]) for s_ in out_syms))
                    gotd = values_of(rd, ins, {}, log)
                except DECLINE as e:
                    ctx.count(f"einsum:direct-declined:{type(e).__name__}")
                    gotd = want
                ctx.count(f"einsum:direct:{direct}")
                if gotd is None or not vals_equal(gotd, want, 1e-9 if log else 0.0):
                    py = ("import numpy as np, math, opt_einsum\n" +
                          "arrays = [" + ", ".join(f"np.array({t.data.tolist()!r}, dtype=float)" for t in terms).replace("-inf", "-math.inf").replace("inf", "math.inf").replace("-math.math.inf", "-math.inf") + "]\n" +
                          f"r = opt_einsum.contract({eqn!r}, *arrays, backend={direct!r})\nprint(r)\n"
                          f"want = {[float(v) for v in want]!r}   # brute force over {ins} (sorted output symbols" + (", linear space" if log else "") + ")\n"
                          f"r = np.asarray(r).transpose({[out_syms.index(n) for n, _ in ins]!r}).reshape(-1)\n" +
                          ("r = np.exp(r)\n" if log else "") +
                          "FAILS = not np.allclose(r, want, rtol=1e-9, equal_nan=True)\n")
                    ctx.fail("input", "C08.einsum-backend-ne-bruteforce", witness=dict(equation=eqn, backend=direct,
                             data=[a.tolist() for a in arrays_lin]), expected=str(want)[:400], got=str(gotd)[:400], python=py)
                    continue
            # Lean: denote of the lazy contraction (sampled: the driver is the slow part)
            if not log and idx % 7 == 0:
                red = sorted(set().union(*[set(o) for o in perm_ops]) - set(output))
                w = (["contraction", ser.opname(SR[srname][0]), ser.opname(SR[srname][1]),
                      [[Q(s), ["bint", sizes[s]]] for s in red]] + [ser.to_wire(t) for t in terms]) if red and len(terms) > 1 else None
                if w is not None:
                    reqs.append(f"C08 denote {sx(w)} {sx(ser.ins_wire(ins))} ()")
                    meta.append((eqn, backend, want))
            ctx.case(nontrivial_key=("einsum", eqn, backend) if len(operands) > 1 and len(output) < len(set().union(*[set(o) for o in operands])) else None)
    for (eqn, backend, want), ans in zip(meta, ctx.driver.ask(reqs) if reqs else []):
        mv = model_values(ans)
        ctx.count("einsum:lean-denote")
        if mv is None or not vals_equal(mv, want, 0.0):
            ctx.infra_errors.append(f"einsum oracle and Lean denote disagree on {eqn}: {mv} vs {want}")


def stream_orand_contractions(ctx):
    """(or, and) over the einsum equations: Bint[2] operands whose 0/1 data are STORED as bool / uint8 / int32 /
    int64 (funsor.einsum has no backend name for this semiring, so the n-ary Contraction is built directly):
    eager n-ary Contraction, apply_optimizer of the lazy one, and the naive fold, as truth values against brute force."""
    rng = ctx.rng
    eqs = [e for e in einsum_equations(3, 3) if len(e[0]) >= 2]
    step = 2 if ctx.tier == "quick" else 1
    for idx, (operands, output) in enumerate(eqs):
        if idx % step:
            continue
        used = sorted(set().union(*[set(o) for o in operands]))
        red = [s_ for s_ in used if s_ not in output]
        if not red:
            continue
        sizes = {s_: rng.choice([2, 2, 3, 4]) for s_ in "abc"}
        arrays, terms, perm_ops = [], [], []
        for o in operands:
            o = list(o)
            rng.shuffle(o)
            perm_ops.append(tuple(o))
            a = gen_data(rng, tuple(sizes[s_] for s_ in o), "bool")
            arrays.append(a)
            terms.append(Tensor(a.astype(rng.choice(INT_STORES)), OrderedDict((s_, Bint[sizes[s_]]) for s_ in o), 2))
        ins = [(s_, sizes[s_]) for s_ in sorted(output)]
        want = brute_einsum("or-and", perm_ops, [a.astype(float) for a in arrays], tuple(s_ for s_, _ in ins), sizes)
        rv = frozenset(Variable(s_, Bint[sizes[s_]]) for s_ in red)
        routes = {}
        try:
            routes["eager-nary"] = Contraction(ops.or_, ops.and_, rv, *terms)
            with lazy:
                x = Contraction(ops.or_, ops.and_, rv, *terms)
            routes["optimizer"] = apply_optimizer(x)
            routes["naive-fold"] = fold(ops.and_, terms).reduce(ops.or_, frozenset(red))
        except DECLINE as e:
            ctx.count(f"orand:declined:{type(e).__name__}")
        for route, r in routes.items():
            bad = None
            if set(r.inputs) - set(output):
                bad = f"foreign inputs {sorted(r.inputs)}"
            else:
                try:
                    got = values_of(r, ins, {}, False)
                except (KeyError, ValueError) as e:
                    got, bad = None, str(e)
                if bad is None:
                    if out_of_range(r, got):
                        ctx.count(f"range:bint2-result-not-0/1:orand-{route}")
                    if got is None or not vals_equal(truthify(got), want, 0.0):
                        bad = got
            ctx.count(f"orand:{route}")
            if bad is not None:
                eqn = ",".join("".join(o) for o in perm_ops) + "->" + "".join(s_ for s_, _ in ins)
                build_terms = "terms = [" + ", ".join(
                    f"Tensor(np.array({t.data.astype(int).tolist()!r}).astype({str(t.data.dtype)!r}), OrderedDict(["
                    + ", ".join(f"({k!r}, Bint[{v.size}])" for k, v in t.inputs.items()) + "]), 2)" for t in terms) + "]\n"
                how = {"eager-nary": "r = Contraction(ops.or_, ops.and_, rv, *terms)\n",
                       "optimizer": "with lazy:\n    x = Contraction(ops.or_, ops.and_, rv, *terms)\nr = apply_optimizer(x)\n",
                       "naive-fold": "r = fold(ops.and_, terms).reduce(ops.or_, frozenset(" + repr(red) + "))\n"}[route]
                py = (PY_HEADER + build_terms + "rv = frozenset([" + ", ".join(f"Variable({s_!r}, Bint[{sizes[s_]}])" for s_ in red) + "])\n"
                      + how + "print(r)\n" + f"want = {[float(v) for v in want]!r}   # brute force (truth values) over {ins}\n"
                      "names = " + repr([n for n, _ in ins]) + "\nFAILS = bool(set(r.inputs) - set(names))\nif not FAILS:\n"
                      "    have = list(r.inputs)\n    d = np.asarray(r.data).transpose([have.index(n) for n in names if n in have])\n"
                      "    d = np.broadcast_to(d.reshape([s if n in have else 1 for n, s in " + repr(ins) + "]), " + repr([s_ for _, s_ in ins]) + ").reshape(-1)\n"
                      "    FAILS = not np.array_equal((d != 0).astype(float), np.array(want))\n")
                ctx.fail("input", f"C08.orand-{route}-ne-bruteforce", witness=dict(equation=eqn, storage=[str(t.data.dtype) for t in terms],
                         data=[a.astype(int).tolist() for a in arrays]), expected=str(want)[:300], got=str(bad)[:300], python=py)
            else:
                ctx.case(nontrivial_key=("orand", idx, route))


def stream_number_contractions(ctx):
    """Contractions ALL of whose operands are Numbers — drawn from {unit of ⊗, zero of ⊕, ordinary}, all-unit
    tuples included — with reduced Variables that no operand mentions (the pending reduction contributes the
    multiplicity |i| / log|i|).  Built directly and reached by substituting the values into free real parameters;
    eager, normalize, lazy + apply_optimizer.  (Number operands only: funsor evaluates these correctly as long as at
    most two operands survive unit removal; a Tensor operand next to an absent reduced variable, or three or more
    non-unit Numbers reaching the optimizer's finitary rule, is the region of KF-contraction-absent-var.)"""
    rng = ctx.rng
    reqs, meta = [], []
    n = 60 if ctx.tier == "quick" else 400
    for _ in range(n):
        srname = rng.choice(["add-mul", "logaddexp-add", "max-add", "min-add", "max-mul"])
        sum_op, prod_op, wire_sr, kind, twin = SR[srname]
        zero, one = units(srname)
        pool = [one, one, one, zero, 2.0, 3.0] if srname != "max-mul" else [one, one, one, 0.0, 2.0, 3.0]
        k = rng.choice([1, 2, 2, 3])
        vals = [rng.choice(pool) for _ in range(k)] if rng.random() < 0.6 else [one] * k
        nv = rng.choice([1, 1, 2])
        vs = [("i", rng.choice([2, 3, 4])), ("j", rng.choice([2, 3]))][:nv]
        rv = frozenset(Variable(nm, Bint[sz]) for nm, sz in vs)
        mult = int(np.prod([sz for _, sz in vs]))
        # python oracle in implementation space
        if srname == "add-mul":
            want = mult * float(np.prod(vals))
        elif srname == "logaddexp-add":
            want = math.log(mult) + sum(vals)
        elif srname == "max-mul":
            want = float(np.prod(vals))
        else:
            want = sum(vals)
        terms = [Number(v) for v in vals]
        params = [Variable(f"p{q}", Real) for q in range(k)]
        bind = {f"p{q}": vals[q] for q in range(k)}
        routes = {}

        def mk(ts):
            if len(ts) == 1:
                return Contraction(sum_op, ops.null, rv, ts[0])
            return Contraction(sum_op, prod_op, rv, *ts)
        try:
            routes["eager"] = mk(terms)
            with lazy:
                x = mk(terms)
            routes["optimizer"] = apply_optimizer(x)
            with normalize:
                d = mk(terms)
            routes["normalize-direct"] = reinterpret(d)
            with reflect:
                t2 = mk(params)
            with normalize:
                d2 = t2(**bind)
            routes["subs-normalize"] = reinterpret(d2)
            routes["subs-optimizer"] = apply_optimizer(t2(**bind))
            with lazy:
                l2 = t2(**bind)
            routes["subs-lazy-optimizer"] = apply_optimizer(l2)
        except DECLINE as e:
            ctx.count(f"numcontr:declined:{type(e).__name__}")
        ctx.count("numcontr:all-units" if all(v == one for v in vals) else "numcontr:mixed")
        for route, r in routes.items():
            ctx.count(f"numcontr:{route}")
            if not isinstance(r, (Tensor, Number)):
                ctx.count(f"numcontr:lazy-result:{srname}")      # a decline (no eager rule), not a value
                continue
            ok = not r.inputs
            if ok:
                got = float(np.asarray(r.data))
                ok = (got == want) or (not math.isinf(want) and abs(got - want) <= 1e-9 * max(1.0, abs(want)))
            else:
                got = str(r)[:80]
            if not ok and route.endswith("optimizer") and sum(1 for v in vals if v != one) >= 3:
                # >= 3 operands survive unit removal, so the term reaches optimize_contract_finitary_funsor with a
                # reduced variable no operand mentions: the call site and input shape of KF-contraction-absent-var
                # (multiplicity dropped, e.g. sum_{i<4,j<3} 3*2*3 = 18 instead of 216); reported by the dedicated stream
                ctx.count("numcontr:known-region:KF-contraction-absent-var")
                continue
            if not ok:
                py = (PY_HEADER + f"terms = [Number(v) for v in {vals!r}]\n".replace("inf", "math.inf")
                      + "rv = frozenset([" + ", ".join(f"Variable({nm!r}, Bint[{sz}])" for nm, sz in vs) + "])\n"
                      + f"SUM, PROD = ops.{sum_op.__name__}, ops.{prod_op.__name__}\n"
                      + "with lazy:\n    x = Contraction(SUM, PROD, rv, *terms) if len(terms) > 1 else Contraction(SUM, ops.null, rv, terms[0])\n"
                      + "with normalize:\n    n = reinterpret(x)\nr1 = reinterpret(n)\nr2 = apply_optimizer(x)\nprint(r1, r2)\n"
                      + f"want = {want!r}\n".replace("inf", "math.inf")
                      + "FAILS = not (np.isclose(float(r1.data), want, equal_nan=True) and np.isclose(float(r2.data), want, equal_nan=True))\n")
                ctx.fail("input", f"C08.number-contraction-{route}", witness=dict(semiring=srname, operands=[str(v) for v in vals],
                         reduced=vs, route=route), expected=str(want), got=str(got), python=py)
            else:
                ctx.case(nontrivial_key=("numcontr", srname, tuple(vals), tuple(vs), route))
        # Lean denote of the lazy contraction (exact semirings): the multiplicity is the specification's too
        if kind != "log" and "optimizer" in routes:
            try:
                reqs.append(f"C08 denote {sx(ser.to_wire(x))} () ()")
                meta.append((srname, vals, vs, want))
            except ser.Unsupported:
                pass
    for (srname, vals, vs, want), ans in zip(meta, ctx.driver.ask(reqs) if reqs else []):
        mv = model_values(ans)
        ctx.count("numcontr:lean-denote")
        if mv is None or not same_num(mv[0], exact(np.float64(want))):
            ctx.infra_errors.append(f"number-contraction oracle and Lean denote disagree: {srname} {vals} {vs}: {mv} vs {want}")


# ------------------------------------------------------------------------------------------------
# entry points
# ------------------------------------------------------------------------------------------------

def correspond(ctx):
    n = 800 if ctx.tier == "quick" else 12000
    ctx.rule = ("random semiring expressions over 1-4 named Bint inputs of sizes 1-4 (leaves over random subsets of the "
                "inputs, numbers incl. both units, free real parameters bound at a sample point; products, ⊕-sums, "
                "reductions over random subsets incl. absent variables, direct Contractions, renaming/number "
                "substitutions; <= 8 leaves) in 7 semirings, built under lazy/reflect, each decided on its whole input "
                "space against Lean `denote`; every optimizer firing re-run in the Lean model on opt_einsum's path; "
                "einsum equations exhaustively. Non-trivial = >= 2 leaves and at least one reduction; distinct by content.")
    cases = [gen_case(ctx.rng, ctx.tier) for _ in range(n)]
    batch = 400
    for i in range(0, len(cases), batch):
        check_cases(ctx, cases[i:i + batch])
    stream_shared_binder(ctx)
    stream_absent_var(ctx)
    stream_einsum(ctx)
    stream_orand_contractions(ctx)
    stream_number_contractions(ctx)
    ctx.assumptions.append("(logaddexp, add) is compared through exp with rtol 1e-9 against the (add, mul) twin in Lean; "
                           "opt_einsum.contract and numpy's einsum are trusted primitives (modelled by ⨁⨂)")


def search(ctx, broken):
    """A proof / build / correspondence broke: hunt for a concrete failing input with the python oracle."""
    rng = ctx.rng
    n = 4000 if ctx.tier == "quick" else 20000
    found = 0
    for _ in range(n):
        case = gen_case(rng, ctx.tier)
        try:
            res = run_impl(case)
        except DECLINE:
            continue
        for stage in STAGES:
            try:
                r = oracle_stage(ctx, case, stage, res)
            except Exception:
                r = None
            if r is not None:
                small = shrink_case(ctx, case, stage)
                r2 = oracle_stage(ctx, small, stage) or r
                ctx.fail("input", f"C08.{stage}-ne-oracle", witness=describe(small), expected=str(r2[0])[:500],
                         got=str(r2[1])[:500], python=replay_python(small, stage, r2[2], r2[0]))
                found += 1
                break
        if found >= 3:
            break


# ------------------------------------------------------------------------------------------------
# translator: the op tables the rules trust  ->  lean/FunsorVerif/Gen/C08Tables.lean
# ------------------------------------------------------------------------------------------------

def _wire_opname(n):
    return {"and_": "and", "or_": "or"}.get(n, n)


def _unit_atom(v):
    if isinstance(v, bool):
        return "XR.fin 1" if v else "XR.fin 0"
    v = float(v)
    if v == math.inf:
        return "XR.pinf"
    if v == -math.inf:
        return "XR.ninf"
    if v != v:
        return "XR.nan"
    fr = Fraction(v)
    return f"XR.fin {fr.numerator}" if fr.denominator == 1 and fr.numerator >= 0 else f"XR.fin ({fr.numerator} / {fr.denominator})"


def ast_tables():
    """UNITS[op] = v and DISTRIBUTIVE_OPS.add((a, b)) as written in funsor/ops/*.py"""
    import ast
    from ..common import REPO
    units, dist = {}, set()
    for fn in ("builtin.py", "array.py", "op.py"):
        tree = ast.parse((REPO / "funsor" / "ops" / fn).read_text())
        for node in ast.walk(tree):
            if isinstance(node, ast.Assign) and len(node.targets) == 1 and isinstance(node.targets[0], ast.Subscript):
                t = node.targets[0]
                if isinstance(t.value, ast.Name) and t.value.id == "UNITS" and isinstance(t.slice, ast.Name):
                    try:
                        units[t.slice.id] = eval(compile(ast.Expression(node.value), fn, "eval"), {"math": math})
                    except Exception:
                        units[t.slice.id] = ast.unparse(node.value)
            if isinstance(node, ast.Call) and isinstance(node.func, ast.Attribute) and node.func.attr == "add" \
                    and isinstance(node.func.value, ast.Name) and node.func.value.id == "DISTRIBUTIVE_OPS" \
                    and node.args and isinstance(node.args[0], ast.Tuple) and len(node.args[0].elts) == 2 \
                    and all(isinstance(e, ast.Name) for e in node.args[0].elts):
                dist.add(tuple(e.id for e in node.args[0].elts))
    return units, dist


def extract(ctx):
    from ..common import LEAN
    live_units = {ser.opname(k) if False else getattr(k, "name", getattr(k, "__name__", str(k))): v for k, v in ops.UNITS.items()}
    live_dist = set((getattr(a, "name", str(a)), getattr(b, "name", str(b))) for a, b in ops.DISTRIBUTIVE_OPS)
    a_units, a_dist = ast_tables()
    mism = {}
    if set(a_units) != set(live_units) or any(
            not same_num(exact(np.float64(a_units[k])) if not isinstance(a_units[k], str) else 0, exact(np.float64(live_units[k])))
            for k in set(a_units) & set(live_units)):
        mism["units"] = dict(ast=repr(a_units), live=repr(live_units))
    if a_dist != live_dist:
        mism["distributive"] = dict(ast=sorted(a_dist), live=sorted(live_dist))
    ctx.extra["tables"] = dict(units={k: str(v) for k, v in sorted(live_units.items())}, distributive=sorted(live_dist))
    if mism:
        ctx.extra["table_ast_vs_live_mismatch"] = mism
        ctx.count("extract:ast-vs-live-mismatch")
    lines = ["/- GENERATED by fv/harness/c08.py (extract) from funsor/ops/{builtin,array,op}.py — DO NOT EDIT.",
             "   The live tables `funsor.ops.UNITS` and `funsor.ops.DISTRIBUTIVE_OPS` (what cnf.py / optimizer.py read),",
             "   cross-checked against the AST of the source files.  Op names as on the wire (and_ -> and, or_ -> or). -/",
             "import FunsorVerif.Core.XR", "namespace FV.Gen.C08", "open FV", "",
             "/-- `UNITS[op] = v` -/", "def units : List (String × XR) := ["]
    lines.append(",\n".join(f'  ("{_wire_opname(k)}", {_unit_atom(v)})' for k, v in sorted(live_units.items())))
    lines += ["]", "", "/-- `DISTRIBUTIVE_OPS.add((sum_op, prod_op))` -/", "def distributive : List (String × String) := ["]
    lines.append(",\n".join(f'  ("{_wire_opname(a)}", "{_wire_opname(b)}")' for a, b in sorted(live_dist)))
    lines += ["]", "", "end FV.Gen.C08", ""]
    txt = "\n".join(lines)
    gen = LEAN / "FunsorVerif" / "Gen" / "C08Tables.lean"
    if not gen.exists() or gen.read_text() != txt:
        gen.write_text(txt)
        ctx.count("extract:gen-rewritten")
    ctx.count("extract:entries", len(live_units) + len(live_dist))
