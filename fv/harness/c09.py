"""
C09 — Plated sum-product equals brute-force unrolling.

Correspondence: real funsor (partial_sum_product in one call and in two successive calls, sum_product,
modified_/dynamic_partial_sum_product with empty Markov steps, plated einsum) against the Lean model
FV.C09 (`psp` = the elimination loop with ordinals / _partition / leaf choice, `unroll` = the brute-force
oracle that replicates every eliminated variable once per index of the plates it lives in).

Gate (the property): whenever funsor returns a value, the product of the returned factors equals `unroll`
at every point of the free inputs; when the model says "intractable" funsor must not return a value.
Fidelity (counted, not gated): the multiset of returned factors equals the model's; funsor raises exactly
when the model raises.
"""
import itertools
from collections import OrderedDict
from fractions import Fraction
from functools import reduce as _reduce

import numpy as np

from ..common import sx, parse_sx, atom_to_num
from .. import futil
from ..futil import funsor, Tensor, Bint, ops, SEMIRINGS, table, exact, same_num
from ..futil import Variable, Real

from funsor.sum_product import (partial_sum_product, sum_product, modified_partial_sum_product,
                                dynamic_partial_sum_product)
from funsor.einsum import einsum as f_einsum
from funsor.terms import Number
from funsor.constant import Constant
from funsor.interpretations import lazy as lazy_interp
from funsor.interpreter import reinterpret

VARS = ["a", "b", "c", "d"]
PLATES = ["i", "j", "k"]
EINSUM_BACKEND = {"add-mul": "numpy", "logaddexp-add": "funsor.einsum.numpy_log", "max-add": "funsor.einsum.numpy_map"}
# the five shared semirings plus (min, mul) on non-negative data: six in all
SEMIRINGS = dict(SEMIRINGS)
SEMIRINGS["min-mul"] = (ops.min, ops.mul, "min-mul", "nonneg-int")
SRS = list(SEMIRINGS)


# --------------------------------------------------------------------------------------
# graphs
# --------------------------------------------------------------------------------------

class Graph:
    """factors: list of tuples of names; sizes: name -> size; lin: list of exact *linear-carrier* arrays
    (object arrays of Fraction / float specials), one per factor, shaped like the factor's inputs."""

    def __init__(self, factors, sizes, lin, sr, kinds=None):
        self.factors = [tuple(f) for f in factors]
        self.sizes = dict(sizes)
        self.lin = lin
        self.sr = sr
        # per factor: None = Tensor; ("const", [plates…]) = funsor.Constant over those plates of a Tensor over
        # the remaining inputs (the table in `lin` is the EXPANDED one: constant along those axes);
        # ("number",) = funsor Number (no inputs); ("lazy",) = a lazily built Binary of two Tensors;
        # ("dup", j) = the very same funsor object as factor j, listed again (its table in `lin` is factor j's)
        self.kinds = list(kinds) if kinds else [None] * len(self.factors)
        # ("real", base) = Tensor(base) (x) Variable('w', Real): a factor depending on a FREE REAL PARAMETER; `lin`
        # holds the table with w already substituted (= what the oracle sees), `wval` the value substituted
        # into funsor's (lazy) result afterwards
        self.wval = None

    def names(self):
        out = []
        for f in self.factors:
            for n in f:
                if n not in out:
                    out.append(n)
        return out

    def tensors(self):
        kind = SEMIRINGS[self.sr][3]
        ts = []
        for f, d in zip(self.factors, self.lin):
            arr = np.array(d, dtype=np.float64).reshape(tuple(self.sizes[n] for n in f))
            if kind == "log":
                with np.errstate(divide="ignore"):
                    arr = np.log(arr)
            k = self.kinds[len(ts)]
            if k is not None and k[0] == "dup":
                ts.append(ts[k[1]])      # the SAME funsor object listed again
            else:
                ts.append(self._make(f, arr, k))
        return ts

    def _make(self, f, arr, kind):
        full = Tensor(arr, OrderedDict((n, Bint[self.sizes[n]]) for n in f))
        if kind is None:
            return full
        if kind[0] == "const":
            cs = [n for n in f if n in kind[1]]
            idx = tuple(0 if n in cs else slice(None) for n in f)
            inner = Tensor(arr[idx], OrderedDict((n, Bint[self.sizes[n]]) for n in f if n not in cs))
            return Constant(OrderedDict((n, Bint[self.sizes[n]]) for n in cs), inner)
        if kind[0] == "number":
            return Number(float(arr.reshape(-1)[0]))
        if kind[0] == "real":
            _, prod_op, _, skind = SEMIRINGS[self.sr]
            base = np.array(kind[1], dtype=np.float64).reshape(arr.shape)
            if skind == "log":
                with np.errstate(divide="ignore"):
                    base = np.log(base)
            return prod_op(Tensor(base, OrderedDict((n, Bint[self.sizes[n]]) for n in f)), Variable("w", Real))
        if kind[0] == "lazy":
            _, prod_op, _, _ = SEMIRINGS[self.sr]
            unit = Tensor(np.full(arr.shape[:1], float(ops.UNITS[prod_op])),
                          OrderedDict((n, Bint[self.sizes[n]]) for n in f[:1]))
            with lazy_interp:
                return prod_op(full, unit)
        raise ValueError(kind)

    def wire_factors(self):
        return [[[[n, self.sizes[n]] for n in f], [exact_lin(v) for v in np.asarray(d, dtype=object).reshape(-1)]]
                for f, d in zip(self.factors, self.lin)]

    def describe(self):
        d = dict(factors=["".join(f) for f in self.factors], sizes=self.sizes, sr=self.sr,
                 data=[np.asarray(d, dtype=np.float64).reshape(-1).tolist() for d in self.lin])
        if any(k is not None for k in self.kinds):
            d["kinds"] = [list(k) if k is not None else None for k in self.kinds]
        if self.wval is not None:
            d["wval"] = self.wval
        return d


def exact_lin(v):
    if isinstance(v, Fraction):
        return v
    return exact(np.float64(v))


def gen_lin(rng, shape, kind):
    n = int(np.prod(shape)) if shape else 1
    if kind in ("nonneg-int",):
        vals = [rng.choice([0, 1, 1, 2, 3]) for _ in range(n)]
    elif kind == "int-ninf":
        vals = [rng.choice([-2, -1, 0, 1, 2, 3, float("-inf")]) for _ in range(n)]
    elif kind == "int-pinf":
        vals = [rng.choice([-2, -1, 0, 1, 2, 3, float("inf")]) for _ in range(n)]
    elif kind == "log":
        vals = [rng.choice([0.0, 0.5, 1.0, 1.0, 2.0, 3.0]) for _ in range(n)]
    else:
        raise ValueError(kind)
    return np.array(vals, dtype=np.float64).reshape(shape)


def make_graph(rng, factors, sizes, sr):
    kind = SEMIRINGS[sr][3]
    lin = [gen_lin(rng, tuple(sizes[n] for n in f), kind) for f in factors]
    return Graph(factors, sizes, lin, sr)


# --------------------------------------------------------------------------------------
# python-side oracle (used by search, and to size cases): literal unrolling
# --------------------------------------------------------------------------------------

def sr_ops(sr):
    wire = SEMIRINGS[sr][2]
    if wire == "add-mul":
        return (lambda a, b: a + b), (lambda a, b: a * b), 0, 1
    if wire == "max-add":
        return max, (lambda a, b: a + b), float("-inf"), 0
    if wire == "min-add":
        return min, (lambda a, b: a + b), float("inf"), 0
    if wire == "max-mul":
        return max, (lambda a, b: a * b), 0, 1
    if wire == "min-mul":
        return min, (lambda a, b: a * b), float("inf"), 1
    raise ValueError(wire)


def ordinals(factors, elim, plates):
    """(P, S, ord per factor, O per sum var present)"""
    P = set(plates) & set(elim)
    S = set(elim) - P
    ords = [frozenset(n for n in f if n in P) for f in factors]
    O = {}
    for f, o in zip(factors, ords):
        for n in f:
            if n in S:
                O[n] = O.get(n, o) & o
    return P, S, ords, O


def unrolled_size(g, elim, plates):
    """(number of joint assignments of the replicated eliminated variables, number of factor instances)"""
    P, S, ords, O = ordinals(g.factors, elim, plates)
    joint = 1
    for v, o in O.items():
        copies = int(np.prod([g.sizes[p] for p in o])) if o else 1
        joint *= g.sizes[v] ** copies
    inst = sum(int(np.prod([g.sizes[p] for p in o])) if o else 1 for o in ords)
    return joint, inst


def py_unroll(g, elim, plates, free):
    """dict free-point -> value (python numbers in the linear carrier); literal enumeration."""
    add, mul, zero, one = sr_ops(g.sr)
    P, S, ords, O = ordinals(g.factors, elim, plates)
    datas = [np.asarray(d, dtype=object) for d in g.lin]
    for d in datas:
        for idx in np.ndindex(d.shape):
            v = d[idx]
            d[idx] = Fraction(v) if v == v and abs(v) != float("inf") else float(v)
    copies = []
    for v in sorted(O):
        o = sorted(O[v])
        for ctx in itertools.product(*[range(g.sizes[p]) for p in o]):
            copies.append((v, tuple(zip(o, ctx))))
    out = {}
    for fp in itertools.product(*[range(s) for _, s in free]):
        fenv = {n: x for (n, _), x in zip(free, fp)}
        total = None
        for asg in itertools.product(*[range(g.sizes[v]) for v, _ in copies]):
            X = dict(zip(copies, asg))
            term = one
            for f, o, d in zip(g.factors, ords, datas):
                so = sorted(o)
                for ctx in itertools.product(*[range(g.sizes[p]) for p in so]):
                    penv = dict(zip(so, ctx))
                    idx = []
                    for n in f:
                        if n in penv:
                            idx.append(penv[n])
                        elif n in O:
                            idx.append(X[(n, tuple((p, penv[p]) for p in sorted(O[n])))])
                        else:
                            idx.append(fenv[n])
                    term = mul(term, d[tuple(idx)])
            total = term if total is None else add(total, term)
        out[fp] = total
    return out


def split_valid(factors, e1, e2, plates):
    """Sufficient condition for `psp(E2) . psp(E1)` to equal `psp(E1 u E2)` (see DESIGN C09, two_calls_eq_one):
    no variable kept by the first call lives in a plate the first call multiplies out (the `pedantic`
    condition), and every variable summed by the first call sees the same not-yet-eliminated plates in all
    of its factors (so treating those plates as batch inputs replicates it exactly as the one-shot call does)."""
    E = set(e1) | set(e2)
    P = set(plates) & E
    P1, P2 = P & set(e1), P & set(e2)
    _, _, ords, O = ordinals(factors, E, plates)
    for y in set(e2) - P:
        if y in O and O[y] & P1:
            return False
    for x in set(e1) - P:
        qs = [frozenset(n for n in f if n in P2) for f in factors if x in f]
        if qs and any(q != qs[0] for q in qs):
            return False
    return True


# --------------------------------------------------------------------------------------
# generators
# --------------------------------------------------------------------------------------

def canonical_small_graphs():
    """All multisets of <= 3 factors over variables a,b,c and plates i,j, up to renaming of
    variables among themselves and plates among themselves (1018 shapes)."""
    names = ["a", "b", "c", "i", "j"]
    subsets = [tuple(n for n, b in zip(names, bits) if b) for bits in itertools.product([0, 1], repeat=5)]
    perms = []
    for pv in itertools.permutations("abc"):
        for pp in itertools.permutations("ij"):
            m = dict(zip("abc", pv))
            m.update(dict(zip("ij", pp)))
            perms.append(m)
    seen = set()
    for k in range(1, 4):
        for g in itertools.combinations_with_replacement(subsets, k):
            best = min(tuple(sorted(tuple(sorted(m[n] for n in f)) for f in g)) for m in perms)
            seen.add(best)
    return sorted(seen)


NAMES6 = ["a", "b", "c", "i", "j", "k"]


def _perm_tables6():
    tabs = []
    for pv in itertools.permutations(range(3)):
        for pp in itertools.permutations(range(3)):
            m = list(pv) + [3 + x for x in pp]
            tab = []
            for mask in range(64):
                out = 0
                for b in range(6):
                    if mask >> b & 1:
                        out |= 1 << m[b]
                tab.append(out)
            tabs.append(tab)
    return tabs


def canonical_plate_graphs(nf):
    """All multisets of exactly `nf` factors over variables a,b,c and plates i,j,k, up to renaming of
    variables among themselves and plates among themselves (16 / 218 / 2804 / 33963 shapes for nf=1..4).
    This enumerates every plate structure on <= 3 plates: nested chains, sibling plates, incomparable
    ordinals, variables shared only by factors in sibling contexts (ordinal = a plate set that holds no
    factor initially, so eliminating a leaf creates a factor at a NEW ordinal), and the intractable ones."""
    tabs = _perm_tables6()
    seen = set()
    for g in itertools.combinations_with_replacement(range(64), nf):
        seen.add(min(tuple(sorted(t[m] for m in g)) for t in tabs))
    return [[tuple(n for b, n in enumerate(NAMES6) if m >> b & 1) for m in shape] for shape in sorted(seen)]


def new_ordinal_shape(factors, elim, plates):
    """True if some summed variable's ordinal is a plate set under which no factor is filed initially
    (the loop will create that key while it runs)."""
    _, _, ords, O = ordinals(factors, elim, plates)
    return any(o not in ords for o in O.values())


def fit_sizes(rng, factors, elim, plates, cap):
    """sizes (mostly 2) under which the literal unrolling stays below `cap`; None if impossible"""
    names = sorted(set(n for f in factors for n in f))
    sizes = {n: 2 for n in names}
    if names and rng.random() < 0.15:
        sizes[rng.choice(names)] = 3
    for _ in range(12):
        g = Graph(factors, sizes, [None] * len(factors), "add-mul")
        joint, inst = unrolled_size(g, elim, plates)
        npts = int(np.prod([sizes[n] for n in names if n not in elim])) if names else 1
        if joint * inst * npts <= cap:
            return sizes
        big = [n for n in names if sizes[n] > 1]
        if not big:
            return None
        # shrink a plate first (the number of copies is exponential in plate sizes)
        pl = [n for n in big if n in plates and n in elim]
        n = rng.choice(pl or big)
        sizes[n] -= 1
    return None


INTRACTABLE_TEMPLATES = [
    # (factors, plates): graphs on which the elimination loop reaches `new_plates == leaf`
    (["abij", "ai", "bj"], "ij"),
    (["abij", "ai", "bj", "a", "b"], "ij"),
    (["abijk", "aik", "bjk"], "ijk"),
    (["abij", "ai", "bj", "ck", "c"], "ijk"),
    (["abcij", "ai", "bj", "cij"], "ij"),
    (["abij", "aci", "bj", "c"], "ij"),
    # sibling plate contexts: a variable shared only by factors in {i,j} and {i,k} has ordinal {i}
    (["bik", "aij", "abik"], "ijk"),
    (["cik", "abij", "acik", "bij"], "ijk"),
    (["aij", "aik"], "ijk"),
    (["aij", "abik", "bk"], "ijk"),
    # near misses (tractable)
    (["abij", "aij", "bj"], "ij"),
    (["abij", "ai", "bi"], "ij"),
    (["abi", "ai", "bj"], "ij"),
]


def gen_random_graph(rng, tier):
    """<= 5 factors / 4 variables / 3 plates, sizes 1-3, mostly-plated structure."""
    nv = rng.choice([1, 2, 2, 3, 3, 4])
    npl = rng.choice([0, 1, 1, 2, 2, 2, 3, 3])
    nf = rng.choice([1, 2, 2, 3, 3, 4, 4, 5])
    vs, ps = VARS[:nv], PLATES[:npl]
    if rng.random() < 0.2:
        tpl, tp = rng.choice(INTRACTABLE_TEMPLATES)
        factors = [tuple(f) for f in tpl]
        ps = list(tp)
        vs = sorted(set(n for f in factors for n in f if n not in ps))
        if rng.random() < 0.5:
            extra = tuple(sorted(rng.sample(vs + ps, rng.randint(0, 2))))
            factors.append(extra)
        rng.shuffle(factors)
    else:
        factors = []
        for _ in range(nf):
            fp = [p for p in ps if rng.random() < 0.5]
            fv = [v for v in vs if rng.random() < 0.5]
            f = fv + fp
            rng.shuffle(f)
            factors.append(tuple(f))
    names = sorted(set(n for f in factors for n in f))
    maxs = rng.choice([2, 2, 3])
    sizes = {n: rng.choice([1, 2, 2, maxs]) for n in names}
    return factors, sizes, [p for p in ps]



def decorate(rng, g, plates):
    """The same graph with some Tensor factors replaced by other factor kinds of identical meaning:
    funsor.Constant over 1-3 of the factor's plates (the table is made constant along them, so the
    expansion — what the model and the oracle see — is unchanged), Number for input-free factors, and a
    lazily built Binary.  None if nothing could be decorated."""
    lin, kinds, any_ = [], [], False
    for f, d in zip(g.factors, g.lin):
        arr = np.asarray(d, dtype=np.float64).reshape(tuple(g.sizes[n] for n in f))
        fp = [n for n in f if n in plates]
        r = rng.random()
        kind = None
        if fp and r < 0.65:
            k = rng.randint(1, len(fp))
            cs = sorted(rng.sample(fp, k))
            idx = tuple(slice(0, 1) if n in cs else slice(None) for n in f)
            arr = np.broadcast_to(arr[idx], arr.shape).copy()
            kind = ("const", cs)
        elif not f and r < 0.8:
            kind = ("number",)
        elif f and r > 0.92:
            kind = ("lazy",)
        any_ = any_ or kind is not None
        lin.append(arr)
        kinds.append(kind)
    factors = list(g.factors)
    if factors and rng.random() < 0.35:
        # the same object listed 2-3 times (a Number, a Tensor, a Constant; with or without variables/plates)
        j = rng.randrange(len(factors))
        for _ in range(rng.choice([1, 1, 2])):
            factors.append(factors[j])
            lin.append(lin[j].copy())
            kinds.append(("dup", j))
        any_ = True
    if not any_:
        return None
    return Graph(factors, g.sizes, lin, g.sr, kinds)


def decorated_cases(rng, g, plates, elim):
    """psp + (sum_product | two-call split | a plate-at-a-time split) on a decorated copy of the graph"""
    gd = decorate(rng, g, plates)
    if gd is None:
        return []
    out = [Case(gd, plates, elim, "psp", decor=True)]
    r = rng.random()
    ep = [p for p in elim if p in plates]
    if r < 0.35 or not elim:
        out.append(Case(gd, plates, elim, "sp", decor=True))
    elif r < 0.7 and len(ep) >= 1:
        # eliminate one plate first, everything else in the second call (valid or not: gated accordingly)
        p0 = rng.choice(ep)
        out.append(Case(gd, plates, elim, "split", e1=[p0], e2=[n for n in elim if n != p0], decor=True))
    else:
        e1, e2 = gen_split(rng, gd.factors, elim, plates)
        out.append(Case(gd, plates, elim, "split", e1=e1, e2=e2, decor=True))
    return out


REAL_W = {  # semiring -> [(value passed for w, what it does to a linear-carrier entry)]
    "add-mul": [(2.0, lambda x: x * 2), (3.0, lambda x: x * 3)],
    "max-mul": [(2.0, lambda x: x * 2), (3.0, lambda x: x * 3)],
    "min-mul": [(2.0, lambda x: x * 2), (3.0, lambda x: x * 3)],
    "max-add": [(1.0, lambda x: x + 1), (-2.0, lambda x: x - 2)],
    "min-add": [(1.0, lambda x: x + 1), (-2.0, lambda x: x - 2)],
    "logaddexp-add": [(float(np.log(2.0)), lambda x: x * 2), (float(np.log(0.5)), lambda x: x * 0.5)],
}


def real_param_cases(rng, g, plates, elim):
    """1-2 factors become Tensor (x) Variable('w', Real) (the semiring's product), inside and outside plates;
    every entry point; funsor's lazy result is evaluated at 2 values of w and compared with the oracle on the
    ground tensors obtained by substituting w BEFORE."""
    if not g.factors:
        return []
    idx = rng.sample(range(len(g.factors)), min(len(g.factors), rng.choice([1, 1, 2])))
    variants = rng.sample(["psp", "sp", "split", "mod", "dyn"], 2)
    out = []
    for wv, fn in REAL_W[g.sr]:
        lin, kinds = [], []
        for i, d in enumerate(g.lin):
            arr = np.asarray(d, dtype=np.float64)
            if i in idx:
                kinds.append(("real", arr.reshape(-1).tolist()))
                lin.append(fn(arr))
            else:
                kinds.append(None)
                lin.append(arr)
        gw = Graph(g.factors, g.sizes, lin, g.sr, kinds)
        gw.wval = wv
        for v in variants:
            if v == "split":
                if not elim:
                    continue
                e1, e2 = gen_split(rng, gw.factors, elim, plates)
                out.append(Case(gw, plates, elim, "split", e1=e1, e2=e2, decor=True))
            else:
                out.append(Case(gw, plates, elim, v, decor=True))
    return out


def gen_elim(rng, names):
    r = rng.random()
    if r < 0.45:
        return list(names)
    if r < 0.6 and names:
        drop = rng.choice(names)
        return [n for n in names if n != drop]
    return [n for n in names if rng.random() < 0.6]


def gen_split(rng, factors, elim, plates):
    """A split of `elim` into two successive calls; biased towards valid (inner-first) splits."""
    for _ in range(4):
        e1 = [n for n in elim if rng.random() < 0.5]
        e2 = [n for n in elim if n not in e1]
        if split_valid(factors, e1, e2, plates):
            return e1, e2
    return e1, e2


def defect_region(factors, elim, plates):
    """Fingerprint of KF-modified-psp-uneliminated-plate: a summed variable v in a factor f that also
    carries a plate p of plate_to_step which is not eliminated and not in v's ordinal (over all plates)."""
    pl = set(plates)
    S = set(elim) - pl
    ords = [frozenset(n for n in f if n in pl) for f in factors]
    O = {}
    for f, o in zip(factors, ords):
        for n in f:
            if n in S:
                O[n] = O.get(n, o) & o
    for f, o in zip(factors, ords):
        for v in f:
            if v in S:
                for p in o:
                    if p not in elim and p not in O[v]:
                        return True
    return False


# --------------------------------------------------------------------------------------
# running the real code
# --------------------------------------------------------------------------------------

DECLINES = (ValueError, NotImplementedError, AssertionError, KeyError, TypeError)


def run_real(g, variant, elim, plates, **kw):
    """-> ("value", [funsor…]) | ("declined", ExcName)"""
    sum_op, prod_op, _, _ = SEMIRINGS[g.sr]
    ts = g.tensors()
    E, Pl = frozenset(elim), frozenset(plates)
    try:
        if variant == "psp":
            rs = partial_sum_product(sum_op, prod_op, ts, E, Pl)
        elif variant == "psp-pedantic":
            rs = partial_sum_product(sum_op, prod_op, ts, E, Pl, pedantic=True)
        elif variant == "psp-scale":
            rs = partial_sum_product(sum_op, prod_op, ts, E, Pl, plate_to_scale=dict(kw["scales"]))
        elif variant == "sp-scale":
            rs = [sum_product(sum_op, prod_op, ts, E, Pl, plate_to_scale=dict(kw["scales"]))]
        elif variant == "sp-scale-pedantic":
            rs = [sum_product(sum_op, prod_op, ts, E, Pl, pedantic=True, plate_to_scale=dict(kw["scales"]))]
        elif variant == "split-scale":
            sc = dict(kw["scales"])
            r1 = partial_sum_product(sum_op, prod_op, ts, frozenset(kw["e1"]), Pl, plate_to_scale=sc)
            rs = partial_sum_product(sum_op, prod_op, r1, frozenset(kw["e2"]), Pl, plate_to_scale=sc)
            return "value", (list(r1), list(rs))
        elif variant == "sp":
            rs = [sum_product(sum_op, prod_op, ts, E, Pl)]
        elif variant == "mod":
            rs = modified_partial_sum_product(sum_op, prod_op, ts, E, {p: {} for p in plates})
        elif variant == "dyn":
            rs = dynamic_partial_sum_product(sum_op, prod_op, ts, E, {p: frozenset() for p in plates})
        elif variant == "split":
            r1 = partial_sum_product(sum_op, prod_op, ts, frozenset(kw["e1"]), Pl)
            rs = partial_sum_product(sum_op, prod_op, r1, frozenset(kw["e2"]), Pl)
            return "value", (list(r1), list(rs))
        elif variant == "einsum":
            eq = ",".join("".join(f) for f in g.factors) + "->" + "".join(kw["output"])
            rs = [f_einsum(eq, *ts, plates="".join(plates), backend=EINSUM_BACKEND[g.sr])]
        else:
            raise RuntimeError(variant)
    except DECLINES as e:
        return "declined", type(e).__name__
    return "value", list(rs)


def product_table(g, rs, free):
    """exact linear-carrier values of the product of a result list at every point of `free` (row-major),
    or None if some result is lazy.  KeyError/ValueError if a result has an input outside `free`."""
    _, prod_op, _, kind = SEMIRINGS[g.sr]
    r = _reduce(prod_op, rs, Number(ops.UNITS[prod_op]))
    if g.wval is not None and "w" in r.inputs:
        r = r(w=Tensor(np.array(g.wval, dtype=np.float64)))   # evaluate the lazy result at the real parameter
    if not isinstance(r, (Tensor, Number, Constant)):
        r = reinterpret(r)          # a lazy result: evaluate it (still lazy -> a decline)
    names = [n for n, _ in free]
    while isinstance(r, Constant):  # constant along its const inputs: broadcast
        for k in r.const_inputs:
            if k not in names:
                raise KeyError(f"unexpected const input {k!r} in result (expected subset of {names})")
        r = r.arg
    tab = table(r, free)
    if tab is None:
        return None
    with np.errstate(over="ignore"):
        tab = futil.linear_view(tab, kind)
    return [exact(v) for v in tab.reshape(-1)]


def wire_of_result(r, kind):
    if isinstance(r, Number):
        return [[], [exact(np.float64(r.data))]]
    assert isinstance(r, Tensor), type(r)
    data = np.asarray(r.data, dtype=np.float64)
    return [[[n, int(d.size)] for n, d in r.inputs.items()], [exact(v) for v in data.reshape(-1)]]


def canon_factor(inputs, data):
    """(sorted inputs, data transposed accordingly) for multiset comparison of result lists."""
    names = [n for n, _ in inputs]
    shape = [s for _, s in inputs]
    arr = np.empty(int(np.prod(shape)) if shape else 1, dtype=object)
    for i, v in enumerate(data):
        arr[i] = v
    arr = arr.reshape(shape)
    order = sorted(range(len(names)), key=lambda i: names[i])
    arr = arr.transpose(order) if order else arr
    def key(v):
        # beyond 2**52 float64 integer products are inexact (see num_equal): compare 9 significant digits
        if isinstance(v, Fraction) and abs(v) > 2 ** 52:
            return f"{float(v):.8e}"
        return repr(v)
    return (tuple((names[i], shape[i]) for i in order), tuple(key(v) for v in arr.reshape(-1)))


def parse_answer(ans):
    """-> ("value", [nums], [factors]|None) | ("error", name) | ("bad", text)"""
    if not ans.startswith("ok "):
        return ("bad", ans)
    body = parse_sx(ans[3:])
    if body[0] == "error":
        return ("error", body[1])
    vals = [atom_to_num(x) for x in body[1]]
    facs = None
    if len(body) > 2:
        facs = [([(str(n), int(s)) for n, s in inp], [atom_to_num(x) for x in dat]) for inp, dat in body[2]]
    return ("value", vals, facs)


BIG = 2 ** 52


def num_equal(x, y, tol):
    if same_num(x, y, tol):
        return True
    # beyond 2**52 float64 products of integers are no longer exact: documented relative tolerance
    fx, fy = isinstance(x, float), isinstance(y, float)
    if not fx and not fy and max(abs(x), abs(y)) > BIG:
        return abs(x - y) <= 1e-9 * max(abs(x), abs(y))
    return False


def vals_equal(a, b, tol):
    return len(a) == len(b) and all(num_equal(x, y, tol) for x, y in zip(a, b))


PY_TEMPLATE = """
# replay for C09 ({variant}): plated sum-product vs brute-force unrolling
import sys
sys.path.insert(0, "/verif")
from fv.harness import c09
case = {case!r}
FAILS = c09.replay_case(case)
"""


# --------------------------------------------------------------------------------------
# one case = one (graph, eliminate, plates, variant, params); evaluated in batches
# --------------------------------------------------------------------------------------

class Case:
    def __init__(self, g, plates, elim, variant, **kw):
        self.g, self.plates, self.elim, self.variant, self.kw = g, list(plates), list(elim), variant, kw

    def describe(self):
        d = self.g.describe()
        d.update(plates=self.plates, elim=self.elim, variant=self.variant,
                 **{k: v for k, v in self.kw.items()})
        return d

    def free(self):
        if self.variant == "einsum":
            return [(n, self.g.sizes[n]) for n in self.kw["output"]]
        return [(n, self.g.sizes[n]) for n in self.g.names() if n not in self.elim]


def case_from_doc(d):
    factors = [tuple(f) for f in d["factors"]]
    sizes = d["sizes"]
    lin = [np.array(x, dtype=np.float64).reshape(tuple(sizes[n] for n in f)) for f, x in zip(factors, d["data"])]
    kinds = [tuple(k) if k is not None else None for k in d["kinds"]] if d.get("kinds") else None
    g = Graph(factors, sizes, lin, d["sr"], kinds)
    g.wval = d.get("wval")
    kw = {k: d[k] for k in ("e1", "e2", "output", "scales", "expect_value", "decor") if k in d}
    return Case(g, d["plates"], d["elim"], d["variant"], **kw)


def oracle_graph(c):
    """(graph, elim, scales) whose literal unrolling is the expected value of the case."""
    scales = dict(c.kw.get("scales", []))
    return c.g, c.elim, scales


def py_expected(c, free):
    g, elim, scales = oracle_graph(c)
    if scales:
        # repeat each scaled plate `s` times: tile the data along that plate
        sizes = dict(g.sizes)
        lin = []
        for f, d in zip(g.factors, g.lin):
            d = np.asarray(d, dtype=np.float64)
            for ax, n in enumerate(f):
                if n in scales:
                    d = np.concatenate([d] * scales[n], axis=ax)
            lin.append(d)
        for n, s in scales.items():
            if n in sizes:
                sizes[n] *= s
        g = Graph(g.factors, sizes, lin, g.sr)
    exp = py_unroll(g, elim, c.plates, free)
    return [exp[fp] if not isinstance(exp[fp], int) else Fraction(exp[fp])
            for fp in itertools.product(*[range(s) for _, s in free])]


def requests_for(c):
    g = c.g
    wire = SEMIRINGS[g.sr][2]
    fs = sx(g.wire_factors())
    free = sx([[n, s] for n, s in c.free()])
    sc = sx([[n, s] for n, s in c.kw.get("scales", [])])
    reqs = [f"C09 unroll {wire} {fs} {sx(c.elim)} {sx(c.plates)} {sc} {free}"]
    v = c.variant
    if v in ("psp", "sp", "psp-scale", "sp-scale", "sp-scale-pedantic", "psp-pedantic"):
        reqs.append(f"C09 psp {wire} {fs} {sx(c.elim)} {sx(c.plates)} {sc} {free} false "
                    f"{'true' if v in ('psp-pedantic', 'sp-scale-pedantic') else 'false'}")
    elif v in ("mod", "dyn"):
        reqs.append(f"C09 psp {wire} {fs} {sx(c.elim)} {sx(c.plates)} () {free} true false")
    elif v == "split":
        reqs.append(f"C09 psp2 {wire} {fs} {sx(c.kw['e1'])} {sx(c.kw['e2'])} {sx(c.plates)} {free}")
    elif v == "einsum":
        reqs.append(f"C09 einsum {wire} {fs} {sx(c.kw['output'])} {sx(c.plates)} {free}")
    return reqs


def evaluate(ctx, c, answers, use_driver=True):
    """Run the real code on the case and gate it against the oracle.  `answers` = driver answers to
    requests_for(c) (ignored when use_driver is False: python oracle)."""
    g = c.g
    kind = SEMIRINGS[g.sr][3]
    tol = 1e-9 if kind == "log" else 0.0
    free = c.free()
    v = c.variant
    ctx.count(f"variant:{v}")
    ctx.count(f"sr:{g.sr}")
    ctx.count(f"shape:f{len(g.factors)}v{len([n for n in g.names() if n not in c.plates])}"
              f"p{len([n for n in g.names() if n in c.plates])}")
    ctx.count(f"elim:{'all' if set(c.elim) >= set(g.names()) else 'partial' if c.elim else 'none'}")

    model = None
    if use_driver:
        orc = parse_answer(answers[0])
        model = parse_answer(answers[1]) if len(answers) > 1 else None
        if orc[0] != "value" or (model is not None and model[0] == "bad"):
            ctx.infra_errors.append(f"driver answered {answers[0][:200]} / {answers[1][:200] if len(answers) > 1 else ''} "
                                    f"for {c.describe()}")
            return
        expected = orc[1]
    else:
        expected = py_expected(c, free)

    # what the one-shot oracle is *for this variant*
    split_ok = True
    in_defect = False
    if v in ("split", "split-scale"):
        split_ok = split_valid(g.factors, c.kw["e1"], c.kw["e2"], c.plates)
        ctx.count("split:valid" if split_ok else "split:not-inner-first")
    if v in ("mod", "dyn") and defect_region(g.factors, c.elim, c.plates):
        # region of the former finding KF-modified-psp-uneliminated-plate (fixed in /repo f15cd2e): part of
        # the clean stream, counted so that the evidence shows it is reached
        ctx.count("mod-dyn:kept-plate-with-var-inside-and-outside")

    # model vs its own spec: run-time echo of the theorems (psp = unroll whenever psp returns)
    if model is not None:
        ctx.count(f"model:{model[0] if model[0] != 'error' else model[1]}")
        if model[0] == "value" and split_ok and not in_defect and not vals_equal(model[1], expected, 0):
            ctx.infra_errors.append(f"Lean model disagrees with its own oracle on {c.describe()}")
            return

    status, rs = run_real(g, v, c.elim, c.plates, **c.kw)
    ctx.count(f"impl:{status if status == 'value' else rs}")
    if model is not None:
        mdecl = model[0] == "error"
        if (status == "declined") != mdecl:
            ctx.count("fidelity:decline-mismatch")
        else:
            ctx.count("fidelity:decline-agree")
    decorated = any(k is not None for k in g.kinds)
    if decorated:
        ctx.count("factor-kinds:" + "+".join(sorted({k[0] for k in g.kinds if k is not None})))
    if status == "declined":
        if decorated:
            # Constant / Number / lazy factors: the model does not model that code path; a decline is permitted
            ctx.count(f"factor-kinds:declined:{rs}")
        elif model is not None and model[0] == "value":
            # the elimination loop completes in the model (and its value equals the unrolling), yet funsor
            # raised: the graph is tractable, the property promises a value.  Never observed on the pinned
            # tree (0 of ~27000 cases over seeds 0-2), so this is gated.
            ctx.fail("correspondence", f"C09.{v}-declines-tractable-graph", witness=dict(c.describe(), expect_value=True),
                     expected="a value: the model's loop completes and equals the unrolling", got=f"raised {rs}",
                     python=PY_TEMPLATE.format(variant=v, case=dict(c.describe(), expect_value=True)))
        elif model is None and c.kw.get("expect_value"):
            ctx.fail("correspondence", f"C09.{v}-declines-tractable-graph", witness=c.describe(),
                     expected="a value", got=f"raised {rs}")
        ctx.case(sample=None, nontrivial_key=None)
        return

    r1 = None
    if v in ("split", "split-scale"):
        r1, rs = rs
    try:
        got = product_table(g, rs, free)
    except (KeyError, ValueError) as e:
        ctx.fail("input", f"C09.{v}-result-inputs", witness=c.describe(), got=str(e),
                 expected=f"result inputs within {free}",
                 python=PY_TEMPLATE.format(variant=v, case=c.describe()))
        return
    if got is None:
        ctx.count("impl:lazy")
        ctx.case()
        return

    if v in ("split", "split-scale") and not split_ok:
        # not an inner-first split: the composite is not required to equal the one-shot value;
        # each call on its own is covered by the psp stream
        ctx.count("split:unchecked-composite")
    elif not vals_equal(got, expected, tol):
        if model is not None and model[0] == "error" and model[1] == "intractable":
            name = f"C09.{v}-value-on-intractable"
        else:
            name = f"C09.{v}-ne-unroll"
        ctx.fail("input", name, witness=c.describe(), expected=str(expected), got=str(got),
                 python=PY_TEMPLATE.format(variant=v, case=c.describe()))
        return

    # fidelity: same multiset of result factors as the model (not gated)
    if model is not None and model[0] == "value" and model[2] is not None and kind != "log" and v != "einsum":
        try:
            mine = sorted(canon_factor(i, d) for i, d in model[2])
            theirs = sorted(canon_factor([(n, s) for n, s in w[0]], w[1])
                            for w in (wire_of_result(r, kind) for r in rs))
            if v in ("sp", "sp-scale", "sp-scale-pedantic", "split-scale"):
                ctx.count("fidelity:results-n/a")
            else:
                ctx.count("fidelity:results-equal" if mine == theirs else "fidelity:results-differ")
                if mine != theirs and len(ctx.extra.setdefault("results_differ_samples", [])) < 5:
                    ctx.extra["results_differ_samples"].append(
                        dict(case=c.describe(), model=[list(map(str, m)) for m in mine],
                             impl=[list(map(str, t)) for t in theirs]))
        except Exception:
            ctx.count("fidelity:results-uncomparable")

    nontriv = (len(g.factors) >= 2 and any(n in c.plates for n in c.elim) and
               any(n not in c.plates for n in c.elim))
    ctx.case(sample=dict(factors=["".join(f) for f in g.factors], sizes=g.sizes, plates=c.plates, elim=c.elim,
                         variant=v, sr=g.sr),
             nontrivial_key=repr(c.describe()) if nontriv else None)
    return r1


def run_batch(ctx, cases, use_driver=True):
    if use_driver:
        reqs, spans = [], []
        for c in cases:
            r = requests_for(c)
            spans.append((len(reqs), len(r)))
            reqs += r
        answers = ctx.driver.ask(reqs)
    for k, c in enumerate(cases):
        if use_driver:
            a, n = spans[k]
            evaluate(ctx, c, answers[a:a + n], True)
        else:
            evaluate(ctx, c, None, False)


def replay_case(doc):
    """Re-run one witness against the python oracle; True if it still fails."""
    class _C:
        def __init__(self):
            self.failures = []
            self.infra_errors = []
        def count(self, *a, **k): pass
        def case(self, *a, **k): pass
        def fail(self, kind, name, **kw): self.failures.append((name, kw.get("expected"), kw.get("got")))
    cc = _C()
    evaluate(cc, case_from_doc(doc), None, use_driver=False)
    for f in cc.failures:
        print("FAILS:", f)
    return bool(cc.failures)


def replay(ctx, doc):
    return replay_case(doc["witness"])



# --------------------------------------------------------------------------------------
# translator: the scheduling of the elimination loops, regenerated from source on every run
# --------------------------------------------------------------------------------------

LOOP_FUNCS = ["partial_sum_product", "modified_partial_sum_product", "dynamic_partial_sum_product"]


def _loop_entry(fn_node):
    """Describe the loop of `fn_node` that consumes `ordinal_to_factors`."""
    import ast
    loops = [n for n in fn_node.body if isinstance(n, (ast.While, ast.For))
             and "ordinal_to_factors" in ast.unparse(n)]
    # the elimination loop is the last top-level loop mentioning ordinal_to_factors whose body pops from it
    loops = [n for n in loops if any("ordinal_to_factors.pop" in ast.unparse(b) for b in n.body)]
    if not loops:
        return dict(kind="none", test="", select="", pop="", reinsert=[])
    loop = loops[-1]
    kind = "while" if isinstance(loop, ast.While) else "for"
    test = ast.unparse(loop.test) if kind == "while" else f"{ast.unparse(loop.target)} in {ast.unparse(loop.iter)}"
    body = loop.body
    select = ast.unparse(body[0]) if body else ""
    pop = ast.unparse(body[1]) if len(body) > 1 else ""
    reinsert = []
    for n in ast.walk(loop):
        if (isinstance(n, ast.Call) and isinstance(n.func, ast.Attribute) and n.func.attr == "append"
                and isinstance(n.func.value, ast.Subscript)
                and ast.unparse(n.func.value.value) == "ordinal_to_factors"):
            reinsert.append(ast.unparse(n.func.value.slice))
    # anything else that is appended to / mutated as a schedule shows up here
    others = sorted({ast.unparse(n.func.value) for n in ast.walk(loop)
                     if isinstance(n, ast.Call) and isinstance(n.func, ast.Attribute) and n.func.attr == "append"
                     and isinstance(n.func.value, ast.Name)} - {"results", "remaining"})
    return dict(kind=kind, test=test, select=select, pop=pop, reinsert=sorted(set(reinsert)), others=others)


def extract(ctx):
    """Regenerate lean/FunsorVerif/Gen/C09Loop.lean from /repo/funsor/sum_product.py: for each of the three
    elimination functions, the loop construct, its condition, the leaf-selection statement, the pop and the
    keys factors are re-inserted under.  Cross-checked against the source of the live function objects."""
    import ast
    import inspect
    import textwrap
    from ..common import REPO, LEAN
    import funsor.sum_product as sp
    src = (REPO / "funsor" / "sum_product.py").read_text()
    tree = ast.parse(src)
    entries = []
    for name in LOOP_FUNCS:
        node = next((n for n in tree.body if isinstance(n, ast.FunctionDef) and n.name == name), None)
        if node is None:
            entries.append((name, dict(kind="missing", test="", select="", pop="", reinsert=[], others=[])))
            continue
        e = _loop_entry(node)
        try:
            live = ast.parse(textwrap.dedent(inspect.getsource(getattr(sp, name)))).body[0]
            if _loop_entry(live) != e:
                ctx.infra_errors.append(f"C09 extract: live {name} differs from the file on disk")
        except (OSError, TypeError, AttributeError) as ex:
            ctx.infra_errors.append(f"C09 extract: cannot read live source of {name}: {ex}")
        entries.append((name, e))

    def q(x):
        return '"' + x.replace("\\", "\\\\").replace('"', '\\"') + '"'
    lines = ["/- GENERATED by fv/harness/c09.py:extract from /repo/funsor/sum_product.py on every run. Do not edit. -/",
             "namespace FV.Gen.C09", "",
             "structure LoopEntry where", "  fn : String", "  kind : String", "  test : String",
             "  select : String", "  pop : String", "  reinsert : List String", "  otherAppends : List String",
             "  deriving DecidableEq, Repr", "",
             "/-- the elimination loops of funsor/sum_product.py, as written -/",
             "def loops : List LoopEntry := ["]
    for k, (name, e) in enumerate(entries):
        lines.append(f"  ⟨{q(name)}, {q(e['kind'])}, {q(e['test'])}, {q(e['select'])}, {q(e['pop'])}, "
                     f"[{', '.join(q(x) for x in e['reinsert'])}], [{', '.join(q(x) for x in e.get('others', []))}]⟩"
                     + ("," if k + 1 < len(entries) else ""))
    lines += ["]", "", "end FV.Gen.C09", ""]
    out = LEAN / "FunsorVerif" / "Gen" / "C09Loop.lean"
    txt = "\n".join(lines)
    if not out.exists() or out.read_text() != txt:
        out.write_text(txt)
    ctx.extra["loop_table"] = {n: e for n, e in entries}

# --------------------------------------------------------------------------------------
# streams
# --------------------------------------------------------------------------------------

def derived_case(c, r1):
    """The second call of a split, as a stand-alone psp case on the factors the first call returned."""
    g = c.g
    kind = SEMIRINGS[g.sr][3]
    if kind == "log" or not all(isinstance(r, (Tensor, Number)) for r in r1):
        return None
    factors, lin, sizes = [], [], dict(g.sizes)
    for r in r1:
        if isinstance(r, Number):
            factors.append(())
            lin.append(np.array(float(r.data), dtype=np.float64))
        else:
            factors.append(tuple(r.inputs))
            lin.append(np.asarray(r.data, dtype=np.float64))
    if not factors:
        return None
    if any(not np.all(np.isfinite(d) | np.isinf(d)) or np.any(np.abs(d[np.isfinite(d)]) > 2 ** 40) for d in lin):
        return None
    return Case(Graph(factors, sizes, lin, g.sr), c.plates, [n for n in c.kw["e2"]], "psp")


def gen_scales(rng, names, plates, elim):
    """A plate_to_scale dict over the eliminated plates: all / some / none of them, integer scales 1-3
    (occasionally also a plate that is not eliminated or not present, which must be ignored)."""
    sp = [p for p in plates if p in elim and p in names]
    r = rng.random()
    if r < 0.45:
        chosen = list(sp)
    elif r < 0.9:
        chosen = [p for p in sp if rng.random() < 0.5]
    else:
        chosen = []
    scales = [(p, rng.choice([1, 2, 2, 2, 3])) for p in chosen]
    if rng.random() < 0.1:
        other = [p for p in plates if p not in sp]
        if other:
            scales.append((rng.choice(other), 2))
    return scales


def scaled_cases(rng, g, plates, elim, n=1, **kw):
    """plate scales on every entry point that accepts them: partial_sum_product, sum_product (also with
    pedantic=True), and a two-call split with the same dict passed to both calls"""
    names = g.names()
    if not any(p in elim and p in names for p in plates):
        return []
    out = []
    kinds = ["psp-scale", "sp-scale", "sp-scale", "split-scale", "sp-scale-pedantic"]
    for v in rng.sample(kinds, min(n, len(kinds))):
        scales = gen_scales(rng, names, plates, elim)
        if v == "split-scale":
            e1, e2 = gen_split(rng, g.factors, elim, plates)
            out.append(Case(g, plates, elim, v, scales=scales, e1=e1, e2=e2, **kw))
        else:
            out.append(Case(g, plates, elim, v, scales=scales, **kw))
    return out


def variants_for(rng, g, plates, elim, full):
    """Which entry points to exercise on one (graph, eliminate): always psp; the others all (full) or one."""
    names = g.names()
    out = [Case(g, plates, elim, "psp")]
    extra = []
    extra.append(Case(g, plates, elim, "sp"))
    extra.append(Case(g, plates, elim, "mod"))
    extra.append(Case(g, plates, elim, "dyn"))
    extra.append(Case(g, plates, elim, "psp-pedantic"))
    if elim:
        e1, e2 = gen_split(rng, g.factors, elim, plates)
        extra.append(Case(g, plates, elim, "split", e1=e1, e2=e2))
    if g.sr in EINSUM_BACKEND:
        output = [n for n in names if n not in elim]
        rng.shuffle(output)
        # einsum eliminates every plate that is not an output
        extra.append(Case(g, plates, [n for n in names if n not in output], "einsum", output=output))
    extra += scaled_cases(rng, g, plates, elim, n=3 if full else 1)
    if full:
        return out + extra
    return out + [rng.choice(extra)]


def size_ok(c, cap):
    scales = dict(c.kw.get("scales", []))
    g = c.g
    if scales:
        sizes = dict(g.sizes)
        for n, s in scales.items():
            if n in sizes:
                sizes[n] *= s
        g = Graph(g.factors, sizes, g.lin, g.sr)
    joint, inst = unrolled_size(g, c.elim, c.plates)
    npts = int(np.prod([s for _, s in c.free()])) if c.free() else 1
    return joint * inst * npts <= cap



def clean_cases(ctx, volume=1):
    """The clean stream, as a generator of Case lists (one list per graph)."""
    rng = ctx.rng
    thorough = ctx.tier == "thorough"
    # --- exhaustive small shapes -----------------------------------------------------------
    shapes = canonical_small_graphs()
    for gi, shape in enumerate(shapes):
        names = sorted(set(n for f in shape for n in f))
        plates = [p for p in ("i", "j")]
        if thorough:
            elims = [[n for n, b in zip(names, bits) if b] for bits in itertools.product([0, 1], repeat=len(names))]
        else:
            # (full elimination of these shapes is part of the 3-plate enumeration below)
            elims = [gen_elim(rng, names) if rng.random() < 0.5 else [n for n in names if rng.random() < 0.5]]
        for elim in elims:
            sizes = {n: 2 for n in names} if rng.random() < 0.6 else {n: rng.choice([1, 2]) for n in names}
            g = make_graph(rng, [tuple(f) for f in shape], sizes, rng.choice(SRS))
            ctx.count("stratum:exhaustive-small")
            yield variants_for(rng, g, plates, elim, full=False)
    # --- every plate structure on <= 3 plates ------------------------------------------------
    cap = 30000 if not thorough else 200000
    plates3 = ["i", "j", "k"]
    shapes3 = [sh for nf in (1, 2, 3) for sh in canonical_plate_graphs(nf)]
    if thorough:
        # a seed-rotated third of the 33,963 four-factor shapes per run (all of them over seeds 0,1,2)
        four = canonical_plate_graphs(4)
        shapes3 += [sh for k, sh in enumerate(four) if k % 3 == ctx.seed % 3]
        ctx.count("plate-structures-3:four-factor-third", 1)
    else:
        for _ in range(350 * volume):      # 4 factors: sampled in the quick tier
            shapes3.append([tuple(n for b, n in enumerate(NAMES6) if m >> b & 1)
                            for m in (rng.randrange(64) for _ in range(4))])
    for si, shape in enumerate(shapes3):
        names = sorted(set(n for f in shape for n in f))
        elims = [list(names)]
        if names and rng.random() < ((0.25 if thorough else 0.5) if len(shape) >= 4 else (1.0 if thorough else 0.5)):
            elims.append(gen_elim(rng, names))
        for elim in elims:
            sizes = fit_sizes(rng, shape, elim, plates3, cap)
            if sizes is None:
                ctx.count("dropped:unrolling-too-large")
                continue
            # all six semirings in rotation
            g = make_graph(rng, [tuple(f) for f in shape], sizes, SRS[(si + len(elim)) % len(SRS)])
            ctx.count("stratum:plate-structures-3")
            if new_ordinal_shape(g.factors, elim, plates3):
                ctx.count("plate-structures-3:creates-new-ordinal")
            yield variants_for(rng, g, plates3, elim, full=False)
            # plate scales (all / some / none of the eliminated plates) through sum_product / psp / a split
            few = 0.5 if (thorough and len(shape) >= 4) else 1.0   # thorough: the many 4-factor shapes get half the extras
            if rng.random() < (0.25 if not thorough else 0.3) * few:
                cs = scaled_cases(rng, g, plates3, elim, n=1)
                if cs:
                    ctx.count("stratum:plate-scales")
                    yield cs
            # factors depending on a free real parameter w, evaluated at two values after the sum-product
            if rng.random() < (0.07 if not thorough else 0.06) * few:
                cs = real_param_cases(rng, g, plates3, elim)
                if cs:
                    ctx.count("stratum:real-parameter")
                    yield cs
            # other factor kinds (Constant over some of the plates, Number, lazy) on the same shape
            if rng.random() < (0.18 if not thorough else 0.25) * few:
                srd = rng.choice(["add-mul", "add-mul", "logaddexp-add", "logaddexp-add", "max-add", "min-mul"])
                gd = make_graph(rng, [tuple(f) for f in shape], sizes, srd)
                cs = decorated_cases(rng, gd, plates3, elim)
                if cs and rng.random() < 0.4:
                    cs += scaled_cases(rng, cs[0].g, plates3, elim, n=1, decor=True)
                if cs:
                    ctx.count("stratum:factor-kinds")
                    yield cs
    # --- random larger ---------------------------------------------------------------------
    n = (300 if not thorough else 2500) * volume
    made = 0
    while made < n:
        factors, sizes, plates = gen_random_graph(rng, ctx.tier)
        g = make_graph(rng, factors, sizes, rng.choice(SRS))
        elim = gen_elim(rng, g.names())
        cs = variants_for(rng, g, plates, elim, full=True)
        ctx.count("stratum:random-larger")
        made += 1
        yield cs


def correspond(ctx):
    ctx.rule = ("(0) EVERY plate structure: all multisets of <= 3 factors (thorough: plus a seed-rotated third of the 33,963 four-factor shapes; quick samples 350 with 4) over "
                "3 variables and 3 plates up to renaming (3038 / 37001 shapes), full elimination (+ a random eliminate set), "
                "sizes fitted under the unrolling cap, six semirings in rotation; "
                "on 7% a copy where 1-2 factors are Tensor (x) Variable(w, Real), the lazy result evaluated at two "
                "values of w against the oracle with w substituted before; on 18% a copy with other FACTOR KINDS of identical meaning: funsor.Constant over 1-3 of a factor's plates, Number, lazy "
                "Binary, and the SAME funsor object listed 2-3 times (duplicate factors) (psp + sum_product / plate-at-a-time and random two-call splits); "
                "(1) every multiset of <= 3 factors over 3 variables and 2 plates up to renaming (1018 shapes), sizes 1-2, "
                "with full elimination + 2 random eliminate sets (quick) / every eliminate set (thorough), random "
                "semiring and data, partial_sum_product plus one other entry point each; (2) random graphs <= 5 "
                "factors / 4 variables / 3 plates of sizes 1-3 incl. templates that reach `intractable!`, every entry "
                "point (psp, sum_product, modified, dynamic, pedantic, two-call split, plated einsum, plate scales); "
                "(3) the second call of every split re-run as a stand-alone case on the factors funsor returned. "
                "Cases whose literal unrolling exceeds a size cap are dropped (counted). Non-trivial = >= 2 factors "
                "and both a plate and a variable eliminated; distinct by full content.")
    cap = 30000 if ctx.tier == "quick" else 200000
    batch, derived = [], []

    def flush():
        nonlocal batch, derived
        if not batch:
            return
        reqs, spans = [], []
        for c in batch:
            r = requests_for(c)
            spans.append((len(reqs), len(r)))
            reqs += r
        answers = ctx.driver.ask(reqs)
        for (a, n), c in zip(spans, batch):
            r1 = evaluate(ctx, c, answers[a:a + n], True)
            if r1 is not None and c.variant == "split":
                d = derived_case(c, r1)
                if d is not None and size_ok(d, cap):
                    derived.append(d)
        batch = []

    for cs in clean_cases(ctx):
        for c in cs:
            if not size_ok(c, cap):
                ctx.count("dropped:unrolling-too-large")
                continue
            batch.append(c)
        if len(batch) >= 400:
            flush()
    flush()
    batch, derived = derived, []
    for c in batch:
        ctx.count("stratum:derived-second-call")
    flush()
    ctx.assumptions.append("float64 arithmetic on the generated small integers / dyadic rationals is exact; the "
                           "logaddexp-add semiring is compared in linear space with rtol 1e-9")
    ctx.assumptions.append("plate scales: the executable Lean model implements them (applyScale / unroll with s replicas of "
                           "the plate) and `scale_as_power` / `scale_is_replication` state that a scale is s replicas; the "
                           "scaled cases (sum_product, partial_sum_product, splits, pedantic; dicts over all/some/none of the "
                           "eliminated plates; every factor kind) are tied to the code by correspondence, not by a loop theorem")
    ctx.assumptions.append("duplicate factors: the Lean model and theorems take a factor LIST (Run: a Multiset), so a factor "
                           "listed twice is two factors there by construction; the harness lists the same funsor object "
                           "2-3 times to check that funsor agrees (fix 5586110: _partition keys term nodes by position)")
    ctx.assumptions.append("two-call splits are compared with the one-shot unrolling only when inner-first "
                           "(split_valid); other splits are covered call-by-call")
    ctx.assumptions.append("the executable Lean loop (Model/C09.lean) is tied to the abstract statements of Props/C09.lean "
                           "by reading and by the run-time echo `psp = unroll` on every case, not by a refinement proof")


def search(ctx, broken):
    """Proof / build / correspondence broke: hunt for a concrete wrong value against the python oracle."""
    before = len([f for f in ctx.failures if f.witness is not None])
    n = 0
    for cs in clean_cases(ctx, volume=10):
        for c in cs:
            if not size_ok(c, 4000):
                continue
            evaluate(ctx, c, None, use_driver=False)
            n += 1
            if len([f for f in ctx.failures if f.witness is not None]) > before:
                return
        if n > 30000:
            return
