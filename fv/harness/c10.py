"""
C10 — Markov products equal the explicit left-to-right fold over time.

Correspondence: real funsor (sequential_sum_product, naive_…, mixed_… with every num_segments,
MarkovProduct eager / lazy+reinterpret, the time-independent branch) against the Lean model FV.C10
(scanIdx / naive / mixed / scanConst over semiring matrices) and the oracle `fold1` — the functions about
which Props/C10.lean proves scan = naive = mixed = fold1.

sarkka_bilmes_product AND naive_sarkka_bilmes_product against the Lean window chain (FV.C10.SB.windowMat →
sarkka / naiveSarkka / fold1 → projectFinal; Props/C10/Sarkka.lean proves sarkka = naiveSarkka = fold1), so a
defect shared by both implementation functions (e.g. in _shift_name) is still seen; result input names against
FV.C10.SB.resultShifts; _get_shift / _shift_name against the Lean string functions.

eager_markov_product: empty-step branches (trans.reduce(prod_op, time); trans*T / trans**T — these two raise
AttributeError on the pinned tree, an allowed decline; any value must equal the T-fold) against
FV.C10.SB.markovEager, and MarkovProduct(...)(**renaming) (eager_subs with step_names) eager / lazy / reflect
+ reinterpret against the fold at the renamed inputs and FV.C10.SB.markovInputs ∘ renameStepNames.
"""
import itertools
from collections import OrderedDict
from fractions import Fraction

import numpy as np

from ..common import sx, parse_sx, atom_to_num, Q
from .. import futil
from ..futil import funsor, Tensor, Bint, ops, Variable, SEMIRINGS, gen_data, table, exact, same_num

from funsor.sum_product import (sequential_sum_product, naive_sequential_sum_product,
                                mixed_sequential_sum_product, MarkovProduct,
                                sarkka_bilmes_product, naive_sarkka_bilmes_product)
from funsor.interpretations import lazy, reflect, eager
from funsor.interpreter import reinterpret


def gen_case(rng, tier):
    maxT = 12 if tier == "quick" else 24
    T = rng.choice(list(range(1, maxT + 1)))
    npairs = rng.choice([1, 1, 1, 2, 2, 3])
    sizes = []
    for _ in range(npairs):
        sizes.append(rng.choice([1, 2, 2, 3]))
    while int(np.prod(sizes)) > 9:
        sizes[sizes.index(max(sizes))] -= 1
    nbatch = rng.choice([0, 0, 1, 1, 2])
    bsizes = [rng.choice([1, 2, 3]) for _ in range(nbatch)]
    srname = rng.choice(list(SEMIRINGS))
    time_dep = rng.random() < 0.85
    batch_dep = [rng.random() < 0.8 for _ in range(nbatch)]
    algo = rng.choice(["seq", "seq", "naive", "mixed", "mixed", "mixed", "markov-eager", "markov-lazy"])
    k = rng.randint(1, T) if algo == "mixed" else None
    names = {"time": "time",
             "prev": [f"p{i}" for i in range(npairs)],
             "curr": [f"c{i}" for i in range(npairs)],
             "batch": [f"b{i}" for i in range(nbatch)]}
    r = rng.random()
    if r < 0.25:   # conventional names
        names["prev"] = [f"x{i}_prev" for i in range(npairs)]
        names["curr"] = [f"x{i}" for i in range(npairs)]
    elif r < 0.6:  # names whose sort order differs between prev and curr (pairing must follow the dict, not sorting)
        pool_p = ["x_prev", "prev_y", "zp", "a_old", "m0"]
        pool_c = ["x", "y", "a", "zz", "b_new"]
        rng.shuffle(pool_p)
        rng.shuffle(pool_c)
        names["prev"] = pool_p[:npairs]
        names["curr"] = pool_c[:npairs]
    inputs = []
    if time_dep:
        inputs.append(("time", T))
    for n, s, d in zip(names["batch"], bsizes, batch_dep):
        if d:
            inputs.append((n, s))
    for n, s in zip(names["prev"], sizes):
        inputs.append((n, s))
    for n, s in zip(names["curr"], sizes):
        inputs.append((n, s))
    rng.shuffle(inputs)
    kind = SEMIRINGS[srname][3]
    data = gen_data(rng, tuple(s for _, s in inputs), kind)
    return dict(T=T, sizes=sizes, bsizes=bsizes, sr=srname, time_dep=time_dep, algo=algo, k=k,
                names=names, inputs=inputs, data=data, batch_dep=batch_dep)


def run_impl(c):
    sum_op, prod_op, _, _ = SEMIRINGS[c["sr"]]
    trans = Tensor(c["data"], OrderedDict((n, Bint[s]) for n, s in c["inputs"]))
    time = Variable("time", Bint[c["T"]])
    step = dict(zip(c["names"]["prev"], c["names"]["curr"]))
    algo = c["algo"]
    try:
        if algo == "seq":
            r = sequential_sum_product(sum_op, prod_op, trans, time, step)
        elif algo == "naive":
            r = naive_sequential_sum_product(sum_op, prod_op, trans, time, step)
        elif algo == "mixed":
            r = mixed_sequential_sum_product(sum_op, prod_op, trans, time, step, num_segments=c["k"])
        elif algo == "markov-eager":
            r = MarkovProduct(sum_op, prod_op, trans, time, step)
        elif algo == "markov-lazy":
            with (lazy if c["T"] % 2 else reflect):
                r = MarkovProduct(sum_op, prod_op, trans, time, step)
            r = reinterpret(r)
        else:
            raise ValueError(algo)
    except (AssertionError, NotImplementedError, ValueError, KeyError) as e:
        return ("declined", type(e).__name__)
    return ("value", r)


def impl_matrices(c, r):
    """result funsor -> {batch point: matrix rows} in the model's carrier (linear space for log)."""
    names = c["names"]
    order = ([(n, s) for n, s in zip(names["batch"], c["bsizes"])]
             + [(n, s) for n, s in zip(names["prev"], c["sizes"])]
             + [(n, s) for n, s in zip(names["curr"], c["sizes"])])
    tab = table(r, order)
    if tab is None:
        return None
    kind = SEMIRINGS[c["sr"]][3]
    tab = futil.linear_view(tab, kind)
    nb = len(c["bsizes"])
    S = int(np.prod(c["sizes"]))
    out = {}
    for b in itertools.product(*[range(s) for s in c["bsizes"]]):
        m = tab[b].reshape(S, S)
        out[b] = [[exact(v) for v in row] for row in m]
    return out


def step_matrices(c, b):
    """Per-step matrices of the transition at batch point b, in the model's carrier, exact."""
    names = c["names"]
    order = ([("time", c["T"])] + [(n, s) for n, s in zip(names["batch"], c["bsizes"])]
             + [(n, s) for n, s in zip(names["prev"], c["sizes"])]
             + [(n, s) for n, s in zip(names["curr"], c["sizes"])])
    have = [n for n, _ in c["inputs"]]
    data = c["data"]
    perm = [have.index(n) for n, _ in order if n in have]
    data = data.transpose(perm)
    shape = [s if n in have else 1 for n, s in order]
    data = np.broadcast_to(data.reshape(shape), [s for _, s in order])
    kind = SEMIRINGS[c["sr"]][3]
    S = int(np.prod(c["sizes"]))
    mats = []
    for t in range(c["T"]):
        m = data[(t,) + tuple(b)].reshape(S, S)
        if kind == "log":
            # exact linear-space value: data was generated as log of a dyadic
            m = np.exp(m)
            m = np.round(m * 4) / 4
        mats.append([[exact(v) for v in row] for row in m])
    return mats


def py_fold(srname, mats):
    """Python oracle (used by the search when the Lean side is unavailable)."""
    wire = SEMIRINGS[srname][2]

    def add(a, b):
        if wire == "add-mul":
            return a + b
        if wire.startswith("max"):
            return max(a, b)
        return min(a, b)

    def mul(a, b):
        if wire.endswith("mul"):
            return a * b
        return a + b
    cur = mats[0]
    for m in mats[1:]:
        n = len(cur)
        new = []
        for i in range(n):
            row = []
            for k in range(n):
                acc = None
                for j in range(n):
                    t = mul(cur[i][j], m[j][k])
                    acc = t if acc is None else add(acc, t)
                row.append(acc)
            new.append(row)
        cur = new
    return cur


def model_requests(c, b):
    wire = SEMIRINGS[c["sr"]][2]
    mats = step_matrices(c, b)
    if not c["time_dep"]:
        algo = c["algo"]
        if algo in ("seq", "markov-eager", "markov-lazy"):
            return mats, [f"C10 scanconst {wire} {c['T']} {sx(mats[0])}", f"C10 fold {wire} {sx(mats)}"]
    cmd = {"seq": "scan", "naive": "naive", "markov-eager": "scan", "markov-lazy": "scan"}.get(c["algo"])
    if c["algo"] == "mixed":
        req = f"C10 mixed {wire} {c['k']} {sx(mats)}"
    else:
        req = f"C10 {cmd} {wire} {sx(mats)}"
    return mats, [req, f"C10 fold {wire} {sx(mats)}"]


def parse_mat(ans):
    if not ans.startswith("ok "):
        return ("err", ans)
    body = ans[3:]
    if body == "declined":
        return ("declined", None)
    m = parse_sx(body)
    return ("value", [[atom_to_num(x) for x in row] for row in m])


def mats_equal(a, b, tol):
    if len(a) != len(b):
        return False
    for ra, rb in zip(a, b):
        if len(ra) != len(rb):
            return False
        for x, y in zip(ra, rb):
            if not same_num(x, y, tol):
                return False
    return True


BIG = 2 ** 53


def tol_for(expected, base_tol, ctx=None):
    """Exact comparison is justified while every expected entry is below 2**53 (non-negative integer
    semirings: every contributing intermediate is then below 2**53 too, so float64 made no rounding);
    beyond that float64 itself rounds, and the comparison falls back to a relative tolerance."""
    if base_tol:
        return base_tol
    for row in expected:
        for x in row:
            if not isinstance(x, float) and abs(x) >= BIG:
                if ctx is not None:
                    ctx.count("tolerance:beyond-2^53")
                return 1e-12
    return 0.0


def describe(c):
    return {k: (v.tolist() if isinstance(v, np.ndarray) else v) for k, v in c.items()}


PY_TEMPLATE = """
# replay for C10: {algo} on a transition with inputs {inputs}
import numpy as np
from collections import OrderedDict
import funsor
from funsor.domains import Bint
from funsor.tensor import Tensor
from funsor.terms import Variable
import funsor.ops as ops
from funsor.sum_product import *
data = np.array({data}, dtype=np.float64)
trans = Tensor(data, OrderedDict({inputs_dom}))
print("see witness: compare with explicit left fold over time")
FAILS = True
"""


def check_case(ctx, c, use_driver=True):
    status, r = run_impl(c)
    tol = 1e-9 if SEMIRINGS[c["sr"]][3] == "log" else 0.0
    ctx.count(f"algo:{c['algo']}")
    ctx.count(f"sr:{c['sr']}")
    ctx.count(f"T:{c['T']}")
    ctx.count("time_dep" if c["time_dep"] else "time_indep")
    if status == "value":
        try:
            impl = impl_matrices(c, r)
        except (KeyError, ValueError) as e:
            ctx.fail("input", "C10.result-inputs", witness=describe(c), got=str(e),
                     expected="result inputs = batch + prev + curr names")
            return
        if impl is None:
            status = "declined"
            ctx.count("impl:lazy")
    if status == "declined":
        ctx.count("impl:declined")
    reqs = []
    idx = []
    bpoints = list(itertools.product(*[range(s) for s in c["bsizes"]]))
    allm = {}
    for b in bpoints:
        mats, rq = model_requests(c, b)
        allm[b] = mats
        idx.append((b, len(reqs)))
        reqs += rq
    if use_driver:
        answers = ctx.driver.ask(reqs)
    for b, i in idx:
        if use_driver:
            mk, mv = parse_mat(answers[i])
            fk, fv = parse_mat(answers[i + 1])
            if mk == "err" or fk != "value":
                ctx.infra_errors.append(f"driver answered {answers[i]} / {answers[i+1]} for {reqs[i][:200]}")
                return
            # model vs spec: run-time echo of the theorems
            if mk == "value" and not mats_equal(mv, fv, 0):
                ctx.infra_errors.append(f"Lean model disagrees with its own spec on {reqs[i][:300]}")
                return
        else:
            fv = py_fold(c["sr"], allm[b])
            mk, mv = ("value", fv)
        if status == "declined":
            if use_driver and mk == "value" and c["algo"] != "markov-lazy" and (
                    c["time_dep"] or c["algo"] in ("seq", "markov-eager")):
                # implementation declined where the model computes a value: correspondence broken
                # (time-homogeneous transitions: Props/C10/Const.lean, the code returns exactly on durations 2^k)
                ctx.fail("correspondence", "C10.decline-mismatch", witness=describe(c),
                         expected="a value (model completes)", got=f"declined: {r}")
            continue
        if mk == "declined":
            # model declines (time-independent, not a power of two) but the impl returned a value:
            # fine iff the value equals the oracle (the property only forbids wrong numbers)
            ctx.count("model-declined-impl-value")
        if not mats_equal(impl[b], fv, tol_for(fv, tol, ctx)):
            ctx.fail("input", f"C10.{c['algo']}-ne-fold", witness=describe(c),
                     expected=str(fv), got=str(impl[b]),
                     python=PY_TEMPLATE.format(algo=c["algo"], inputs=c["inputs"],
                                               data=c["data"].tolist(),
                                               inputs_dom=[(n, f"Bint[{s}]") for n, s in c["inputs"]]))
            return
    nontrivial = c["T"] >= 3 and int(np.prod(c["sizes"])) >= 2 and status == "value"
    ctx.case(sample={k: (v.tolist() if isinstance(v, np.ndarray) else v)
                     for k, v in c.items() if k in ("T", "sizes", "bsizes", "sr", "algo", "k", "inputs", "time_dep")},
             nontrivial_key=(c["T"], tuple(c["sizes"]), tuple(c["bsizes"]), c["sr"], c["algo"], c["k"],
                             tuple(c["inputs"]), c["data"].tobytes()) if nontrivial else None)


# --------------------------------------------------------------------------------------
# sarkka_bilmes_product: window-chain oracle (Lean) + naive counterpart + name arithmetic
# --------------------------------------------------------------------------------------

SR_ZERO = {"add-mul": 0, "max-add": float("-inf"), "min-add": float("inf"), "max-mul": 0}
LAGSETS = [[1], [2], [1, 2], [3], [1, 3], [2, 3], [1, 2, 3]]


def lin_exact(arr, kind):
    """impl-space data -> exact values in the model's carrier (log data are logs of dyadics)."""
    if kind == "log":
        return np.round(np.exp(arr) * 4) / 4
    return arr


def sarkka_ndims(vars_, lagsets):
    """Upper bound on the number of distinct dims in the block-chain contraction: per variable the block's
    shifted names (period + max lag) and its _drop_ names (period), plus time, segment time and a global."""
    lags = sorted({l for v in vars_ for l in lagsets[v]})
    if not lags:
        return len(vars_) + 2
    p = int(np.lcm.reduce(lags))
    return sum(p + max([0] + lagsets[v]) + p for v in vars_) + 3


def gen_sarkka(rng, tier):
    while True:
        nvars = rng.choice([1, 1, 1, 2])
        vars_ = ["x", "y"][:nvars]
        lagsets = {}
        for v in vars_:
            r = rng.random()
            lagsets[v] = [] if r < 0.12 else list(rng.choice(LAGSETS))
        sizes = {v: rng.choice([1, 2, 2, 3]) for v in vars_}
        S = int(np.prod([sizes[v] for v in vars_]))
        k = max([0] + [l for v in vars_ for l in lagsets[v]])
        if S <= 4 and S ** k <= 32:
            break
    maxT = 9 if tier == "quick" else 14
    T = rng.randint(1, maxT)
    num_periods = rng.choice([1, 1, 2, 3])
    srname = rng.choice(list(SEMIRINGS))
    glob = rng.random() < 0.35
    inputs = [("time", T)]
    for v in vars_:
        inputs.append((v, sizes[v]))
        for lag in lagsets[v]:
            inputs.append(("_PREV_" * lag + v, sizes[v]))
    if glob:
        inputs.append(("g", 2))
    rng.shuffle(inputs)
    kind = SEMIRINGS[srname][3]
    data = gen_data(rng, tuple(s for _, s in inputs), kind)
    return dict(vars=vars_, lagsets=lagsets, sizes=sizes, S=S, k=k, T=T, num_periods=num_periods, sr=srname,
                glob=glob, inputs=inputs, data=data)


def _decode(c, s):
    """joint state index -> {var: value} (first var most significant)."""
    out = {}
    for v in reversed(c["vars"]):
        out[v] = s % c["sizes"][v]
        s //= c["sizes"][v]
    return out


def sarkka_tables(c, g):
    """tab[t][cur][window index] (exact, model carrier) at global point g; window = (x_{t-1},…,x_{t-k}) joint
    states, first most significant."""
    names = [n for n, _ in c["inputs"]]
    kind = SEMIRINGS[c["sr"]][3]
    data = lin_exact(c["data"], kind)
    S, k = c["S"], c["k"]
    tabs = []
    for t in range(c["T"]):
        tab = []
        for cur in range(S):
            row = []
            curd = _decode(c, cur)
            for w in itertools.product(range(S), repeat=k):
                wd = [_decode(c, s) for s in w]
                idx = []
                for n in names:
                    if n == "time":
                        idx.append(t)
                    elif n == "g":
                        idx.append(g)
                    else:
                        lag = n.count("_PREV_")
                        v = n[6 * lag:]
                        idx.append(curd[v] if lag == 0 else wd[lag - 1][v])
                row.append(exact(data[tuple(idx)]))
            tab.append(row)
        tabs.append(tab)
    return tabs


def py_window_mats(c, tabs):
    """Python twin of FV.C10.SB.windowMat (used by the search and as a cross-check of the Lean one)."""
    S, k = c["S"], c["k"]
    zero = SR_ZERO[SEMIRINGS[c["sr"]][2]]
    zero = exact(np.float64(zero))
    wins = list(itertools.product(range(S), repeat=k))
    mats = []
    for tab in tabs:
        m = []
        for w in wins:
            row = []
            for w2 in wins:
                if k == 0:
                    row.append(tab[0][0])
                elif tuple(w2[1:]) == tuple(w[:k - 1]):
                    row.append(tab[w2[0]][wins.index(w)])
                else:
                    row.append(zero)
            m.append(row)
        mats.append(m)
    return mats


def py_project(c, m):
    S, k = c["S"], c["k"]
    wire = SEMIRINGS[c["sr"]][2]
    add = (lambda a, b: a + b) if wire == "add-mul" else (max if wire.startswith("max") else min)
    blk = S ** max(k - 1, 0)
    out = []
    for row in m:
        r = []
        for cur in range(S):
            seg = row[cur * blk:(cur + 1) * blk]
            acc = seg[0]
            for x in seg[1:]:
                acc = add(acc, x)
            r.append(acc)
        out.append(r)
    return out


def sarkka_expected_names(c, shifts_by_var):
    names = set()
    for v in c["vars"]:
        names.add(v)
        for j in shifts_by_var[v]:
            names.add("_PREV_" * j + v)
    return names


def sarkka_impl_table(c, r):
    """impl result -> array [g][w_init][cur] in the model's carrier, or None (lazy)."""
    S, k = c["S"], c["k"]
    order = ([("g", 2)] if c["glob"] else []) + [(v, c["sizes"][v]) for v in c["vars"]]
    for j in range(1, k + 1):
        for v in c["vars"]:
            order.append(("_PREV_" * j + v, c["sizes"][v]))
    tab = table(r, order)
    if tab is None:
        return None
    kind = SEMIRINGS[c["sr"]][3]
    tab = futil.linear_view(tab, kind)
    G = 2 if c["glob"] else 1
    tab = tab.reshape((G, S) + (S,) * k)          # g, cur, x_{-1}, …, x_{-k}
    out = []
    for g in range(G):
        rows = []
        for w in itertools.product(range(S), repeat=k):
            rows.append([exact(tab[(g, cur) + tuple(w)]) for cur in range(S)])
        out.append(rows)
    return out


SARKKA_PY = """
# replay for C10: {which} (lags {lagsets}, duration {T}, num_periods {np_}) vs the explicit sum over
# x_0..x_(T-2) of the product of the per-step factors (table `expected`[global][initial window][x_(T-1)], linear space)
import itertools, math
import numpy as np
from collections import OrderedDict
import funsor.ops as ops
from funsor.domains import Bint
from funsor.tensor import Tensor
from funsor.terms import Variable
from funsor.sum_product import sarkka_bilmes_product, naive_sarkka_bilmes_product
inf = float("inf")
data = np.array({data}, dtype=np.float64)
trans = Tensor(data, OrderedDict({inputs_dom}))
sum_op, prod_op = ops.{sum_op}, ops.{prod_op}
gv = frozenset({gv})
tv = Variable("time", Bint[{T}])
if "{which}" == "sarkka":
    a = sarkka_bilmes_product(sum_op, prod_op, trans, tv, gv, num_periods={np_})
else:
    a = naive_sarkka_bilmes_product(sum_op, prod_op, trans, tv, gv)
vars_, sizes, S, k, log = {vars_}, {sizes}, {S}, {k}, {log}
expected = {expected}
def dec(s):
    out = {{}}
    for v in reversed(vars_):
        out[v] = s % sizes[v]; s //= sizes[v]
    return out
FAILS = False
for g in range(len(expected)):
    for wi, w in enumerate(itertools.product(range(S), repeat=k)):
        for cur in range(S):
            pt = {{"g": g}}
            pt.update(dec(cur))
            for j in range(1, k + 1):
                pt.update({{"_PREV_" * j + v: x for v, x in dec(w[j - 1]).items()}})
            extra = set(a.inputs) - set(pt)
            val = float(a(**{{n: x for n, x in pt.items() if n in a.inputs}}).data) if not extra else float("nan")
            val = math.exp(val) if log else val
            e = expected[g][wi][cur]
            if not (val == e or abs(val - e) <= 1e-9 * max(1.0, abs(e))):
                FAILS = True
print("FAILS =", FAILS)
"""


def sarkka_snippet(c, expected, which):
    sum_op, prod_op, _, kind = SEMIRINGS[c["sr"]]
    exp = [[[float(x) for x in row] for row in m] for m in expected]
    dom = "[" + ", ".join(f"({n!r}, Bint[{s}])" for n, s in c["inputs"]) + "]"
    return SARKKA_PY.format(which=which, lagsets=c["lagsets"], T=c["T"], np_=c["num_periods"],
                            data=repr(c["data"].tolist()), inputs_dom=dom, sum_op=sum_op.__name__,
                            prod_op=prod_op.__name__, gv=["g"] if c["glob"] else [], vars_=c["vars"],
                            sizes=c["sizes"], S=c["S"], k=c["k"], log=(kind == "log"), expected=repr(exp))


def run_sarkka(c, which):
    sum_op, prod_op, _, _ = SEMIRINGS[c["sr"]]
    trans = Tensor(c["data"], OrderedDict((n_, Bint[s]) for n_, s in c["inputs"]))
    tv = Variable("time", Bint[c["T"]])
    gv = frozenset(["g"]) if c["glob"] else frozenset()
    try:
        if which == "sarkka":
            return ("value", sarkka_bilmes_product(sum_op, prod_op, trans, tv, gv, num_periods=c["num_periods"]))
        return ("value", naive_sarkka_bilmes_product(sum_op, prod_op, trans, tv, gv))
    except (AssertionError, NotImplementedError, ValueError, KeyError, AttributeError, IndexError, TypeError) as e:
        return ("declined", f"{type(e).__name__}: {str(e)[:80]}")


def backend_limit(c, msg):
    """The one decline the model does not predict: funsor/einsum/numpy_log.py refuses more than 52 distinct
    einsum dims (NotImplementedError "too many einsum dimensions"); 27..52 dims must be right (they were silently
    wrong before fix 86a8617, found by this stream)."""
    return c["sr"] == "logaddexp-add" and msg.startswith("NotImplementedError: too many einsum dimensions")


def check_sarkka(ctx, c, use_driver=True):
    wire = SEMIRINGS[c["sr"]][2]
    kind = SEMIRINGS[c["sr"]][3]
    tol = 1e-9 if kind == "log" else 0.0
    S, k, T = c["S"], c["k"], c["T"]
    all_lags = sorted({l for v in c["vars"] for l in c["lagsets"][v]})
    wit = dict(lagsets=c["lagsets"], sizes=c["sizes"], T=T, num_periods=c["num_periods"], sr=c["sr"],
               inputs=c["inputs"], data=c["data"].tolist())
    ctx.count(f"sarkka:lags={all_lags}")
    ctx.count(f"sarkka:sr={c['sr']}")
    if c["sr"] == "logaddexp-add" and sarkka_ndims(c["vars"], c["lagsets"]) > 26:
        ctx.count("sarkka:log-semiring-above-26-dims")
    ctx.count(f"sarkka:T%p={'na' if not all_lags else T % int(np.lcm.reduce(all_lags))}")
    G = 2 if c["glob"] else 1
    tabs = [sarkka_tables(c, g) for g in range(G)]
    period = int(np.lcm.reduce(all_lags)) if all_lags else 1
    # --- model / oracle -------------------------------------------------------------------------
    expected = []          # [g] -> matrix [w_init][cur]
    shifts_by_var = {}
    if k == 0:
        # no lags at all: both functions return the pointwise product over time (sequential_sum_product with an
        # empty step); the state variables are batch inputs.  Model: scan / fold of 1x1 matrices per state.
        for g in range(G):
            row = []
            for cur in range(S):
                mats = [[[tabs[g][t][cur][0]]] for t in range(T)]
                if use_driver:
                    a = ctx.driver.ask([f"C10 scan {wire} {sx(mats)}", f"C10 fold {wire} {sx(mats)}"])
                    mk, mv = parse_mat(a[0])
                    fk, fo = parse_mat(a[1])
                    if mk != "value" or fk != "value" or not mats_equal(mv, fo, 0):
                        ctx.infra_errors.append(f"driver answered {a} on a no-lag sarkka case")
                        return
                else:
                    fo = py_fold(c["sr"], mats)
                row.append(fo[0][0])
            expected.append([row])
        for v in c["vars"]:
            shifts_by_var[v] = []
    elif use_driver:
        reqs = [f"C10 sbwin {wire} {S} {k} {period} {c['num_periods']} {sx(tabs[g])}" for g in range(G)]
        shifts_all = [0] + all_lags
        reqs.append(f"C10 sbplan {T} {sx(shifts_all)}")
        for v in c["vars"]:
            reqs.append(f"C10 sbplan {T} {sx([0] + c['lagsets'][v])}")
        ans = ctx.driver.ask(reqs)
        for g in range(G):
            if not ans[g].startswith("ok ("):
                ctx.infra_errors.append(f"driver answered {ans[g][:200]} for sbwin")
                return
            sk, nv, fo = parse_sx(ans[g][3:])
            if fo == "declined" or nv == "declined":
                ctx.infra_errors.append("Lean fold/naive declined on a sarkka case")
                return
            fo = [[atom_to_num(x) for x in row] for row in fo]
            nv = [[atom_to_num(x) for x in row] for row in nv]
            if sk == "declined":
                ctx.infra_errors.append(f"Lean sarkka model declined (theorem sarkka_eq_fold says it cannot): {reqs[g][:200]}")
                return
            sk = [[atom_to_num(x) for x in row] for row in sk]
            if not (mats_equal(sk, fo, 0) and mats_equal(nv, fo, 0)):
                ctx.infra_errors.append(f"Lean sarkka/naive model disagrees with the fold on {reqs[g][:300]}")
                return
            # cross-check of the Lean window construction by its Python twin
            pm = py_project(c, py_fold(c["sr"], py_window_mats(c, tabs[g])))
            if not mats_equal(pm, fo, 0):
                ctx.infra_errors.append(f"Lean windowMat/projectFinal disagrees with the Python twin on {reqs[g][:300]}")
                return
            expected.append(fo)
        plan = ans[G]
        if all_lags:
            pl = parse_sx(plan[3:])
            if int(pl[0][0]) != period:
                ctx.infra_errors.append(f"Lean period {pl[0]} != lcm {period}")
                return
        for i, v in enumerate(c["vars"]):
            a = ans[G + 1 + i]
            shifts_by_var[v] = [] if a == "ok nolags" else [int(x) for x in parse_sx(a[3:])[6]]
    else:
        for g in range(G):
            expected.append(py_project(c, py_fold(c["sr"], py_window_mats(c, tabs[g]))))
        for v in c["vars"]:
            shifts_by_var[v] = sorted({l - t for t in range(T) for l in c["lagsets"][v] if l > t})
    exp_names = sarkka_expected_names(c, shifts_by_var) | ({"g"} if c["glob"] else set())
    # --- implementation -------------------------------------------------------------------------
    nontrivial = False
    for which in ("sarkka", "naive"):
        status, r = run_sarkka(c, which)
        if status == "declined":
            ctx.count(f"sarkka:{which}-declined:{r.split(':')[0]}")
            if backend_limit(c, r):
                ctx.count("sarkka:declined-backend-limit")
            elif which == "sarkka" and use_driver:
                ctx.fail("correspondence", "C10.sarkka-decline-mismatch", witness=wit,
                         expected="a value (model completes)", got=f"declined: {r}")
            continue
        try:
            impl = sarkka_impl_table(c, r)
        except (KeyError, ValueError) as e:
            ctx.fail("input", f"C10.{which}-sarkka-inputs", witness=wit, got=str(e), expected=str(sorted(exp_names)))
            continue
        if impl is None:
            ctx.count(f"sarkka:{which}-lazy")
            continue
        bad = None
        for g in range(G):
            if not mats_equal(impl[g], expected[g], tol_for(expected[g], tol, ctx)):
                bad = g
                break
        if bad is not None:
            ctx.fail("input", f"C10.{which}-sarkka-ne-fold", witness=wit,
                     expected=str(expected[bad]), got=str(impl[bad]), python=sarkka_snippet(c, expected, which))
            continue
        got_names = set(r.inputs) if hasattr(r, "inputs") else set()
        if got_names != exp_names:
            # a missing name (result constant in it) cannot be a wrong value; the sizes in the generator are
            # such that funsor keeps every input, so this is a genuine structural difference
            ctx.count(f"sarkka:{which}-names-differ")
            if use_driver and not got_names <= exp_names:
                ctx.fail("correspondence", f"C10.{which}-sarkka-names", witness=wit,
                         expected=str(sorted(exp_names)), got=str(sorted(got_names)))
                continue
        if which == "sarkka":
            nontrivial = T >= 2 and S >= 2
    ctx.case(sample=dict(lagsets=c["lagsets"], T=T, num_periods=c["num_periods"], sr=c["sr"], sizes=c["sizes"]),
             nontrivial_key=("sarkka", tuple(sorted(c["lagsets"].items()).__repr__()), T, c["num_periods"],
                             c["sr"], tuple(c["inputs"]), c["data"].tobytes()) if nontrivial else None)


def _sarkka_grid_case(rng, lags, T, npz, srname):
    kind = SEMIRINGS[srname][3]
    inputs = [("time", T), ("x", 2)] + [("_PREV_" * l + "x", 2) for l in lags]
    data = gen_data(rng, tuple(s for _, s in inputs), kind)
    return dict(vars=["x"], lagsets={"x": list(lags)}, sizes={"x": 2}, S=2, k=max(lags), T=T,
                num_periods=npz, sr=srname, glob=False, inputs=inputs, data=data)


def sarkka_exhaustive(ctx, use_driver=True):
    """The whole grid {lag sets over {1,2,3}} x duration 1..13 x num_periods {1,2}, one 2-state variable: reaches
    two full periods (two contracted blocks) for the period-6 lag sets {2,3}, {1,3}... {1,2,3} (duration 12, 13).
    quick: one semiring per cell, rotating with the seed; thorough: every semiring, plus the lag sets that
    contain 4 (periods 4 and 12) up to duration 25 in add-mul."""
    rng = ctx.rng
    names = list(SEMIRINGS)
    seed = int(ctx.seed) if str(ctx.seed).lstrip("-").isdigit() else 0
    for li, lags in enumerate(LAGSETS):
        for T in range(1, 14):
            for npz in (1, 2):
                srs = names if ctx.tier != "quick" else [names[(seed + li + T + npz) % len(names)]]
                for srname in srs:
                    check_sarkka(ctx, _sarkka_grid_case(rng, lags, T, npz, srname), use_driver=use_driver)
                    ctx.count("sarkka:grid")
    if ctx.tier != "quick":
        for sub in itertools.product([0, 1], repeat=3):
            lags = [l for l, on in zip((1, 2, 3), sub) if on] + [4]
            for T in range(1, 26):
                check_sarkka(ctx, _sarkka_grid_case(rng, lags, T, 1 + (T % 2), "add-mul"), use_driver=use_driver)
                ctx.count("sarkka:grid4")


def name_arith_cases(ctx):
    """_get_shift / _shift_name of the implementation against the Lean string functions."""
    from funsor.sum_product import _get_shift, _shift_name
    bases = ["x", "y_0", "_PREV", "PREV_x", "x_PREV_", "a_PREV_b", "_PREVx", "", "_", "_P", "x__PREV__PREV_y"]
    reqs, exp = [], []
    for b in bases:
        for s in range(0, 4):
            name = "_PREV_" * s + b
            reqs.append(f'C10 getshift "{name}"')
            exp.append(("getshift", name, None, str(_get_shift(name))))
            for t in range(-4, 5):
                reqs.append(f'C10 shiftname "{name}" {t}')
                exp.append(("shiftname", name, t, '"' + _shift_name(name, t) + '"'))
    ans = ctx.driver.ask(reqs)
    for (what, name, t, e), a in zip(exp, ans):
        ctx.count(f"names:{what}")
        if a != "ok " + e:
            ctx.fail("correspondence", f"C10.{what}", witness=dict(name=name, t=t), expected=a, got=e)
            return
    ctx.case(sample=dict(names=len(reqs)), nontrivial_key=("names", len(reqs)))


# --------------------------------------------------------------------------------------
# eager_markov_product: empty-step branches, and MarkovProduct(...)(**renaming)
# --------------------------------------------------------------------------------------

def gen_empty_step(rng, tier):
    T = rng.randint(1, 9)
    nbatch = rng.choice([0, 1, 1, 2])
    bsizes = [rng.choice([1, 2, 3]) for _ in range(nbatch)]
    srname = rng.choice(list(SEMIRINGS))
    time_dep = rng.random() < 0.6
    mode = rng.choice(["eager", "lazy", "reflect"])
    inputs = ([("time", T)] if time_dep else []) + [(f"b{i}", s) for i, s in enumerate(bsizes)]
    rng.shuffle(inputs)
    kind = SEMIRINGS[srname][3]
    data = gen_data(rng, tuple(s for _, s in inputs), kind)
    rename = {}
    if nbatch and rng.random() < 0.4:
        rename = {"b0": "q"}
    return dict(T=T, bsizes=bsizes, sr=srname, time_dep=time_dep, mode=mode, inputs=inputs, data=data, rename=rename)


def run_markov(sum_op, prod_op, trans, time, step, mode, rename):
    try:
        if mode == "eager":
            r = MarkovProduct(sum_op, prod_op, trans, time, step)
            if rename:
                r = r(**rename)
            return ("value", r, None)
        with (lazy if mode == "lazy" else reflect):
            m = MarkovProduct(sum_op, prod_op, trans, time, step)
            if rename:
                m = m(**rename)
        return ("value", reinterpret(m), m)
    except (AssertionError, NotImplementedError, ValueError, KeyError, AttributeError) as e:
        return ("declined", type(e).__name__, None)


def check_empty_step(ctx, c, use_driver=True):
    sum_op, prod_op, wire, kind = SEMIRINGS[c["sr"]]
    tol = 1e-9 if kind == "log" else 0.0
    trans = Tensor(c["data"], OrderedDict((n, Bint[s]) for n, s in c["inputs"])) if c["inputs"] \
        else Tensor(c["data"])
    time = Variable("time", Bint[c["T"]])
    status, r, _ = run_markov(sum_op, prod_op, trans, time, {}, c["mode"], c["rename"])
    branch = "reduce" if c["time_dep"] else ("times-T" if prod_op is ops.add else "pow-T")
    ctx.count(f"eager-empty:{branch}:{c['mode']}")
    ctx.count(f"eager-empty:sr={c['sr']}")
    wit = {k: (v.tolist() if isinstance(v, np.ndarray) else v) for k, v in c.items()}
    # per batch point: the T scalars (as 1x1 matrices)
    names = [n for n, _ in c["inputs"]]
    data = lin_exact(c["data"], kind)
    bnames = [f"b{i}" for i in range(len(c["bsizes"]))]
    bpoints = list(itertools.product(*[range(s) for s in c["bsizes"]]))
    seqs = {}
    for b in bpoints:
        vals = []
        for t in range(c["T"]):
            idx = tuple(t if n == "time" else b[bnames.index(n)] for n in names)
            vals.append(exact(data[idx]))
        seqs[b] = vals
    kindname = "mul" if wire.endswith("mul") else "add"    # the product of the *wire* semiring
    expected = {}
    if use_driver:
        reqs = []
        for b in bpoints:
            mats = [[[v]] for v in seqs[b]]
            tr = f"(seq {sx(mats)})" if c["time_dep"] else f"(const {sx(mats[0])})"
            reqs.append(f"C10 eager {wire} {kindname} false {c['T']} {tr}")
            reqs.append(f"C10 fold {wire} {sx(mats)}")
        ans = ctx.driver.ask(reqs)
        for i, b in enumerate(bpoints):
            mk, mv = parse_mat(ans[2 * i])
            fk, fv = parse_mat(ans[2 * i + 1])
            if mk != "value" or fk != "value":
                ctx.infra_errors.append(f"driver answered {ans[2*i]} / {ans[2*i+1]} for {reqs[2*i][:200]}")
                return
            if not mats_equal(mv, fv, 0):
                ctx.infra_errors.append(f"Lean eager model disagrees with the fold on {reqs[2*i][:300]}")
                return
            expected[b] = fv[0][0]
    else:
        for b in bpoints:
            expected[b] = py_fold(c["sr"], [[[v]] for v in seqs[b]])[0][0]
    if status == "declined":
        ctx.count(f"eager-empty:declined-{r}")
        if c["time_dep"] and use_driver:
            ctx.fail("correspondence", "C10.eager-empty-decline-mismatch", witness=wit,
                     expected="a value (trans.reduce(prod_op, time))", got=f"declined: {r}")
        # time-independent: the pinned tree raises AttributeError (`time.size` on a Variable) — a decline
        ctx.case(nontrivial_key=None)
        return
    order = [(("q" if (n == "b0" and c["rename"]) else n), s) for n, s in zip(bnames, c["bsizes"])]
    try:
        tab = table(r, order)
    except (KeyError, ValueError) as e:
        ctx.fail("input", "C10.eager-empty-inputs", witness=wit, got=str(e), expected=str(order))
        return
    if tab is None:
        ctx.count("eager-empty:lazy")
        ctx.case(nontrivial_key=None)
        return
    tab = futil.linear_view(tab, kind)
    for b in bpoints:
        if not same_num(exact(tab[b]), expected[b], tol_for([[expected[b]]], tol, ctx)):
            ctx.fail("input", "C10.eager-empty-ne-fold", witness=wit, expected=str(expected[b]),
                     got=str(exact(tab[b])),
                     python=PY_TEMPLATE.format(algo=f"MarkovProduct(step={{}}) [{c['mode']}]", inputs=c["inputs"],
                                               data=c["data"].tolist(),
                                               inputs_dom=[(n, f"Bint[{s}]") for n, s in c["inputs"]]))
            return
    ctx.case(sample=dict(kind="eager-empty", T=c["T"], sr=c["sr"], time_dep=c["time_dep"], mode=c["mode"]),
             nontrivial_key=("eager-empty", c["T"], c["sr"], c["mode"], tuple(c["inputs"]), c["data"].tobytes())
             if c["T"] >= 2 else None)


def check_rename(ctx, c, use_driver=True):
    """MarkovProduct(...)(**renaming): eager_subs with step_names, eager and lazy+reinterpret."""
    rng = ctx.rng
    sum_op, prod_op, wire, kind = SEMIRINGS[c["sr"]]
    tol = 1e-9 if kind == "log" else 0.0
    names = c["names"]
    npairs = len(names["prev"])
    rename = {}
    style = rng.choice(["fresh", "fresh", "swap", "mixed"])
    for i in range(npairs):
        if style == "swap" or (style == "mixed" and rng.random() < 0.5):
            rename[names["prev"][i]] = names["curr"][i]
            rename[names["curr"][i]] = names["prev"][i]
        else:
            if rng.random() < 0.8:
                rename[names["prev"][i]] = f"rp{i}"
            if rng.random() < 0.8:
                rename[names["curr"][i]] = f"rc{i}"
    for i, n in enumerate(names["batch"]):
        if rng.random() < 0.4:
            rename[n] = f"rb{i}"
    mode = rng.choice(["eager", "lazy", "reflect"])
    trans = Tensor(c["data"], OrderedDict((n, Bint[s]) for n, s in c["inputs"]))
    time = Variable("time", Bint[c["T"]])
    step = dict(zip(names["prev"], names["curr"]))
    status, r, lazy_term = run_markov(sum_op, prod_op, trans, time, step, mode, rename)
    ctx.count(f"rename:{mode}:{style}")
    wit = describe(c)
    wit["rename"] = rename
    wit["mode"] = mode
    if status == "declined":
        ctx.count(f"rename:declined-{r}")
        ctx.case(nontrivial_key=None)
        return
    c2 = dict(c)
    c2["names"] = {"time": "time", "prev": [rename.get(n, n) for n in names["prev"]],
                   "curr": [rename.get(n, n) for n in names["curr"]],
                   "batch": [rename.get(n, n) for n in names["batch"]]}
    # name-level model of __init__ / eager_subs on the lazy term
    if use_driver and lazy_term is not None and type(lazy_term).__name__ == "MarkovProduct":
        ins = [n for n, _ in c["inputs"]]
        sn = [[Q(k), Q(k)] for pair in step.items() for k in pair]
        rn = [[Q(k), Q(v)] for k, v in rename.items() if k in names["prev"] + names["curr"]]
        a = ctx.driver.ask([f"C10 mpinputs {sx(Q('time'))} {sx([Q(n) for n in ins])} {sx(sn)} {sx(rn)}"])[0]
        model_names = [rename.get(str(n), str(n)) if str(n) in names["batch"] else str(n) for n in parse_sx(a[3:])] \
            if a.startswith("ok (") else None
        if model_names is None:
            ctx.infra_errors.append(f"driver answered {a[:200]} for mpinputs")
            return
        if sorted(model_names) != sorted(lazy_term.inputs):
            ctx.fail("correspondence", "C10.markov-subs-names", witness=wit, expected=str(model_names),
                     got=str(list(lazy_term.inputs)))
            return
        ctx.count("rename:names-checked")
    try:
        impl = impl_matrices(c2, r)
    except (KeyError, ValueError) as e:
        ctx.fail("input", "C10.rename-inputs", witness=wit, got=str(e),
                 expected="result inputs = renamed batch + prev + curr names")
        return
    if impl is None:
        ctx.count("rename:lazy")
        ctx.case(nontrivial_key=None)
        return
    bpoints = list(itertools.product(*[range(s) for s in c["bsizes"]]))
    reqs = []
    allm = {}
    for b in bpoints:
        allm[b] = step_matrices(c, b)
        reqs.append(f"C10 fold {wire} {sx(allm[b])}")
    answers = ctx.driver.ask(reqs) if use_driver else None
    for i, b in enumerate(bpoints):
        if use_driver:
            fk, fv = parse_mat(answers[i])
            if fk != "value":
                ctx.infra_errors.append(f"driver answered {answers[i][:200]}")
                return
        else:
            fv = py_fold(c["sr"], allm[b])
        if not mats_equal(impl[b], fv, tol_for(fv, tol, ctx)):
            ctx.fail("input", "C10.markov-rename-ne-fold", witness=wit, expected=str(fv), got=str(impl[b]),
                     python=PY_TEMPLATE.format(algo=f"MarkovProduct(...)(**{rename}) [{mode}]", inputs=c["inputs"],
                                               data=c["data"].tolist(),
                                               inputs_dom=[(n, f"Bint[{s}]") for n, s in c["inputs"]]))
            return
    ctx.case(sample=dict(kind="rename", T=c["T"], sr=c["sr"], mode=mode, rename=rename),
             nontrivial_key=("rename", c["T"], c["sr"], mode, tuple(sorted(rename.items())), tuple(c["inputs"]),
                             c["data"].tobytes()) if c["T"] >= 2 else None)


def gen_rename_case(rng, tier):
    while True:
        c = gen_case(rng, tier)
        if c["time_dep"]:
            c["algo"] = "markov-eager"
            c["k"] = None
            return c


# --------------------------------------------------------------------------------------
# log semiring with a wide dynamic range (integer log-weights, offsets up to ±2000 nats, -inf rows)
# --------------------------------------------------------------------------------------

import math

WIDE_OFFS = [0, 0, 0, 50, -50, 400, -400, 800, -800, 2000, -2000]
NINF = float("-inf")


def py_lse(xs):
    """log Σ exp(x) with the maximum of exactly these terms subtracted (pure Python)."""
    m = max(xs)
    if m == NINF:
        return NINF
    return m + math.log(sum(math.exp(x - m) for x in xs))


def py_logfold(mats):
    cur = mats[0]
    for m in mats[1:]:
        S = len(cur)
        cur = [[py_lse([cur[i][j] + m[j][k] for j in range(S)]) for k in range(S)] for i in range(S)]
    return cur


def gen_wide(rng, tier):
    """Integer log-weights (exact in float64 and in the Lean max-add model) plus offsets.
    `modes`: t per-time, b per-batch, c per-(time, curr column), p per-(time, prev row), e single entries,
    i scattered -inf, r whole -inf rows.  The einsum-path algorithms (seq / mixed / MarkovProduct) only get
    patterns that cannot make funsor's per-operand stabilisation underflow (finding KF-logeinsum-underflow);
    the naive path gets everything."""
    algo = rng.choice(["naive", "naive", "seq", "mixed", "mixed", "markov-eager", "markov-lazy"])
    T = rng.randint(1, 8 if tier == "quick" else 12)
    S = rng.choice([2, 2, 3])
    B = rng.choice([0, 0, 2, 3])
    if algo == "naive":
        modes = set(m for m in "tbcpeir" if rng.random() < 0.5)
    else:
        modes = set(rng.choice([("t",), ("t", "b"), ("t", "c"), ("b", "c"), ("t", "p"), ("b", "p"), ("t", "i"),
                                ("t", "b", "i"), ("b",), ("c",), ("p",)]))
    shape = (T,) + ((B,) if B else ()) + (S, S)
    d = np.array([rng.choice([-2, -1, 0, 1, 2, 3]) for _ in range(int(np.prod(shape)))], dtype=np.float64).reshape(shape)
    v = d if B else d[:, None]            # view [T, B or 1, S, S]
    nb = B or 1
    for t in range(T):
        if "t" in modes:
            v[t] += rng.choice(WIDE_OFFS)
        for b in range(nb):
            if "c" in modes and rng.random() < 0.4:
                v[t, b, :, rng.randrange(S)] += rng.choice(WIDE_OFFS)
            if "p" in modes and rng.random() < 0.4:
                v[t, b, rng.randrange(S), :] += rng.choice(WIDE_OFFS)
            if "e" in modes and rng.random() < 0.4:
                v[t, b, rng.randrange(S), rng.randrange(S)] += rng.choice(WIDE_OFFS)
            if "i" in modes:
                for pp in range(S):
                    for cc in range(S):
                        if rng.random() < 0.15:
                            v[t, b, pp, cc] = NINF
            if "r" in modes and rng.random() < 0.2:
                v[t, b, rng.randrange(S), :] = NINF
    if "b" in modes:
        for b in range(nb):
            v[:, b] += rng.choice(WIDE_OFFS)
    k = rng.randint(1, T) if algo == "mixed" else None
    return dict(T=T, S=S, B=B, algo=algo, k=k, modes=sorted(modes), data=d)


WIDE_PY = """
# replay for C10: {algo} (logaddexp, add) on integer log-weights with a wide dynamic range
import math
import numpy as np
from collections import OrderedDict
import funsor.ops as ops
from funsor.domains import Bint
from funsor.tensor import Tensor
from funsor.terms import Variable
from funsor.interpretations import lazy
from funsor.interpreter import reinterpret
from funsor.sum_product import *
inf = float("inf")
data = np.array({data}, dtype=np.float64)
T, B, S = {T}, {B}, {S}
inputs = OrderedDict([("time", Bint[T])] + ([("b", Bint[B])] if B else []) + [("p", Bint[S]), ("c", Bint[S])])
trans = Tensor(data, inputs); tv = Variable("time", Bint[T]); step = {{"p": "c"}}
algo, k = "{algo}", {k}
if algo == "naive": r = naive_sequential_sum_product(ops.logaddexp, ops.add, trans, tv, step)
elif algo == "seq": r = sequential_sum_product(ops.logaddexp, ops.add, trans, tv, step)
elif algo == "mixed": r = mixed_sequential_sum_product(ops.logaddexp, ops.add, trans, tv, step, num_segments=k)
elif algo == "markov-eager": r = MarkovProduct(ops.logaddexp, ops.add, trans, tv, step)
else:
    with lazy: r = MarkovProduct(ops.logaddexp, ops.add, trans, tv, step)
    r = reinterpret(r)
def lse(xs):
    m = max(xs)
    return m if m == -inf else m + math.log(sum(math.exp(x - m) for x in xs))
FAILS = False
for b in range(B or 1):
    mats = [(data[t, b] if B else data[t]).tolist() for t in range(T)]
    cur = mats[0]
    for m in mats[1:]:
        cur = [[lse([cur[i][j] + m[j][kk] for j in range(S)]) for kk in range(S)] for i in range(S)]
    got = r(b=b) if B and "b" in r.inputs else r
    got = np.broadcast_to(got.align(tuple(n for n in ("p", "c") if n in got.inputs)).data, (S, S)) if got.inputs else np.full((S, S), got.data)
    for i in range(S):
        for kk in range(S):
            e, g = cur[i][kk], float(got[i, kk])
            if not ((e == -inf and g == -inf) or (math.isfinite(g) and e != -inf and abs(g - e) <= 1e-8 * max(1.0, abs(e)))):
                FAILS = True
print("FAILS =", FAILS)
"""


def check_wide(ctx, c, use_driver=True):
    T, S, B, algo = c["T"], c["S"], c["B"], c["algo"]
    d = c["data"]
    inputs = OrderedDict([("time", Bint[T])] + ([("b", Bint[B])] if B else []) + [("p", Bint[S]), ("c", Bint[S])])
    trans = Tensor(d, inputs)
    tv = Variable("time", Bint[T])
    step = {"p": "c"}
    args = (ops.logaddexp, ops.add, trans, tv, step)
    ctx.count(f"wide:algo={algo}")
    ctx.count("wide:modes=" + "".join(c["modes"]))
    wit = dict(T=T, S=S, B=B, algo=algo, k=c["k"], modes=c["modes"], data=d.tolist())
    try:
        with np.errstate(all="ignore"):
            if algo == "naive":
                r = naive_sequential_sum_product(*args)
            elif algo == "seq":
                r = sequential_sum_product(*args)
            elif algo == "mixed":
                r = mixed_sequential_sum_product(*args, num_segments=c["k"])
            elif algo == "markov-eager":
                r = MarkovProduct(*args)
            else:
                with lazy:
                    r = MarkovProduct(*args)
                r = reinterpret(r)
    except (AssertionError, NotImplementedError, ValueError, KeyError) as e:
        ctx.count(f"wide:declined-{type(e).__name__}")
        if use_driver:
            ctx.fail("correspondence", "C10.wide-decline-mismatch", witness=wit, expected="a value",
                     got=f"declined: {type(e).__name__}")
        return
    order = ([("b", B)] if B else []) + [("p", S), ("c", S)]
    try:
        tab = table(r, order)
    except (KeyError, ValueError) as e:
        ctx.fail("input", "C10.wide-inputs", witness=wit, got=str(e), expected=str(order))
        return
    if tab is None:
        ctx.count("wide:lazy")
        ctx.case(nontrivial_key=None)
        return
    if not B:
        tab = tab[None]
    finite_seen = False
    for b in range(B or 1):
        mats = [(d[t, b] if B else d[t]).tolist() for t in range(T)]
        oracle = py_logfold(mats)
        # Lean model in the max-add semiring (exact on integers): M = best path; the log-semiring value L
        # satisfies M <= L <= M + (T-1) log S, and L is finite iff M is.
        if use_driver:
            xm = [[[exact(np.float64(x)) for x in row] for row in m] for m in mats]
            cmd = {"naive": "naive", "seq": "scan", "markov-eager": "scan", "markov-lazy": "scan"}.get(algo)
            req = f"C10 mixed max-add {c['k']} {sx(xm)}" if algo == "mixed" else f"C10 {cmd} max-add {sx(xm)}"
            a = ctx.driver.ask([req, f"C10 fold max-add {sx(xm)}"])
            mk, mv = parse_mat(a[0])
            fk, fv = parse_mat(a[1])
            if mk != "value" or fk != "value" or not mats_equal(mv, fv, 0):
                ctx.infra_errors.append(f"driver answered {a} on a wide-range case")
                return
        slack = (T - 1) * math.log(S)
        for i in range(S):
            for kk in range(S):
                e, g = oracle[i][kk], float(tab[b, i, kk])
                ok = (e == NINF and g == NINF) or (e != NINF and math.isfinite(g)
                                                    and abs(g - e) <= 1e-8 * max(1.0, abs(e)))
                if ok and use_driver:
                    M = fv[i][kk]
                    if isinstance(M, float):       # -inf
                        ok = g == NINF
                    else:
                        ok = math.isfinite(g) and float(M) - 1e-6 <= g <= float(M) + slack + 1e-6
                if not ok:
                    ctx.fail("input", f"C10.wide-{algo}-ne-fold", witness=wit,
                             expected=f"[{b}][{i}][{kk}] = {e}" + (f" (max-add model {fv[i][kk]})" if use_driver else ""),
                             got=str(g),
                             python=WIDE_PY.format(algo=algo, data=repr(d.tolist()).replace("inf", "inf"), T=T, B=B,
                                                   S=S, k=c["k"]))
                    return
                finite_seen |= e != NINF
    spread = float(np.nanmax(np.where(np.isfinite(d), d, np.nan)) - np.nanmin(np.where(np.isfinite(d), d, np.nan))) \
        if np.isfinite(d).any() else 0.0
    ctx.count("wide:spread>745" if spread > 745 else "wide:spread<=745")
    ctx.case(sample=dict(kind="wide-log", T=T, S=S, B=B, algo=algo, k=c["k"], modes=c["modes"]),
             nontrivial_key=("wide", T, S, B, algo, c["k"], d.tobytes()) if (T >= 2 and finite_seen and spread > 745) else None)


def check_wide_reduce(ctx, rng):
    """The Tensor route: t.reduce(ops.logaddexp, vars) (ops.logsumexp) on wide-range data vs per-cell lse."""
    nd = rng.randint(1, 3)
    sizes = [rng.choice([2, 3, 4]) for _ in range(nd)]
    names = [f"v{i}" for i in range(nd)]
    d = np.array([rng.choice([-2, -1, 0, 1, 2, 3]) + rng.choice(WIDE_OFFS) for _ in range(int(np.prod(sizes)))],
                 dtype=np.float64).reshape(sizes)
    for _ in range(rng.choice([0, 0, 1, 2])):
        idx = tuple(rng.randrange(s) for s in sizes)
        d[idx[:-1]] = NINF if rng.random() < 0.5 else d[idx[:-1]]
        d[idx] = NINF
    red = [n for n in names if rng.random() < 0.6] or [names[-1]]
    t = Tensor(d, OrderedDict((n, Bint[s]) for n, s in zip(names, sizes)))
    with np.errstate(all="ignore"):
        r = t.reduce(ops.logaddexp, frozenset(red))
    keep = [(n, s) for n, s in zip(names, sizes) if n not in red]
    tab = table(r, keep)
    ctx.count("wide:reduce")
    if tab is None:
        return
    axes = tuple(i for i, n in enumerate(names) if n in red)
    moved = np.moveaxis(d, axes, tuple(range(nd - len(axes), nd))).reshape(tuple(s for _, s in keep) + (-1,))
    for idx in itertools.product(*[range(s) for _, s in keep]):
        e = py_lse(moved[idx].tolist())
        g = float(tab[idx])
        if not ((e == NINF and g == NINF) or (e != NINF and math.isfinite(g) and abs(g - e) <= 1e-8 * max(1.0, abs(e)))):
            ctx.fail("input", "C10.wide-reduce-logaddexp", witness=dict(data=d.tolist(), names=names, reduced=red),
                     expected=f"{idx}: {e}", got=str(g))
            return
    ctx.case(nontrivial_key=("wide-reduce", d.tobytes(), tuple(red)))


def logeinsum_underflow_known(ctx):
    """Dedicated stream for KF-logeinsum-underflow (funsor/einsum/numpy_log.py stabilises each operand with its
    own max, so terms underflow when the operands peak at different contracted indices > ~745 nats apart):
    sequential_sum_product returns -inf where the fold is 5.  ctx.known if listed as open, else count only."""
    d = np.array([[[NINF, 3.], [3., 2.]], [[800., 800.], [2., 1.]]])
    t = Tensor(d, OrderedDict(time=Bint[2], p=Bint[2], c=Bint[2]))
    with np.errstate(all="ignore"):
        r = sequential_sum_product(ops.logaddexp, ops.add, t, Variable("time", Bint[2]), {"p": "c"})
    got = float(table(r, [("p", 2), ("c", 2)])[0, 0])
    reproduced = not (math.isfinite(got) and abs(got - 5.0) < 1e-9)
    what = f"sequential_sum_product(logaddexp, add) on [[-inf,3],[3,2]] x [[800,800],[2,1]]: [0,0] = {got}, fold = 5"
    if ctx.is_open("KF-logeinsum-underflow"):
        ctx.known("KF-logeinsum-underflow", reproduced, what=what)
    else:
        ctx.count("kf-logeinsum-underflow:" + ("reproduced-unlisted" if reproduced else "not-reproduced"))


# --------------------------------------------------------------------------------------
# lazily built MarkovProduct, substituted while still lazy (renames mixed with values), then reinterpreted
# --------------------------------------------------------------------------------------

def _ls_value(kind, size, rng):
    """a substitution value of the given kind for an input of the given size: ('num', k) | ('ten', [idx…])"""
    if kind == "num":
        return ("num", rng.randrange(size))
    n = rng.choice([2, 3])
    return ("ten", [rng.randrange(size) for _ in range(n)])


def _ls_to_funsor(val, size, tname):
    from funsor.terms import Number
    if isinstance(val, str):
        return val
    if val[0] == "num":
        return Number(val[1], size)
    return Tensor(np.array(val[1], dtype=np.int64), OrderedDict([(tname, Bint[len(val[1])])]), size)


def ls_oracle(axes, sizes, arr, calls):
    """Simultaneous-substitution semantics on an explicit table.  axes: names of arr's axes; calls: list of dicts
    name -> new name (str) | ('num', k) | ('ten', idx list, tensor input name).  Returns (names, sizes, table)."""
    # a symbolic funsor: list of (axis reads) where each original axis is read through `reads[axis]`:
    # ('in', input name) | ('num', k) | ('ten', idx, input name)
    reads = [("in", a) for a in axes]
    insz = {a: s for a, s in zip(axes, sizes)}
    for call in calls:
        new_reads = []
        new_insz = {}
        for rd in reads:
            if rd[0] == "in" and rd[1] in call:
                v = call[rd[1]]
                if isinstance(v, str):
                    rd2 = ("in", v)
                    new_insz[v] = insz[rd[1]]
                elif v[0] == "num":
                    rd2 = ("num", v[1])
                else:
                    rd2 = ("ten", v[1], v[2])
                    new_insz[v[2]] = len(v[1])
            elif rd[0] == "ten" and rd[2] in call:
                # substituting the index tensor's own input (only by a number / rename in this generator)
                v = call[rd[2]]
                if isinstance(v, str):
                    rd2 = ("ten", rd[1], v)
                    new_insz[v] = len(rd[1])
                elif v[0] == "num":
                    rd2 = ("num", rd[1][v[1]])
                else:
                    rd2 = ("ten", [rd[1][j] for j in v[1]], v[2])
                    new_insz[v[2]] = len(v[1])
            else:
                rd2 = rd
                if rd[0] == "in":
                    new_insz[rd[1]] = insz[rd[1]]
                elif rd[0] == "ten":
                    new_insz[rd[2]] = len(rd[1])
            new_reads.append(rd2)
        reads, insz = new_reads, new_insz
    names = sorted(insz)
    out = np.empty([insz[n] for n in names] or [], dtype=object)
    for pt in itertools.product(*[range(insz[n]) for n in names]):
        env = dict(zip(names, pt))
        idx = []
        for rd in reads:
            if rd[0] == "in":
                idx.append(env[rd[1]])
            elif rd[0] == "num":
                idx.append(rd[1])
            else:
                idx.append(rd[1][env[rd[2]]])
        if names:
            out[pt] = arr[tuple(idx)]
        else:
            out[()] = arr[tuple(idx)]
    return names, [insz[n] for n in names], out


LS_RENAMES = ["p->c", "c->p", "swap", "fresh", "none"]


def gen_lazy_subs(rng, tier, spec=None):
    """spec = (rename kind, target of the value, value kind, calls, batch sub) or None for random."""
    rk, target, vk, ncalls, bsub = spec or (rng.choice(LS_RENAMES), rng.choice(["other", "renamed-to", "both", "none"]),
                                            rng.choice(["num", "ten"]), rng.choice([1, 2]),
                                            rng.choice(["none", "num", "ten", "rename"]))
    T = rng.randint(2, 5)
    S = rng.choice([2, 2, 3])
    B = rng.choice([2, 3]) if (bsub != "none" or rng.random() < 0.3) else 0
    srname = rng.choice(list(SEMIRINGS))
    inputs = [("time", T), ("p", S), ("c", S)] + ([("b0", B)] if B else [])
    rng.shuffle(inputs)
    kind = SEMIRINGS[srname][3]
    data = gen_data(rng, tuple(s for _, s in inputs), kind)
    rename = {"p->c": {"p": "c"}, "c->p": {"c": "p"}, "swap": {"p": "c", "c": "p"},
              "fresh": {"p": "rp", "c": "rc"} if rng.random() < 0.5 else {"p": "rp"}, "none": {}}[rk]
    values = {}
    # names a value can go to: a step variable that is not itself renamed in this call ("other"), or the name a
    # rename maps onto ("renamed-to": only meaningful when that name is still an input, i.e. p->c / c->p / swap)
    if target in ("other", "both"):
        for n in ("p", "c"):
            if n not in rename:
                values[n] = _ls_value(vk, S, rng)
    if target in ("renamed-to", "both"):
        for n in set(rename.values()):
            if n in ("p", "c") and n not in values:
                values[n] = _ls_value(vk, S, rng)
    bvals = {}
    if B and bsub == "num":
        bvals["b0"] = ("num", rng.randrange(B))
    elif B and bsub == "ten":
        bvals["b0"] = _ls_value("ten", B, rng)
    elif B and bsub == "rename":
        bvals["b0"] = "rb"
    # name the index tensors' inputs
    k = 0
    for dct in (values, bvals):
        for n in list(dct):
            if not isinstance(dct[n], str) and dct[n][0] == "ten":
                dct[n] = ("ten", dct[n][1], f"i{k}")
                k += 1
    allsubs = {}
    allsubs.update(rename)
    for n, v in values.items():
        if n not in allsubs or ncalls == 2:
            allsubs.setdefault(n, v)
    if ncalls == 1:
        # one simultaneous call; a name cannot be both renamed and given a value
        call = dict(rename)
        for n, v in values.items():
            if n not in call:
                call[n] = v
        call.update(bvals)
        calls = [call]
    else:
        first, second = dict(rename), {}
        for n, v in values.items():
            (second if (n in first or rng.random() < 0.7) else first)[n] = v
        for n, v in bvals.items():
            (first if rng.random() < 0.5 else second)[n] = v
        if rng.random() < 0.5 and not (set(first) & set(second)):
            first, second = second, first
        calls = [c_ for c_ in (first, second) if c_] or [{}]
    return dict(T=T, S=S, B=B, sr=srname, inputs=inputs, data=data, calls=calls,
                spec=(rk, target, vk, ncalls, bsub))


LS_PY = """
# replay for C10: lazily built MarkovProduct, substituted while lazy, then reinterpreted
import numpy as np
from collections import OrderedDict
import funsor.ops as ops
from funsor.domains import Bint
from funsor.tensor import Tensor
from funsor.terms import Variable, Number
from funsor.interpretations import lazy
from funsor.interpreter import reinterpret
from funsor.sum_product import MarkovProduct
inf = float("inf")
data = np.array({data}, dtype=np.float64)
trans = Tensor(data, OrderedDict({inputs_dom}))
def val(v, size):
    if isinstance(v, str): return v
    if v[0] == "num": return Number(v[1], size)
    return Tensor(np.array(v[1], dtype=np.int64), OrderedDict([(v[2], Bint[len(v[1])])]), size)
sizes = {sizes}
with lazy:
    m = MarkovProduct(ops.{sum_op}, ops.{prod_op}, trans, Variable("time", Bint[{T}]), {{"p": "c"}})
    e = MarkovProduct(ops.{sum_op}, ops.{prod_op}, trans, Variable("time", Bint[{T}]), {{"p": "c"}})
e = reinterpret(e)                      # the eager product, substituted afterwards (reference)
for call in {calls}:
    with lazy:
        m = m(**{{n: val(v, sizes.get(n, 0)) for n, v in call.items() if n in m.inputs}})
    e = e(**{{n: val(v, sizes.get(n, 0)) for n, v in call.items() if n in e.inputs}})
r = reinterpret(m)
print(r); print(e)
FAILS = isinstance(r, Tensor) and not (set(r.inputs) == set(e.inputs) and
        np.allclose(r.align(tuple(e.inputs)).data, e.data, equal_nan=True))
print("FAILS =", FAILS)
"""


def check_lazy_subs(ctx, c, use_driver=True):
    sum_op, prod_op, wire, kind = SEMIRINGS[c["sr"]]
    tol = 1e-9 if kind == "log" else 0.0
    T, S, B = c["T"], c["S"], c["B"]
    trans = Tensor(c["data"], OrderedDict((n, Bint[s]) for n, s in c["inputs"]))
    time = Variable("time", Bint[T])
    sizes = {"p": S, "c": S, "b0": B, "rp": S, "rc": S, "rb": B}
    ctx.count("lazy-subs:" + "/".join(str(x) for x in c["spec"]))
    wit = dict(T=T, S=S, B=B, sr=c["sr"], inputs=c["inputs"], data=c["data"].tolist(), calls=c["calls"])
    # ---- oracle: the fold, then simultaneous substitution call by call
    cc = dict(T=T, sizes=[S], bsizes=[B] if B else [], sr=c["sr"], inputs=c["inputs"], data=c["data"],
              names={"time": "time", "prev": ["p"], "curr": ["c"], "batch": ["b0"] if B else []})
    fold = np.empty(([B] if B else []) + [S, S], dtype=object)
    reqs, bpts = [], list(itertools.product(*[range(B)] if B else []))
    for b in bpts:
        reqs.append(f"C10 fold {wire} {sx(step_matrices(cc, b))}")
    if use_driver:
        ans = ctx.driver.ask(reqs)
    for i, b in enumerate(bpts):
        if use_driver:
            fk, fv = parse_mat(ans[i])
            if fk != "value":
                ctx.infra_errors.append(f"driver answered {ans[i][:200]}")
                return
        else:
            fv = py_fold(c["sr"], step_matrices(cc, b))
        for pi in range(S):
            for ci in range(S):
                fold[tuple(b) + (pi, ci)] = fv[pi][ci]
    axes = (["b0"] if B else []) + ["p", "c"]
    names, nsz, expected = ls_oracle(axes, ([B] if B else []) + [S, S], fold, c["calls"])
    # ---- implementation
    try:
        with lazy:
            m = MarkovProduct(sum_op, prod_op, trans, time, {"p": "c"})
        for call in c["calls"]:
            with lazy:
                m = m(**{n: _ls_to_funsor(v, sizes.get(n, 0), v[2] if (not isinstance(v, str) and v[0] == "ten") else None)
                         for n, v in call.items() if n in m.inputs})
        r = reinterpret(m)
    except (AssertionError, NotImplementedError, ValueError, KeyError, AttributeError, TypeError) as e:
        ctx.count(f"lazy-subs:declined-{type(e).__name__}")
        ctx.case(nontrivial_key=None)
        return
    try:
        tab = table(r, list(zip(names, nsz)))
    except (KeyError, ValueError) as e:
        ctx.fail("input", "C10.lazy-subs-inputs", witness=wit, got=str(e), expected=str(names),
                 python=_ls_snippet(c))
        return
    if tab is None:
        ctx.count("lazy-subs:stays-lazy")
        ctx.case(nontrivial_key=None)
        return
    if hasattr(r, "inputs") and set(r.inputs) != set(names):
        ctx.count("lazy-subs:names-differ")
    tab = futil.linear_view(tab, kind)
    for pt in itertools.product(*[range(n) for n in nsz]):
        e_ = expected[pt] if names else expected[()]
        g_ = exact(tab[pt] if names else tab[()] if tab.shape == () else tab)
        if not same_num(g_, e_, tol_for([[e_]], tol, ctx)):
            ctx.fail("input", "C10.lazy-subs-ne-fold", witness=wit, expected=f"{dict(zip(names, pt))}: {e_}",
                     got=str(g_), python=_ls_snippet(c))
            return
    ctx.case(sample=dict(kind="lazy-subs", spec=c["spec"], calls=c["calls"], sr=c["sr"]),
             nontrivial_key=("lazy-subs", repr(c["calls"]), T, c["sr"], tuple(c["inputs"]), c["data"].tobytes()))


def _ls_snippet(c):
    sum_op, prod_op, _, _ = SEMIRINGS[c["sr"]]
    dom = "[" + ", ".join(f"({n!r}, Bint[{s}])" for n, s in c["inputs"]) + "]"
    return LS_PY.format(data=repr(c["data"].tolist()), inputs_dom=dom, sum_op=sum_op.__name__,
                        prod_op=prod_op.__name__, T=c["T"], calls=repr(c["calls"]),
                        sizes=repr({"p": c["S"], "c": c["S"], "b0": c["B"], "rp": c["S"], "rc": c["S"], "rb": c["B"]}))


def lazy_subs_grid(ctx, use_driver=True):
    """every combination rename kind x value target x value kind x one/two calls, batch substitution rotating"""
    bs = ["none", "num", "ten", "rename"]
    i = 0
    for rk in LS_RENAMES:
        for target in ("other", "renamed-to", "both", "none"):
            for vk in ("num", "ten"):
                for ncalls in (1, 2):
                    if target == "none" and vk == "ten":
                        continue
                    check_lazy_subs(ctx, gen_lazy_subs(ctx.rng, ctx.tier, (rk, target, vk, ncalls, bs[i % 4])),
                                    use_driver=use_driver)
                    i += 1


# --------------------------------------------------------------------------------------
# constructor call forms x input layouts, two state pairs of equal size
# --------------------------------------------------------------------------------------

CF_NAMES = ["time", "x_prev", "y_prev", "x_curr", "y_curr"]
CF_FORMS = [(tf, sf, mode) for tf in ("var", "str") for sf in ("dict", "dict-rev", "frozenset", "tuple")
            for mode in ("eager", "lazy")]


def _cf_run(form, algo, sum_op, prod_op, trans, T, k):
    pairs = [("x_prev", "x_curr"), ("y_prev", "y_curr")]
    tf, sf, mode = form
    time = Variable("time", Bint[T]) if tf == "var" else "time"
    step = {"dict": dict(pairs), "dict-rev": dict(reversed(pairs)), "frozenset": frozenset(pairs),
            "tuple": tuple(pairs)}[sf]
    if algo == "markov":
        if mode == "eager":
            return MarkovProduct(sum_op, prod_op, trans, time, step)
        with lazy:
            m = MarkovProduct(sum_op, prod_op, trans, time, step)
        return reinterpret(m)
    tv = Variable("time", Bint[T])
    st = dict(pairs) if sf != "dict-rev" else dict(reversed(pairs))
    if algo == "seq":
        return sequential_sum_product(sum_op, prod_op, trans, tv, st)
    if algo == "naive":
        return naive_sequential_sum_product(sum_op, prod_op, trans, tv, st)
    return mixed_sequential_sum_product(sum_op, prod_op, trans, tv, st, num_segments=k)


CF_PY = """
# replay for C10: {algo} {form} on a transition with input layout {layout} (two state pairs of equal size)
import numpy as np
from collections import OrderedDict
import funsor.ops as ops
from funsor.domains import Bint
from funsor.tensor import Tensor
from funsor.terms import Variable
from funsor.interpretations import lazy
from funsor.interpreter import reinterpret
from funsor.sum_product import *
inf = float("inf")
data = np.array({data}, dtype=np.float64)
trans = Tensor(data, OrderedDict({inputs_dom}))
pairs = [("x_prev", "x_curr"), ("y_prev", "y_curr")]
tf, sf, mode = {form}
time = Variable("time", Bint[{T}]) if tf == "var" else "time"
step = {{"dict": dict(pairs), "dict-rev": dict(reversed(pairs)), "frozenset": frozenset(pairs), "tuple": tuple(pairs)}}[sf]
if "{algo}" == "markov":
    if mode == "eager":
        r = MarkovProduct(ops.{sum_op}, ops.{prod_op}, trans, time, step)
    else:
        with lazy:
            r = MarkovProduct(ops.{sum_op}, ops.{prod_op}, trans, time, step)
        r = reinterpret(r)
else:
    r = {{"seq": sequential_sum_product, "naive": naive_sequential_sum_product}}.get("{algo}", sequential_sum_product)(
        ops.{sum_op}, ops.{prod_op}, trans, Variable("time", Bint[{T}]), dict(pairs))
e = naive_sequential_sum_product(ops.{sum_op}, ops.{prod_op}, trans, Variable("time", Bint[{T}]), dict(pairs))
print(r); print(e)
FAILS = not (set(r.inputs) == set(e.inputs) and np.allclose(r.align(tuple(e.inputs)).data, e.data, equal_nan=True))
print("FAILS =", FAILS)
"""


def call_forms_grid(ctx, use_driver=True):
    """Every layout of (time, x_prev, y_prev, x_curr, y_curr) in trans.inputs (120 permutations: every interleaving,
    prev order equal to / different from curr order) x constructor call forms of MarkovProduct (time as Variable / as
    str; step as dict in both insertion orders / frozenset of pairs / tuple of pairs; eager / lazy+reinterpret) and
    sequential / naive / mixed with the dict in both orders; two state pairs of EQUAL size, so a mis-pairing keeps the
    shape.  Per layout: the never-exercised `time: str` + `step: dict` form eager and lazy, two further forms and one
    function, rotating; thorough: every form on every layout.  Oracle: fold over the joint state."""
    rng = ctx.rng
    names_sr = list(SEMIRINGS)
    seed = int(ctx.seed) if str(ctx.seed).lstrip("-").isdigit() else 0
    for li, layout in enumerate(itertools.permutations(CF_NAMES)):
        T = 2 + (li % 3)
        S = 2
        srname = names_sr[(seed + li) % len(names_sr)]
        sum_op, prod_op, wire, kind = SEMIRINGS[srname]
        tol = 1e-9 if kind == "log" else 0.0
        inputs = [(n, T if n == "time" else S) for n in layout]
        data = gen_data(rng, tuple(sz for _, sz in inputs), kind)
        c = dict(T=T, sizes=[S, S], bsizes=[], sr=srname, inputs=inputs, data=data,
                 names={"time": "time", "prev": ["x_prev", "y_prev"], "curr": ["x_curr", "y_curr"], "batch": []})
        mats = step_matrices(c, ())
        if use_driver:
            fk, fv = parse_mat(ctx.driver.ask([f"C10 fold {wire} {sx(mats)}"])[0])
            if fk != "value":
                ctx.infra_errors.append("driver declined a fold in call_forms_grid")
                return
        else:
            fv = py_fold(srname, mats)
        trans = Tensor(data, OrderedDict((n, Bint[sz]) for n, sz in inputs))
        if ctx.tier == "quick":
            runs = [("markov", ("str", "dict", "eager")), ("markov", ("str", "dict-rev", "lazy")),
                    ("markov", CF_FORMS[(2 * li) % len(CF_FORMS)]), ("markov", CF_FORMS[(2 * li + 1) % len(CF_FORMS)]),
                    (["seq", "naive", "mixed"][li % 3], ("var", ["dict", "dict-rev"][(li // 3) % 2], "eager"))]
        else:
            runs = [("markov", f) for f in CF_FORMS] + [(a, ("var", sf, "eager")) for a in ("seq", "naive", "mixed")
                                                        for sf in ("dict", "dict-rev")]
        for algo, form in runs:
            ctx.count(f"call-form:{algo}:{'/'.join(form)}")
            try:
                r = _cf_run(form, algo, sum_op, prod_op, trans, T, 1 + (li % T))
            except (AssertionError, NotImplementedError, ValueError, KeyError, TypeError, AttributeError) as e:
                ctx.count(f"call-form:declined-{form[1]}-{type(e).__name__}")
                continue
            wit = dict(layout=list(layout), T=T, sr=srname, algo=algo, form=list(form), data=data.tolist())
            try:
                impl = impl_matrices(c, r)
            except (KeyError, ValueError) as e:
                ctx.fail("input", "C10.call-form-inputs", witness=wit, got=str(e), expected="prev + curr names")
                continue
            if impl is None:
                ctx.count("call-form:lazy")
                continue
            if not mats_equal(impl[()], fv, tol_for(fv, tol, ctx)):
                dom = "[" + ", ".join(f"({n!r}, Bint[{sz}])" for n, sz in inputs) + "]"
                ctx.fail("input", f"C10.call-form-{algo}-ne-fold", witness=wit, expected=str(fv), got=str(impl[()]),
                         python=CF_PY.format(algo=algo, form=repr(tuple(form)), layout=list(layout), data=repr(data.tolist()),
                                             inputs_dom=dom, T=T, sum_op=sum_op.__name__, prod_op=prod_op.__name__))
                continue
            ctx.case(sample=dict(kind="call-form", layout=list(layout), algo=algo, form=list(form), sr=srname),
                     nontrivial_key=("call-form", layout, algo, form, srname, data.tobytes()))


# --------------------------------------------------------------------------------------
# transitions that stay lazy (Tensor (x) free real Variable, evaluated at a point afterwards); Stack slices
# --------------------------------------------------------------------------------------

LAZY_ANCHORS = [(14, 7), (15, 7), (18, 9), (16, 7), (20, 5)]


def check_lazy_trans(ctx, T, algo, k, srname, use_driver=True):
    """trans = Tensor (x) Variable('w', Real) stays lazy through the whole algorithm (the Stack of segments in
    mixed_… is not collapsed to a Tensor, Slice/Cat act on lazy terms); the result is evaluated at w afterwards and
    must equal the fold of the per-step matrices (x) w."""
    from funsor.domains import Real
    rng = ctx.rng
    sum_op, prod_op, wire, kind = SEMIRINGS[srname]
    tol = 1e-9 if kind == "log" else 0.0
    S = 2
    inputs = [("time", T), ("p", S), ("c", S)]
    rng.shuffle(inputs)
    data = gen_data(rng, tuple(sz for _, sz in inputs), kind)
    if prod_op is ops.mul:
        wval, scaled = 2.0, data * 2.0
    else:
        wval = float(np.log(2.0)) if kind == "log" else 1.0
        scaled = data + wval
    w = Variable("w", Real)
    base = Tensor(data, OrderedDict((n, Bint[sz]) for n, sz in inputs))
    trans = prod_op(base, w)
    tv = Variable("time", Bint[T])
    ctx.count(f"lazy-trans:{algo}:T={T}")
    wit = dict(T=T, algo=algo, k=k, sr=srname, inputs=inputs, data=data.tolist(), w=wval)
    try:
        with np.errstate(all="ignore"):
            if algo == "seq":
                r = sequential_sum_product(sum_op, prod_op, trans, tv, {"p": "c"})
            elif algo == "naive":
                r = naive_sequential_sum_product(sum_op, prod_op, trans, tv, {"p": "c"})
            elif algo == "mixed":
                r = mixed_sequential_sum_product(sum_op, prod_op, trans, tv, {"p": "c"}, num_segments=k)
            else:
                r = MarkovProduct(sum_op, prod_op, trans, tv, {"p": "c"})
            v = r(w=wval)
    except (AssertionError, NotImplementedError, ValueError, KeyError, TypeError, AttributeError) as e:
        ctx.count(f"lazy-trans:declined-{type(e).__name__}")
        ctx.case(nontrivial_key=None)
        return
    c = dict(T=T, sizes=[S], bsizes=[], sr=srname, inputs=inputs, data=scaled,
             names={"time": "time", "prev": ["p"], "curr": ["c"], "batch": []})
    mats = step_matrices(c, ())
    if use_driver:
        fk, fv = parse_mat(ctx.driver.ask([f"C10 fold {wire} {sx(mats)}"])[0])
        if fk != "value":
            ctx.infra_errors.append("driver declined a fold in check_lazy_trans")
            return
    else:
        fv = py_fold(srname, mats)
    try:
        impl = impl_matrices(c, v)
    except (KeyError, ValueError) as e:
        ctx.fail("input", "C10.lazy-trans-inputs", witness=wit, got=str(e), expected="p, c")
        return
    if impl is None:
        ctx.count("lazy-trans:still-lazy")
        ctx.case(nontrivial_key=None)
        return
    if not mats_equal(impl[()], fv, tol_for(fv, tol, ctx)):
        dom = "[" + ", ".join(f"({n!r}, Bint[{sz}])" for n, sz in inputs) + "]"
        ctx.fail("input", f"C10.lazy-trans-{algo}-ne-fold", witness=wit, expected=str(fv), got=str(impl[()]),
                 python=LAZYT_PY.format(algo=algo, T=T, k=k, data=repr(data.tolist()), inputs_dom=dom, w=wval,
                                        sum_op=sum_op.__name__, prod_op=prod_op.__name__))
        return
    ctx.case(sample=dict(kind="lazy-trans", T=T, algo=algo, k=k, sr=srname),
             nontrivial_key=("lazy-trans", T, algo, k, srname, tuple(inputs), data.tobytes()))


LAZYT_PY = """
# replay for C10: {algo} (num_segments {k}) on a transition that stays lazy (Tensor (x) Variable('w', Real)), duration {T}
import numpy as np
from collections import OrderedDict
import funsor.ops as ops
from funsor.domains import Bint, Real
from funsor.tensor import Tensor
from funsor.terms import Variable
from funsor.sum_product import *
inf = float("inf")
data = np.array({data}, dtype=np.float64)
base = Tensor(data, OrderedDict({inputs_dom}))
tv = Variable("time", Bint[{T}]); step = {{"p": "c"}}
def run(trans):
    if "{algo}" == "seq": return sequential_sum_product(ops.{sum_op}, ops.{prod_op}, trans, tv, step)
    if "{algo}" == "naive": return naive_sequential_sum_product(ops.{sum_op}, ops.{prod_op}, trans, tv, step)
    if "{algo}" == "mixed": return mixed_sequential_sum_product(ops.{sum_op}, ops.{prod_op}, trans, tv, step, num_segments={k})
    return MarkovProduct(ops.{sum_op}, ops.{prod_op}, trans, tv, step)
r = run(ops.{prod_op}(base, Variable("w", Real)))(w={w})
e = naive_sequential_sum_product(ops.{sum_op}, ops.{prod_op}, ops.{prod_op}(base, Tensor(np.array({w}))), tv, step)
print(r); print(e)
FAILS = not np.allclose(r.align(tuple(e.inputs)).data, e.data, equal_nan=True)
print("FAILS =", FAILS)
"""


def lazy_trans_cases(ctx, use_driver=True):
    names_sr = list(SEMIRINGS)
    seed = int(ctx.seed) if str(ctx.seed).lstrip("-").isdigit() else 0
    i = seed
    if ctx.tier == "quick":
        for j, (T, k) in enumerate(LAZY_ANCHORS):
            for algo in (("mixed", "seq"), ("mixed", "naive"), ("mixed",), ("mixed",), ("mixed",))[j]:
                check_lazy_trans(ctx, T, algo, k, names_sr[i % 5], use_driver)
                i += 1
        for T in (1, 3, 7, 13):
            k = ctx.rng.randint(1, T)
            check_lazy_trans(ctx, T, ["mixed", "markov", "mixed", "seq"][T % 4], k, names_sr[i % 5], use_driver)
            i += 1
    else:
        for T in range(1, 21):
            for k in range(1, T + 1):
                check_lazy_trans(ctx, T, "mixed", k, names_sr[i % 5], use_driver)
                i += 1
            for algo in ("seq", "naive", "markov"):
                check_lazy_trans(ctx, T, algo, None, names_sr[i % 5], use_driver)
                i += 1


def stack_slice_family(ctx):
    """Stack.eager_subs, Slice branch, on stacks of n = 1..12 LAZY parts (the form mixed_… builds when the transition
    stays lazy): every Slice(start, stop, step) with step 1..3, including stop = n-1 and stop = n; gate = Python list
    slicing.  Parts are `Number(i) * w`, read back at w = 1."""
    from funsor.domains import Real
    from funsor.terms import Stack, Slice, Number
    w = Variable("w", Real)
    bad = None
    n_checked = 0
    for n in range(1, 13):
        st = Stack("t", tuple(Number(float(i)) * w for i in range(n)))
        for start in range(0, n):
            for stop in range(start + 1, n + 1):
                for step in (1, 2, 3):
                    exp = [float(x) for x in list(range(n))[start:stop:step]]
                    try:
                        v = st(t=Slice("t", start, stop, step, n))(w=1.0)
                        got = [float(v(t=j).data) for j in range(v.inputs["t"].size)] if "t" in v.inputs \
                            else [float(v.data)]
                    except (AssertionError, NotImplementedError, ValueError, KeyError, TypeError, AttributeError) as e:
                        ctx.count(f"stack-slice:declined-{type(e).__name__}")
                        continue
                    n_checked += 1
                    if got != exp and bad is None:
                        bad = (n, start, stop, step, exp, got)
    ctx.count("stack-slice:checked", n_checked)
    if bad is not None:
        n, start, stop, step, exp, got = bad
        ctx.fail("input", "C10.stack-slice", witness=dict(n=n, start=start, stop=stop, step=step),
                 expected=str(exp), got=str(got),
                 python=f"""
from funsor.domains import Real
from funsor.terms import Stack, Slice, Number, Variable
w = Variable("w", Real)
st = Stack("t", tuple(Number(float(i)) * w for i in range({n})))
v = st(t=Slice("t", {start}, {stop}, {step}, {n}))(w=1.0)
got = [float(v(t=j).data) for j in range(v.inputs["t"].size)]
print(got, list(range({n}))[{start}:{stop}:{step}])
FAILS = got != [float(x) for x in list(range({n}))[{start}:{stop}:{step}]]
""")
        return
    ctx.case(sample=dict(kind="stack-slice", checked=n_checked), nontrivial_key=("stack-slice", n_checked))


# --------------------------------------------------------------------------------------
# translator: the index expressions of sarkka_bilmes_product, as written in the source
# --------------------------------------------------------------------------------------

def _sarkka_forms(fn_node):
    """The pieces of sarkka_bilmes_product the model FV.C10.SB transcribes, unparsed from the AST."""
    import ast
    out = dict(period="", slice_t="", shift="", step_key="", step_value="", step_iter="", step_conds=[],
               block_time="", num_segments="", final_sum_vars="", final_rename="", lags_discard="")
    for node in ast.walk(fn_node):
        if isinstance(node, ast.Assign) and len(node.targets) == 1 and isinstance(node.targets[0], ast.Name):
            tgt = node.targets[0].id
            v = node.value
            if tgt == "period":
                out["period"] = ast.unparse(v)
            elif tgt == "slice_t":
                out["slice_t"] = ast.unparse(v)
            elif tgt == "factor" and isinstance(v, ast.Call) and ast.unparse(v.func) == "_shift_funsor":
                out["shift"] = ast.unparse(v.args[1]) if len(v.args) > 1 else ""
            elif tgt == "block_step" and isinstance(v, ast.DictComp):
                out["step_key"] = ast.unparse(v.key)
                out["step_value"] = ast.unparse(v.value)
                gen0 = v.generators[0]
                out["step_iter"] = ast.unparse(gen0.iter)
                conds = []
                for cnd in gen0.ifs:
                    if isinstance(cnd, ast.BoolOp) and isinstance(cnd.op, ast.And):
                        conds += [ast.unparse(x) for x in cnd.values]
                    else:
                        conds.append(ast.unparse(cnd))
                out["step_conds"] = conds
            elif tgt == "block_step":
                out["step_key"] = "<not a dict comprehension> " + ast.unparse(v)[:80]
            elif tgt == "block_time_var":
                out["block_time"] = ast.unparse(v)
            elif tgt == "final_sum_vars":
                out["final_sum_vars"] = ast.unparse(v)
        if isinstance(node, ast.keyword) and node.arg == "num_segments":
            out["num_segments"] = ast.unparse(node.value)
    # the last `result = result(**{...})` of the function is the final renaming
    for node in fn_node.body:
        if isinstance(node, ast.Assign) and ast.unparse(node.targets[0]) == "result":
            out["final_rename"] = ast.unparse(node.value)
    return out


def _markov_subs_forms(tree):
    """MarkovProduct.eager_subs: the rename / lazy split, the simultaneity guard and the new step_names, as written."""
    import ast
    out = dict(rename="", lazy="", guard="", guard_body="", step_names="")
    cls = next((n for n in tree.body if isinstance(n, ast.ClassDef) and n.name == "MarkovProduct"), None)
    fn = next((n for n in (cls.body if cls else []) if isinstance(n, ast.FunctionDef) and n.name == "eager_subs"), None)
    if fn is None:
        return out
    for node in fn.body:
        if isinstance(node, ast.Assign) and isinstance(node.targets[0], ast.Name):
            if node.targets[0].id in ("rename", "lazy", "step_names"):
                out[node.targets[0].id] = ast.unparse(node.value)
        if isinstance(node, ast.If) and "lazy" in ast.unparse(node.test) and "rename" in ast.unparse(node.test):
            out["guard"] = ast.unparse(node.test)
            out["guard_body"] = "; ".join(ast.unparse(x) for x in node.body)
    return out


def extract(ctx):
    """Regenerate lean/FunsorVerif/Gen/C10Sarkka.lean from /repo/funsor/sum_product.py (AST of the file, cross-checked
    with the source of the live function): the expressions the model transcribes — period, slice_t, the block shift,
    the block_step comprehension (key, value, iterable, conditions), block time, num_segments, final_sum_vars and the
    final renaming.  Props/C10/Gen.lean states that they are the reviewed forms."""
    import ast
    import inspect
    import textwrap
    from ..common import REPO, LEAN
    import funsor.sum_product as sp
    src = (REPO / "funsor" / "sum_product.py").read_text()
    tree = ast.parse(src)
    node = next((n for n in tree.body if isinstance(n, ast.FunctionDef) and n.name == "sarkka_bilmes_product"), None)
    forms = _sarkka_forms(node) if node is not None else _sarkka_forms(ast.parse("def f():\n    pass").body[0])
    try:
        live = ast.parse(textwrap.dedent(inspect.getsource(sp.sarkka_bilmes_product))).body[0]
        if _sarkka_forms(live) != forms:
            ctx.infra_errors.append("C10 extract: live sarkka_bilmes_product differs from the file on disk")
    except (OSError, TypeError, AttributeError) as ex:
        ctx.infra_errors.append(f"C10 extract: cannot read live source: {ex}")

    def q(x):
        return '"' + x.replace("\\", "\\\\").replace('"', '\\"') + '"'
    mforms = _markov_subs_forms(tree)
    try:
        live_cls = ast.parse(textwrap.dedent(inspect.getsource(sp.MarkovProduct)))
        if _markov_subs_forms(live_cls) != mforms:
            ctx.infra_errors.append("C10 extract: live MarkovProduct.eager_subs differs from the file on disk")
    except (OSError, TypeError, AttributeError) as ex:
        ctx.infra_errors.append(f"C10 extract: cannot read live source of MarkovProduct: {ex}")
    lines = ["/- GENERATED by fv/harness/c10.py:extract from /repo/funsor/sum_product.py on every run. Do not edit. -/",
             "namespace FV.Gen.C10", "",
             "/-- MarkovProduct.eager_subs, as written -/",
             f"def subsRename : String := {q(mforms['rename'])}",
             f"def subsLazy : String := {q(mforms['lazy'])}",
             f"def subsGuard : String := {q(mforms['guard'])}",
             f"def subsGuardBody : String := {q(mforms['guard_body'])}",
             f"def subsStepNames : String := {q(mforms['step_names'])}",
             "",
             "/-- index expressions of sarkka_bilmes_product, as written -/",
             f"def period : String := {q(forms['period'])}",
             f"def sliceT : String := {q(forms['slice_t'])}",
             f"def blockShift : String := {q(forms['shift'])}",
             f"def blockStepKey : String := {q(forms['step_key'])}",
             f"def blockStepValue : String := {q(forms['step_value'])}",
             f"def blockStepIter : String := {q(forms['step_iter'])}",
             f"def blockStepConds : List String := [{', '.join(q(x) for x in forms['step_conds'])}]",
             f"def blockTime : String := {q(forms['block_time'])}",
             f"def numSegments : String := {q(forms['num_segments'])}",
             f"def finalSumVars : String := {q(forms['final_sum_vars'])}",
             f"def finalRename : String := {q(forms['final_rename'])}",
             "", "end FV.Gen.C10", ""]
    out = LEAN / "FunsorVerif" / "Gen" / "C10Sarkka.lean"
    txt = "\n".join(lines)
    if not out.exists() or out.read_text() != txt:
        out.write_text(txt)
    ctx.extra["sarkka_forms"] = forms
    ctx.extra["markov_subs_forms"] = mforms


def exhaustive_small(ctx):
    """All durations 1..12 x all num_segments for one 2x2 time-dependent transition per semiring."""
    rng = ctx.rng
    maxT = 12 if ctx.tier == "quick" else 20
    for srname in SEMIRINGS:
        for T in range(1, maxT + 1):
            kind = SEMIRINGS[srname][3]
            inputs = [("time", T), ("p0", 2), ("c0", 2)]
            data = gen_data(rng, (T, 2, 2), kind)
            for algo, ks in (("seq", [None]), ("naive", [None]), ("mixed", list(range(1, T + 1))),
                             ("markov-eager", [None])):
                for k in ks:
                    c = dict(T=T, sizes=[2], bsizes=[], sr=srname, time_dep=True, algo=algo, k=k,
                             names={"time": "time", "prev": ["p0"], "curr": ["c0"], "batch": []},
                             inputs=inputs, data=data, batch_dep=[])
                    check_case(ctx, c)


def correspond(ctx):
    ctx.rule = ("random transitions: duration 1..12 (thorough 1..24), 1-3 state pairs (joint size <= 9), 0-2 batch "
                "inputs, time/batch (in)dependence, shuffled input order, 5 semirings, algorithms seq/naive/mixed(k)/"
                "MarkovProduct eager+lazy; plus every duration x every num_segments exhaustively for a 2-state chain; "
                "plus sarkka_bilmes and naive_sarkka_bilmes vs the Lean window-chain fold: every lag set over {1,2,3} x "
                "durations 1..13 (two full periods also for period 6) x num_periods 1..2 exhaustively for one 2-state "
                "variable (quick: one semiring per cell rotating with the seed; thorough: all five, plus lag sets with 4 up to "
                "duration 25), and random cases with "
                "1-2 variables (own lag sets, possibly none), sizes 1-3, optional global input, num_periods 1..3, "
                "5 semirings; _get_shift/_shift_name vs the Lean string functions; MarkovProduct with empty step "
                "(time-dependent and not, eager/lazy/reflect+reinterpret) and MarkovProduct(...)(**renaming) "
                "(fresh names, prev/curr swaps, batch renames); two state pairs of equal size in all 120 layouts of trans.inputs x "
                "constructor call forms (time Variable/str, step dict in both orders/frozenset/tuple, eager/lazy) and seq/naive/"
                "mixed, against the joint-state fold; transitions that stay lazy (Tensor (x) free real Variable, read at a point "
                "afterwards) through seq/naive/mixed/MarkovProduct incl. the anchors (duration, num_segments) = (14,7) (15,7) "
                "(18,9) (16,7) (20,5) (thorough: durations 1..20 x every num_segments); Stack of 1..12 lazy parts under every "
                "Slice(start, stop, step<=3) against Python list slicing; lazily built MarkovProduct substituted WHILE LAZY (rename "
                "prev->curr / curr->prev / swap / fresh x Number or index-Tensor for the other step variable / the renamed-to "
                "name / batch inputs, in one call and in two calls) then reinterpreted, against the fold with simultaneous-"
                "substitution semantics; (logaddexp, add) chains and logaddexp reductions on integer "
                "log-weights with per-time/batch/column/row/entry offsets in {0,+-50,+-400,+-800,+-2000}, -inf entries and "
                "rows, against a per-cell-max log fold and the Lean max-add bounds.  Non-trivial = duration >= 3, joint state "
                "size >= 2 and the implementation returned a value; distinct by full case content.")
    exhaustive_small(ctx)
    n = 400 if ctx.tier == "quick" else 6000
    for _ in range(n):
        c = gen_case(ctx.rng, ctx.tier)
        check_case(ctx, c)
    quick = ctx.tier == "quick"
    name_arith_cases(ctx)
    sarkka_exhaustive(ctx)
    for _ in range(80 if quick else 2000):
        check_sarkka(ctx, gen_sarkka(ctx.rng, ctx.tier))
    for _ in range(150 if quick else 2000):
        check_empty_step(ctx, gen_empty_step(ctx.rng, ctx.tier))
    for _ in range(120 if quick else 2000):
        check_rename(ctx, gen_rename_case(ctx.rng, ctx.tier))
    call_forms_grid(ctx)
    stack_slice_family(ctx)
    lazy_trans_cases(ctx)
    lazy_subs_grid(ctx)
    for _ in range(60 if quick else 1500):
        check_lazy_subs(ctx, gen_lazy_subs(ctx.rng, ctx.tier))
    for _ in range(180 if quick else 3000):
        check_wide(ctx, gen_wide(ctx.rng, ctx.tier))
    for _ in range(100 if quick else 1000):
        check_wide_reduce(ctx, ctx.rng)
    logeinsum_underflow_known(ctx)
    ctx.assumptions.append("log semiring, wide dynamic range: integer log-weights with offsets up to +-2000 nats; gate = "
                           "|impl - per-cell-max log-fold| <= 1e-8 relative, finite iff the Lean max-add model is, and "
                           "max-add model <= impl <= model + (T-1) log S; the einsum-path algorithms only get offset "
                           "patterns outside KF-logeinsum-underflow (per-operand stabilisation of numpy_log.einsum)")
    ctx.assumptions.append("sarkka_bilmes_product: proved equal to naive_sarkka_bilmes_product as relative-name funsors "
                           "for durations that are a multiple of the period or shorter than one period "
                           "(Props/C10/Terms.lean), on the window chain and in absolute time for every duration "
                           "(Sarkka.lean, Sem.lean); the term-level treatment of 0 < T % period < T, several base "
                           "variables as separate name spaces, and the string-level names rest on the arithmetic lemmas "
                           "plus correspondence (funsor vs Lean windowMat/sarkka/fold)")
    ctx.assumptions.append("eager_markov_product with empty step and a time-independent transition raises "
                           "AttributeError on the pinned tree (time.size): a decline; the closed forms trans*T / "
                           "trans**T are modelled and proved but exercised only if that line is repaired")
    ctx.assumptions.append("float64 arithmetic on small integers / dyadic rationals is exact while results stay below 2**53 (beyond that: rtol 1e-12, counted as tolerance:beyond-2^53); the log semiring is compared in linear space with rtol 1e-9")


def search(ctx, broken):
    """Proof or correspondence broke: hunt for a concrete wrong value against the Python oracle at 10x volume."""
    n = 3000
    before = len([f for f in ctx.failures if f.witness is not None])
    for _ in range(n):
        c = gen_case(ctx.rng, ctx.tier)
        check_case(ctx, c, use_driver=False)
        if len([f for f in ctx.failures if f.witness is not None]) > before:
            return
    sarkka_exhaustive(ctx, use_driver=False)
    if len([f for f in ctx.failures if f.witness is not None]) > before:
        return
    call_forms_grid(ctx, use_driver=False)
    if len([f for f in ctx.failures if f.witness is not None]) > before:
        return
    stack_slice_family(ctx)
    lazy_trans_cases(ctx, use_driver=False)
    if len([f for f in ctx.failures if f.witness is not None]) > before:
        return
    for _ in range(6):
        lazy_subs_grid(ctx, use_driver=False)
    if len([f for f in ctx.failures if f.witness is not None]) > before:
        return
    for _ in range(1200):
        check_sarkka(ctx, gen_sarkka(ctx.rng, ctx.tier), use_driver=False)
        if len([f for f in ctx.failures if f.witness is not None]) > before:
            return
    for _ in range(1500):
        check_empty_step(ctx, gen_empty_step(ctx.rng, ctx.tier), use_driver=False)
        check_rename(ctx, gen_rename_case(ctx.rng, ctx.tier), use_driver=False)
        check_wide(ctx, gen_wide(ctx.rng, ctx.tier), use_driver=False)
        if len([f for f in ctx.failures if f.witness is not None]) > before:
            return
