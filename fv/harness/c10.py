"""
C10 — Markov products equal the explicit left-to-right fold over time.

Correspondence: real funsor (sequential_sum_product, naive_…, mixed_… with every num_segments,
MarkovProduct eager / lazy+reinterpret, the time-independent branch, sarkka_bilmes vs naive) against
the Lean model FV.C10 (scanIdx / naive / mixed / scanConst over semiring matrices) and the oracle
`fold1` — the functions about which Props/C10.lean proves scan = naive = mixed = fold1.
"""
import itertools
from collections import OrderedDict
from fractions import Fraction

import numpy as np

from ..common import sx, parse_sx, atom_to_num
from .. import futil
from ..futil import funsor, Tensor, Bint, ops, Variable, SEMIRINGS, gen_data, table, exact, same_num

from funsor.sum_product import (sequential_sum_product, naive_sequential_sum_product,
                                mixed_sequential_sum_product, MarkovProduct,
                                sarkka_bilmes_product, naive_sarkka_bilmes_product)
from funsor.interpretations import lazy, reflect, eager
from funsor.interpreter import reinterpret


def gen_case(rng, tier):
    maxT = 12 if tier == "quick" else 24
    T = rng.choice(list(range(1, maxT + 1)))
    npairs = rng.choice([1, 1, 1, 2, 2, 3])
    sizes = []
    for _ in range(npairs):
        sizes.append(rng.choice([1, 2, 2, 3]))
    while int(np.prod(sizes)) > 9:
        sizes[sizes.index(max(sizes))] -= 1
    nbatch = rng.choice([0, 0, 1, 1, 2])
    bsizes = [rng.choice([1, 2, 3]) for _ in range(nbatch)]
    srname = rng.choice(list(SEMIRINGS))
    time_dep = rng.random() < 0.85
    batch_dep = [rng.random() < 0.8 for _ in range(nbatch)]
    algo = rng.choice(["seq", "seq", "naive", "mixed", "mixed", "mixed", "markov-eager", "markov-lazy"])
    k = rng.randint(1, T) if algo == "mixed" else None
    names = {"time": "time",
             "prev": [f"p{i}" for i in range(npairs)],
             "curr": [f"c{i}" for i in range(npairs)],
             "batch": [f"b{i}" for i in range(nbatch)]}
    r = rng.random()
    if r < 0.25:   # conventional names
        names["prev"] = [f"x{i}_prev" for i in range(npairs)]
        names["curr"] = [f"x{i}" for i in range(npairs)]
    elif r < 0.6:  # names whose sort order differs between prev and curr (pairing must follow the dict, not sorting)
        pool_p = ["x_prev", "prev_y", "zp", "a_old", "m0"]
        pool_c = ["x", "y", "a", "zz", "b_new"]
        rng.shuffle(pool_p)
        rng.shuffle(pool_c)
        names["prev"] = pool_p[:npairs]
        names["curr"] = pool_c[:npairs]
    inputs = []
    if time_dep:
        inputs.append(("time", T))
    for n, s, d in zip(names["batch"], bsizes, batch_dep):
        if d:
            inputs.append((n, s))
    for n, s in zip(names["prev"], sizes):
        inputs.append((n, s))
    for n, s in zip(names["curr"], sizes):
        inputs.append((n, s))
    rng.shuffle(inputs)
    kind = SEMIRINGS[srname][3]
    data = gen_data(rng, tuple(s for _, s in inputs), kind)
    return dict(T=T, sizes=sizes, bsizes=bsizes, sr=srname, time_dep=time_dep, algo=algo, k=k,
                names=names, inputs=inputs, data=data, batch_dep=batch_dep)


def run_impl(c):
    sum_op, prod_op, _, _ = SEMIRINGS[c["sr"]]
    trans = Tensor(c["data"], OrderedDict((n, Bint[s]) for n, s in c["inputs"]))
    time = Variable("time", Bint[c["T"]])
    step = dict(zip(c["names"]["prev"], c["names"]["curr"]))
    algo = c["algo"]
    try:
        if algo == "seq":
            r = sequential_sum_product(sum_op, prod_op, trans, time, step)
        elif algo == "naive":
            r = naive_sequential_sum_product(sum_op, prod_op, trans, time, step)
        elif algo == "mixed":
            r = mixed_sequential_sum_product(sum_op, prod_op, trans, time, step, num_segments=c["k"])
        elif algo == "markov-eager":
            r = MarkovProduct(sum_op, prod_op, trans, time, step)
        elif algo == "markov-lazy":
            with (lazy if c["T"] % 2 else reflect):
                r = MarkovProduct(sum_op, prod_op, trans, time, step)
            r = reinterpret(r)
        else:
            raise ValueError(algo)
    except (AssertionError, NotImplementedError, ValueError, KeyError) as e:
        return ("declined", type(e).__name__)
    return ("value", r)


def impl_matrices(c, r):
    """result funsor -> {batch point: matrix rows} in the model's carrier (linear space for log)."""
    names = c["names"]
    order = ([(n, s) for n, s in zip(names["batch"], c["bsizes"])]
             + [(n, s) for n, s in zip(names["prev"], c["sizes"])]
             + [(n, s) for n, s in zip(names["curr"], c["sizes"])])
    tab = table(r, order)
    if tab is None:
        return None
    kind = SEMIRINGS[c["sr"]][3]
    tab = futil.linear_view(tab, kind)
    nb = len(c["bsizes"])
    S = int(np.prod(c["sizes"]))
    out = {}
    for b in itertools.product(*[range(s) for s in c["bsizes"]]):
        m = tab[b].reshape(S, S)
        out[b] = [[exact(v) for v in row] for row in m]
    return out


def step_matrices(c, b):
    """Per-step matrices of the transition at batch point b, in the model's carrier, exact."""
    names = c["names"]
    order = ([("time", c["T"])] + [(n, s) for n, s in zip(names["batch"], c["bsizes"])]
             + [(n, s) for n, s in zip(names["prev"], c["sizes"])]
             + [(n, s) for n, s in zip(names["curr"], c["sizes"])])
    have = [n for n, _ in c["inputs"]]
    data = c["data"]
    perm = [have.index(n) for n, _ in order if n in have]
    data = data.transpose(perm)
    shape = [s if n in have else 1 for n, s in order]
    data = np.broadcast_to(data.reshape(shape), [s for _, s in order])
    kind = SEMIRINGS[c["sr"]][3]
    S = int(np.prod(c["sizes"]))
    mats = []
    for t in range(c["T"]):
        m = data[(t,) + tuple(b)].reshape(S, S)
        if kind == "log":
            # exact linear-space value: data was generated as log of a dyadic
            m = np.exp(m)
            m = np.round(m * 4) / 4
        mats.append([[exact(v) for v in row] for row in m])
    return mats


def py_fold(srname, mats):
    """Python oracle (used by the search when the Lean side is unavailable)."""
    wire = SEMIRINGS[srname][2]

    def add(a, b):
        if wire == "add-mul":
            return a + b
        if wire.startswith("max"):
            return max(a, b)
        return min(a, b)

    def mul(a, b):
        if wire.endswith("mul"):
            return a * b
        return a + b
    cur = mats[0]
    for m in mats[1:]:
        n = len(cur)
        new = []
        for i in range(n):
            row = []
            for k in range(n):
                acc = None
                for j in range(n):
                    t = mul(cur[i][j], m[j][k])
                    acc = t if acc is None else add(acc, t)
                row.append(acc)
            new.append(row)
        cur = new
    return cur


def model_requests(c, b):
    wire = SEMIRINGS[c["sr"]][2]
    mats = step_matrices(c, b)
    if not c["time_dep"]:
        algo = c["algo"]
        if algo in ("seq", "markov-eager", "markov-lazy"):
            return mats, [f"C10 scanconst {wire} {c['T']} {sx(mats[0])}", f"C10 fold {wire} {sx(mats)}"]
    cmd = {"seq": "scan", "naive": "naive", "markov-eager": "scan", "markov-lazy": "scan"}.get(c["algo"])
    if c["algo"] == "mixed":
        req = f"C10 mixed {wire} {c['k']} {sx(mats)}"
    else:
        req = f"C10 {cmd} {wire} {sx(mats)}"
    return mats, [req, f"C10 fold {wire} {sx(mats)}"]


def parse_mat(ans):
    if not ans.startswith("ok "):
        return ("err", ans)
    body = ans[3:]
    if body == "declined":
        return ("declined", None)
    m = parse_sx(body)
    return ("value", [[atom_to_num(x) for x in row] for row in m])


def mats_equal(a, b, tol):
    if len(a) != len(b):
        return False
    for ra, rb in zip(a, b):
        if len(ra) != len(rb):
            return False
        for x, y in zip(ra, rb):
            if not same_num(x, y, tol):
                return False
    return True


def describe(c):
    return {k: (v.tolist() if isinstance(v, np.ndarray) else v) for k, v in c.items()}


PY_TEMPLATE = """
# replay for C10: {algo} on a transition with inputs {inputs}
import numpy as np
from collections import OrderedDict
import funsor
from funsor.domains import Bint
from funsor.tensor import Tensor
from funsor.terms import Variable
import funsor.ops as ops
from funsor.sum_product import *
data = np.array({data}, dtype=np.float64)
trans = Tensor(data, OrderedDict({inputs_dom}))
print("see witness: compare with explicit left fold over time")
FAILS = True
"""


def check_case(ctx, c, use_driver=True):
    status, r = run_impl(c)
    tol = 1e-9 if SEMIRINGS[c["sr"]][3] == "log" else 0.0
    ctx.count(f"algo:{c['algo']}")
    ctx.count(f"sr:{c['sr']}")
    ctx.count(f"T:{c['T']}")
    ctx.count("time_dep" if c["time_dep"] else "time_indep")
    if status == "value":
        try:
            impl = impl_matrices(c, r)
        except (KeyError, ValueError) as e:
            ctx.fail("input", "C10.result-inputs", witness=describe(c), got=str(e),
                     expected="result inputs = batch + prev + curr names")
            return
        if impl is None:
            status = "declined"
            ctx.count("impl:lazy")
    if status == "declined":
        ctx.count("impl:declined")
    reqs = []
    idx = []
    bpoints = list(itertools.product(*[range(s) for s in c["bsizes"]]))
    allm = {}
    for b in bpoints:
        mats, rq = model_requests(c, b)
        allm[b] = mats
        idx.append((b, len(reqs)))
        reqs += rq
    if use_driver:
        answers = ctx.driver.ask(reqs)
    for b, i in idx:
        if use_driver:
            mk, mv = parse_mat(answers[i])
            fk, fv = parse_mat(answers[i + 1])
            if mk == "err" or fk != "value":
                ctx.infra_errors.append(f"driver answered {answers[i]} / {answers[i+1]} for {reqs[i][:200]}")
                return
            # model vs spec: run-time echo of the theorems
            if mk == "value" and not mats_equal(mv, fv, 0):
                ctx.infra_errors.append(f"Lean model disagrees with its own spec on {reqs[i][:300]}")
                return
        else:
            fv = py_fold(c["sr"], allm[b])
            mk, mv = ("value", fv)
        if status == "declined":
            if use_driver and mk == "value" and c["algo"] != "markov-lazy" and c["time_dep"]:
                # implementation declined where the model computes a value: correspondence broken
                ctx.fail("correspondence", "C10.decline-mismatch", witness=describe(c),
                         expected="a value (model completes)", got=f"declined: {r}")
            continue
        if mk == "declined":
            # model declines (time-independent, not a power of two) but the impl returned a value:
            # fine iff the value equals the oracle (the property only forbids wrong numbers)
            ctx.count("model-declined-impl-value")
        if not mats_equal(impl[b], fv, tol):
            ctx.fail("input", f"C10.{c['algo']}-ne-fold", witness=describe(c),
                     expected=str(fv), got=str(impl[b]),
                     python=PY_TEMPLATE.format(algo=c["algo"], inputs=c["inputs"],
                                               data=c["data"].tolist(),
                                               inputs_dom=[(n, f"Bint[{s}]") for n, s in c["inputs"]]))
            return
    nontrivial = c["T"] >= 3 and int(np.prod(c["sizes"])) >= 2 and status == "value"
    ctx.case(sample={k: (v.tolist() if isinstance(v, np.ndarray) else v)
                     for k, v in c.items() if k in ("T", "sizes", "bsizes", "sr", "algo", "k", "inputs", "time_dep")},
             nontrivial_key=(c["T"], tuple(c["sizes"]), tuple(c["bsizes"]), c["sr"], c["algo"], c["k"],
                             tuple(c["inputs"]), c["data"].tobytes()) if nontrivial else None)


def sarkka_cases(ctx, n):
    """sarkka_bilmes_product vs its naive counterpart (both implementation functions)."""
    rng = ctx.rng
    done = 0
    for _ in range(n):
        lags = rng.choice([[1], [2], [1, 2], [3], [1, 3], [2, 3], [1, 2, 3]])
        T = rng.randint(1, 8)
        num_periods = rng.choice([1, 1, 2, 3])
        srname = rng.choice(["add-mul", "logaddexp-add", "max-add"])
        sum_op, prod_op, _, kind = SEMIRINGS[srname]
        size = rng.choice([1, 2, 2, 3])
        inputs = [("time", T), ("x", size)]
        for lag in lags:
            inputs.append(("_PREV_" * lag + "x", size))
        glob = rng.random() < 0.4
        if glob:
            inputs.append(("g", 2))
        rng.shuffle(inputs)
        data = gen_data(rng, tuple(s for _, s in inputs), kind)
        trans = Tensor(data, OrderedDict((n_, Bint[s]) for n_, s in inputs))
        tv = Variable("time", Bint[T])
        gv = frozenset(["g"]) if glob else frozenset()
        wit = dict(lags=lags, T=T, num_periods=num_periods, sr=srname, inputs=inputs, data=data.tolist())
        try:
            expected = naive_sarkka_bilmes_product(sum_op, prod_op, trans, tv, gv)
        except Exception as e:
            ctx.count("sarkka:naive-declined")
            continue
        try:
            actual = sarkka_bilmes_product(sum_op, prod_op, trans, tv, gv, num_periods=num_periods)
        except (AssertionError, NotImplementedError, ValueError) as e:
            ctx.count("sarkka:declined")
            continue
        order = sorted((k, v.size) for k, v in expected.inputs.items())
        try:
            te = table(expected, order)
            ta = table(actual, order)
        except (KeyError, ValueError) as e:
            ctx.fail("input", "C10.sarkka-inputs", witness=wit, got=str(e), expected=str(order))
            continue
        if te is None or ta is None:
            ctx.count("sarkka:lazy")
            continue
        tol = 1e-9
        ok = np.allclose(np.where(np.isinf(te), 0, te), np.where(np.isinf(ta), 0, ta), rtol=tol, atol=tol) \
            and (np.isinf(te) == np.isinf(ta)).all() and (np.sign(np.where(np.isinf(te), te, 0)) == np.sign(np.where(np.isinf(ta), ta, 0))).all()
        ctx.count(f"sarkka:lags={lags}")
        if not ok:
            ctx.fail("input", "C10.sarkka-ne-naive", witness=wit, expected=str(te.tolist()), got=str(ta.tolist()))
            continue
        done += 1
        ctx.case(nontrivial_key=("sarkka", tuple(lags), T, num_periods, srname, tuple(inputs), data.tobytes())
                 if T >= 2 and size >= 2 else None)
    return done


def exhaustive_small(ctx):
    """All durations 1..12 x all num_segments for one 2x2 time-dependent transition per semiring."""
    rng = ctx.rng
    maxT = 12 if ctx.tier == "quick" else 20
    for srname in SEMIRINGS:
        for T in range(1, maxT + 1):
            kind = SEMIRINGS[srname][3]
            inputs = [("time", T), ("p0", 2), ("c0", 2)]
            data = gen_data(rng, (T, 2, 2), kind)
            for algo, ks in (("seq", [None]), ("naive", [None]), ("mixed", list(range(1, T + 1))),
                             ("markov-eager", [None])):
                for k in ks:
                    c = dict(T=T, sizes=[2], bsizes=[], sr=srname, time_dep=True, algo=algo, k=k,
                             names={"time": "time", "prev": ["p0"], "curr": ["c0"], "batch": []},
                             inputs=inputs, data=data, batch_dep=[])
                    check_case(ctx, c)


def correspond(ctx):
    ctx.rule = ("random transitions: duration 1..12 (thorough 1..24), 1-3 state pairs (joint size <= 9), 0-2 batch "
                "inputs, time/batch (in)dependence, shuffled input order, 5 semirings, algorithms seq/naive/mixed(k)/"
                "MarkovProduct eager+lazy; plus every duration x every num_segments exhaustively for a 2-state chain; "
                "plus sarkka_bilmes vs naive over lag sets in {1,2,3}.  Non-trivial = duration >= 3, joint state "
                "size >= 2 and the implementation returned a value; distinct by full case content.")
    exhaustive_small(ctx)
    n = 400 if ctx.tier == "quick" else 6000
    for _ in range(n):
        c = gen_case(ctx.rng, ctx.tier)
        check_case(ctx, c)
    sarkka_cases(ctx, 150 if ctx.tier == "quick" else 2000)
    ctx.assumptions.append("sarkka_bilmes_product is tied to naive_sarkka_bilmes_product by correspondence only (no theorem)")
    ctx.assumptions.append("float64 arithmetic on small integers / dyadic rationals is exact; the log semiring is compared in linear space with rtol 1e-9")


def search(ctx, broken):
    """Proof or correspondence broke: hunt for a concrete wrong value against the Python oracle at 10x volume."""
    n = 3000
    before = len([f for f in ctx.failures if f.witness is not None])
    for _ in range(n):
        c = gen_case(ctx.rng, ctx.tier)
        check_case(ctx, c, use_driver=False)
        if len([f for f in ctx.failures if f.witness is not None]) > before:
            return
