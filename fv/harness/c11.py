"""
C11 — adjoints are semiring derivatives of the forward value.

Correspondence: real funsor (funsor.adjoint.forward_backward / AdjointTape, with and without
apply_optimizer) against
  * the Lean model FV.C11 (`backward`: the reverse sweep with the rules of funsor/adjoint.py and the
    tape's message aggregation; `eval`; `deriv`: the Leibniz derivative = the spec of Props/C11), and
  * a Python forward-mode oracle (independent of both; also used by `search`).

Expression AST shared by generator, oracle, funsor builder and the wire format:
    ("acc", lid, [(axis, ix)…])   leaf `lid` read through a substitution of some of its named axes
         ix = ("var", v) | ("aff", v, start, step) | ("const", c) | ("tab", v, [t0, t1, …])
    ("add", a, b) ("mul", a, b)
    ("sum", [v…], e) ("prod", [v…], e)         one funsor Reduce node; the model nests single binders
    ("cat", v, [lid…])                        Cat over axis/variable v of plain leaves
Variables are integers: 0..3 are the four global variables ("a".."d"), ≥ 4 are private axis names.
"""
import itertools
import math
import os
from collections import OrderedDict
from fractions import Fraction

import numpy as np

from ..common import sx, parse_sx, atom_to_num, Q
from .. import futil
from ..futil import funsor, Tensor, Bint, ops, Variable, Number, exact, same_num

from funsor.terms import Slice, Cat, Binary, Reduce, Subs, Funsor
from funsor.cnf import Contraction
from funsor.interpretations import reflect
from funsor.adjoint import forward_backward, AdjointTape
from funsor.interpreter import stack_reinterpret
from funsor.optimizer import apply_optimizer

NGLOB = 4
GNAMES = ["a", "b", "c", "d"]


def vname(v):
    return GNAMES[v] if v < NGLOB else f"x{v}"


# ----------------------------------------------------------------------------------------------
# case = dict(sz={var: size}, leaves={lid: dict(axes=[(name,size)…], data=ndarray linear-space)},
#             expr=AST, sr="add-mul"|"logaddexp-add", opt=None|"tape"|"lazy")
# ----------------------------------------------------------------------------------------------

def free_vars(e, leaves):
    t = e[0]
    if t == "acc":
        keys = {k for k, _ in e[2]}
        out = {n for n, _ in leaves[e[1]]["axes"] if n not in keys}
        for _, ix in e[2]:
            if ix[0] in ("var", "aff", "tab"):
                out.add(ix[1])
        return out
    if t in ("add", "mul"):
        return free_vars(e[1], leaves) | free_vars(e[2], leaves)
    if t in ("sum", "prod"):
        return free_vars(e[2], leaves) - set(e[1])
    if t == "cat":
        out = set()
        for lid in e[2]:
            out |= {n for n, _ in leaves[lid]["axes"]}
        return out
    if t == "scat":            # ("scat", i, k, table, source): dest[i] = (+)_{k: table[k] = i} source(k)
        return (free_vars(e[4], leaves) - {e[2]}) | {e[1]}
    raise ValueError(t)


def ixval(ix, env):
    t = ix[0]
    if t == "var":
        return env[ix[1]]
    if t == "aff":
        return ix[2] + ix[3] * env[ix[1]]
    if t == "const":
        return ix[1]
    if t == "tab":
        return ix[2][env[ix[1]]]
    raise ValueError(t)


class LP:
    """Exact carrier for wide-range log weights: sum_k coef_k * e**k (integer k, Fraction coef >= 0)."""
    __slots__ = ("t",)

    def __init__(self, t=None):
        self.t = {k: v for k, v in (t or {}).items() if v != 0}

    @staticmethod
    def of(x):
        return x if isinstance(x, LP) else LP({0: Fraction(x)})

    def __add__(self, o):
        o = LP.of(o)
        t = dict(self.t)
        for k, v in o.t.items():
            t[k] = t.get(k, 0) + v
        return LP(t)
    __radd__ = __add__

    def __mul__(self, o):
        o = LP.of(o)
        t = {}
        for k1, v1 in self.t.items():
            for k2, v2 in o.t.items():
                t[k1 + k2] = t.get(k1 + k2, 0) + v1 * v2
        return LP(t)
    __rmul__ = __mul__

    def __eq__(self, o):
        return self.t == LP.of(o).t

    def __hash__(self):
        return hash(tuple(sorted(self.t.items())))

    def log(self):
        """log of the value by the max-shifted form (exact up to float64 rounding of the result)"""
        if not self.t:
            return float("-inf")
        cmax = max(self.t)
        return cmax + math.log(sum(float(v) * math.exp(k - cmax) for k, v in self.t.items()))


class Oracle:
    """Forward-mode (Leibniz) derivative in the (add, mul) semiring over Fractions: for every node,
    value and sparse gradient {(lid, index tuple): coefficient}.  Independent of the reverse sweep."""

    def __init__(self, case):
        self.sz = case["sz"]
        self.leaves = case["leaves"]
        self.tabs = {}
        for lid, l in self.leaves.items():
            if "logoff" in l:      # value = mantissa * e**offset, kept exactly as a Laurent polynomial in e
                flat = [LP({int(c): Fraction(m)}) for m, c in zip(np.asarray(l["data"]).reshape(-1).tolist(),
                                                               np.asarray(l["logoff"]).reshape(-1).tolist())]
                arr = np.empty(len(flat), dtype=object)
                arr[:] = flat
                self.tabs[lid] = arr.reshape(np.asarray(l["data"]).shape)
            else:
                self.tabs[lid] = np.vectorize(Fraction, otypes=[object])(l["data"]) if l["data"].size else l["data"]

    def leaf_at(self, lid, idx):
        return self.tabs[lid][idx] if idx else self.tabs[lid][()]

    def ev(self, e, env):
        t = e[0]
        if t == "acc":
            lid = e[1]
            sub = dict(e[2])
            idx = tuple(ixval(sub[n], env) if n in sub else env[n] for n, _ in self.leaves[lid]["axes"])
            return self.leaf_at(lid, idx), {(lid, idx): Fraction(1)}
        if t == "add":
            a, ga = self.ev(e[1], env)
            b, gb = self.ev(e[2], env)
            g = dict(ga)
            for k, v in gb.items():
                g[k] = g.get(k, 0) + v
            return a + b, g
        if t == "mul":
            a, ga = self.ev(e[1], env)
            b, gb = self.ev(e[2], env)
            g = {k: v * b for k, v in ga.items()}
            for k, v in gb.items():
                g[k] = g.get(k, 0) + a * v
            return a * b, g
        if t == "sum":
            tot, g = Fraction(0), {}
            for pt in itertools.product(*[range(self.sz[v]) for v in e[1]]):
                env2 = dict(env)
                env2.update(zip(e[1], pt))
                a, ga = self.ev(e[2], env2)
                tot += a
                for k, v in ga.items():
                    g[k] = g.get(k, 0) + v
            return tot, g
        if t == "prod":
            items = []
            for pt in itertools.product(*[range(self.sz[v]) for v in e[1]]):
                env2 = dict(env)
                env2.update(zip(e[1], pt))
                items.append(self.ev(e[2], env2))
            tot = Fraction(1)
            for a, _ in items:
                tot *= a
            g = {}
            for i, (a, ga) in enumerate(items):
                rest = Fraction(1)
                for j, (b, _) in enumerate(items):
                    if j != i:
                        rest *= b
                for k, v in ga.items():
                    g[k] = g.get(k, 0) + v * rest
            return tot, g
        if t == "scat":
            tot, g = Fraction(0), {}
            for kk in range(self.sz[e[2]]):
                if e[3][kk] == env[e[1]]:
                    env2 = dict(env)
                    env2[e[2]] = kk
                    env2.pop(e[1], None)
                    a, ga = self.ev(e[4], env2)
                    tot += a
                    for k_, v_ in ga.items():
                        g[k_] = g.get(k_, 0) + v_
            return tot, g
        if t == "cat":
            v = e[1]
            off = 0
            for lid in e[2]:
                n = dict(self.leaves[lid]["axes"])[v]
                if off <= env[v] < off + n:
                    env2 = dict(env)
                    env2[v] = env[v] - off
                    idx = tuple(env2[nm] for nm, _ in self.leaves[lid]["axes"])
                    return self.leaf_at(lid, idx), {(lid, idx): Fraction(1)}
                off += n
            raise IndexError("cat index out of range")
        raise ValueError(t)

    def run(self, expr):
        """forward table over F (sorted), and per leaf the table (over its own axes) of
        d(sum_F root)/d leaf[p]."""
        F = sorted(free_vars(expr, self.leaves))
        fwd = {}
        grads = {lid: {} for lid in self.leaves}
        for pt in itertools.product(*[range(self.sz[v]) for v in F]):
            env = dict(zip(F, pt))
            val, g = self.ev(expr, env)
            fwd[pt] = val
            for (lid, idx), c in g.items():
                grads[lid][idx] = grads[lid].get(idx, 0) + c
        return F, fwd, grads


# ----------------------------------------------------------------------------------------------
# funsor side
# ----------------------------------------------------------------------------------------------

def to_impl_data(lin, sr):
    if sr == "logaddexp-add":
        with np.errstate(divide="ignore"):
            return np.log(lin)
    return lin.copy()


def build_funsor(case):
    """-> (lazy expr, {lid: Tensor}).  Built under `reflect` so that every node stays on the tape."""
    sr = case["sr"]
    sum_op, prod_op = (ops.add, ops.mul) if sr == "add-mul" else (ops.logaddexp, ops.add)
    sz = case["sz"]
    leaves = {}
    pn = case.get("cat_part_name")
    in_cat = {}
    if pn is not None:
        for t in subterms(case["expr"]):
            if t[0] == "cat":
                for lid in t[2]:
                    in_cat[lid] = t[1]
    for lid, l in case["leaves"].items():
        leaves[lid] = Tensor(to_impl_data(l["data"], sr) + (l["logoff"] if "logoff" in l else 0.0),
                             OrderedDict((pn if in_cat.get(lid) == n else vname(n), Bint[s]) for n, s in l["axes"]))

    idx_cache = {}

    def ixf(ix, lsize):
        t = ix[0]
        if t == "var":
            return Variable(vname(ix[1]), Bint[sz[ix[1]]])
        if t == "aff":
            n = sz[ix[1]]
            return Slice(vname(ix[1]), ix[2], ix[2] + ix[3] * (n - 1) + 1, ix[3], lsize)
        if t == "const":
            return Number(ix[1], lsize)
        if t == "tab":
            # one index tensor per (variable, table): structurally equal substitutions are then the same
            # hash-consed lazy node, as in the DAG model
            key = (ix[1], tuple(ix[2][:sz[ix[1]]]), lsize)
            if key not in idx_cache:
                idx_cache[key] = Tensor(np.array(ix[2][:sz[ix[1]]]), OrderedDict([(vname(ix[1]), Bint[sz[ix[1]]])]), lsize)
            return idx_cache[key]
        raise ValueError(t)

    lazy_of = {}

    def go(e):
        out = go1(e)
        if not (e[0] == "acc" and not e[2]):
            lazy_of[sx(expr_wire(e, case["leaves"]))] = out
        return out

    def go1(e):
        t = e[0]
        if t == "acc":
            x = leaves[e[1]]
            if not e[2]:
                return x
            ax = dict(case["leaves"][e[1]]["axes"])
            return x(**{(pn if in_cat.get(e[1]) == k else vname(k)): ixf(ix, ax[k]) for k, ix in e[2]})
        if t == "add":
            return sum_op(go(e[1]), go(e[2])) if sr != "add-mul" else go(e[1]) + go(e[2])
        if t == "mul":
            return prod_op(go(e[1]), go(e[2])) if sr != "add-mul" else go(e[1]) * go(e[2])
        if t == "sum":
            return go(e[2]).reduce(sum_op, frozenset(vname(v) for v in e[1]))
        if t == "prod":
            return go(e[2]).reduce(prod_op, frozenset(vname(v) for v in e[1]))
        if t == "scat":
            from funsor.terms import Scatter
            i_, k_, tab_ = e[1], e[2], e[3]
            idx = Tensor(np.array(tab_[:sz[k_]]), OrderedDict([(vname(k_), Bint[sz[k_]])]), sz[i_])
            return Scatter(sum_op, ((vname(i_), idx),), go(e[4]), frozenset({Variable(vname(k_), Bint[sz[k_]])}))
        if t == "cat":
            parts = tuple(leaves[l] for l in e[2])
            if pn is None:
                return Cat(vname(e[1]), parts)
            return Cat(vname(e[1]), parts, pn)
        raise ValueError(t)

    with reflect:
        expr = go(case["expr"])
    build_funsor.lazy_of = lazy_of          # side channel for the DAG-trace comparison
    return expr, leaves, sum_op, prod_op


def run_impl(case):
    """-> dict(status="value", fwd=forward funsor, bwd=backward dict, used=lazy expr differentiated,
               leaves={lid: Tensor}, sum_op, prod_op)  |  dict(status="declined", why=…)"""
    try:
        expr, leaves, sum_op, prod_op = build_funsor(case)
    except (AssertionError, ValueError, NotImplementedError, KeyError, TypeError) as e:
        return dict(status="declined", why="build:" + type(e).__name__)
    opt = case.get("opt")
    tape_kinds = None
    try:
        with np.errstate(all="ignore"):
            if opt == "tape":
                # the way funsor's own tests drive it: optimise *under* the tape
                with AdjointTape() as tape:
                    fwd = apply_optimizer(expr)
                used = tape._eager_to_lazy.get(fwd)
                bwd = tape.adjoint(sum_op, prod_op, fwd)
            elif opt == "lazy":
                with reflect:
                    expr = apply_optimizer(expr)
                fwd, bwd = forward_backward(sum_op, prod_op, expr)
                used = expr
            else:
                # forward_backward, spelled out to see the tape: entries in recording order
                with AdjointTape() as tape:
                    fwd = stack_reinterpret(expr)
                tape_kinds = [fn.__name__ for _, fn, _ in tape.tape]
                bwd = tape.adjoint(sum_op, prod_op, fwd)
                used = expr
    except (AssertionError, ValueError, NotImplementedError, KeyError, TypeError, IndexError) as e:
        return dict(status="declined", why=type(e).__name__)
    return dict(status="value", fwd=fwd, bwd=bwd, used=used, leaves=leaves, sum_op=sum_op, prod_op=prod_op,
                tape_kinds=tape_kinds, lazy_of=getattr(build_funsor, "lazy_of", {}))


def collect_tensors(f, acc):
    """Leaf tensors of a lazy term in first-visit order (substitution values are not leaves)."""
    if isinstance(f, Tensor):
        if all(id(f) != id(t) for t in acc):
            acc.append(f)
        return
    if isinstance(f, Subs):
        collect_tensors(f.arg, acc)
        return
    if isinstance(f, Funsor):
        for v in f._ast_values:
            if isinstance(v, Funsor):
                collect_tensors(v, acc)
            elif isinstance(v, tuple):
                for w in v:
                    if isinstance(w, Funsor):
                        collect_tensors(w, acc)


def case_from_lazy(case, r):
    """Re-read the term that was actually differentiated (e.g. the optimizer's output) as a case:
    its leaf tensors become the leaves.  Raises Beyond if it leaves the modelled fragment."""
    used = r["used"]
    if used is None:
        raise Beyond("no lazy term")
    tensors = []
    collect_tensors(used, tensors)
    leaves = {}
    objs = {}
    sz = dict(case["sz"])
    uniq = []
    keyof = {}
    for t in tensors:
        k = (id(t.data), tuple(nm.split("__BOUND")[0] for nm in t.inputs))
        if k not in keyof:
            keyof[k] = len(uniq)
            uniq.append(t)
        objs[id(t)] = keyof[k]
    tensors = uniq
    for lid, t in enumerate(tensors):
        if t.output.shape:
            raise Beyond("tensor with event shape")
        axes = []
        for nm, d in t.inputs.items():
            base = nm.split("__BOUND")[0]
            if base in GNAMES:
                v = GNAMES.index(base)
            elif base.startswith("x") and base[1:].isdigit():
                v = int(base[1:])
            else:
                raise Beyond(f"name {nm}")
            axes.append((v, int(d.size)))
            sz.setdefault(v, int(d.size))
        data = np.asarray(t.data, dtype=np.float64)
        if case["sr"] == "logaddexp-add":
            with np.errstate(all="ignore"):
                data = np.exp(data)
            # exact linear value: generated as log of a small dyadic
            data = np.round(data * 1024) / 1024 if np.all(np.isfinite(data)) and np.all(np.abs(data * 1024 - np.round(data * 1024)) < 1e-6) else data
        leaves[lid] = dict(axes=axes, data=data)
    ast = funsor_to_ast(used, objs, r["sum_op"], r["prod_op"])
    c2 = dict(sz=sz, leaves=leaves, expr=ast, sr=case["sr"], opt=case.get("opt"))
    # the tape reports adjoints under alpha-unmangled names: rebuild the (hash-consed) key tensors
    keys = {}
    for lid, t in enumerate(tensors):
        if any("__BOUND" in nm for nm in t.inputs):
            keys[lid] = Tensor(t.data, OrderedDict((nm.split("__BOUND")[0], d) for nm, d in t.inputs.items()), t.dtype)
        else:
            keys[lid] = t
    return c2, keys


def lin_table(f, order, sr):
    """Linear-space table of a ground funsor over `order` = [(var id, size)…]."""
    tab = futil.table(f, [(vname(v), n) for v, n in order])
    if tab is None:
        return None
    if sr == "logaddexp-add":
        with np.errstate(all="ignore"):
            tab = np.exp(tab)
    return tab


def input_ids(f):
    names = list(f.inputs)
    out = []
    for n in names:
        if n in GNAMES:
            out.append(GNAMES.index(n))
        elif n.startswith("x") and n[1:].isdigit():
            out.append(int(n[1:]))
        else:
            raise KeyError(n)
    return out


# ----------------------------------------------------------------------------------------------
# lazy funsor term -> AST (for optimizer output and as a cross-check of the builder)
# ----------------------------------------------------------------------------------------------

class Beyond(Exception):
    pass


def funsor_to_ast(f, leaves_by_obj, sum_op, prod_op):
    """Lazy funsor term -> AST, reading names modulo the `__BOUND_n` suffix exactly as
    AdjointTape.adjoint un-mangles them.  Raises Beyond("rebinding") when that reading would conflate
    two different binders (same base name bound twice in nested scopes / in one Contraction)."""
    scope = []

    def bind(vars_):
        bases = [v.name.split("__BOUND")[0] for v in vars_]
        if len(set(bases)) != len(bases) or set(bases) & set(scope):
            raise Beyond("rebinding")
        return bases

    def var_id(name):
        base = name.split("__BOUND")[0]
        if base in GNAMES:
            return GNAMES.index(base)
        if base.startswith("x") and base[1:].isdigit():
            return int(base[1:])
        raise Beyond(f"name {name}")

    def ix_of(v):
        if isinstance(v, Variable):
            return ("var", var_id(v.name))
        if isinstance(v, Number):
            return ("const", int(v.data))
        if isinstance(v, Slice):
            (nm, _), = v.inputs.items()
            return ("aff", var_id(nm), int(v.slice.start), int(v.slice.step))
        if isinstance(v, Tensor) and len(v.inputs) == 1 and not v.output.shape:
            (nm, _), = v.inputs.items()
            return ("tab", var_id(nm), [int(t) for t in np.asarray(v.data).tolist()])
        raise Beyond(f"subs value {type(v).__name__}")

    def go(f):
        if isinstance(f, Tensor):
            if id(f) in leaves_by_obj:
                return ("acc", leaves_by_obj[id(f)], [])
            raise Beyond("foreign tensor")
        if isinstance(f, Subs):
            if isinstance(f.arg, Tensor) and id(f.arg) in leaves_by_obj:
                return ("acc", leaves_by_obj[id(f.arg)], [(var_id(k), ix_of(v)) for k, v in f.subs.items()])
            raise Beyond("subs of non-leaf")
        if isinstance(f, Binary):
            if f.op is prod_op:
                return ("mul", go(f.lhs), go(f.rhs))
            if f.op is sum_op:
                return ("add", go(f.lhs), go(f.rhs))
            raise Beyond(f"binary {f.op}")
        if isinstance(f, Reduce):
            vs = sorted(var_id(v.name) for v in f.reduced_vars)
            bases = bind(f.reduced_vars)
            scope.extend(bases)
            try:
                body = go(f.arg)
            finally:
                del scope[len(scope) - len(bases):]
            if f.op is sum_op:
                return ("sum", vs, body)
            if f.op is prod_op:
                return ("prod", vs, body)
            raise Beyond(f"reduce {f.op}")
        if isinstance(f, Contraction):
            vs = sorted(var_id(v.name) for v in f.reduced_vars)
            bases = bind(f.reduced_vars)
            scope.extend(bases)
            try:
                terms = [go(t) for t in f.terms]
            finally:
                del scope[len(scope) - len(bases):]
            if len(terms) > 2:
                raise Beyond("contraction arity > 2")
            if len(terms) == 1:
                body = terms[0]
            elif f.bin_op is prod_op:
                body = ("mul", terms[0], terms[1])
            elif f.bin_op is sum_op:
                body = ("add", terms[0], terms[1])
            else:
                raise Beyond(f"contraction bin_op {f.bin_op}")
            if not vs:
                return body
            if f.red_op is sum_op:
                return ("sum", vs, body)
            if f.red_op is prod_op:
                return ("prod", vs, body)
            raise Beyond(f"contraction red_op {f.red_op}")
        if isinstance(f, Cat):
            if f.name.split("__BOUND")[0] != f.part_name.split("__BOUND")[0]:
                raise Beyond("cat part_name")
            lids = []
            for p in f.parts:
                if isinstance(p, Tensor) and id(p) in leaves_by_obj:
                    lids.append(leaves_by_obj[id(p)])
                else:
                    raise Beyond("cat of non-leaf")
            return ("cat", var_id(f.name), lids)
        raise Beyond(type(f).__name__)

    return go(f)


# ----------------------------------------------------------------------------------------------
# wire format for the Lean driver
# ----------------------------------------------------------------------------------------------

def ix_wire(ix):
    if ix[0] == "tab":
        return ["tab", ix[1], list(ix[2])]
    return list(ix)


def expr_wire(e, leaves=None):
    t = e[0]
    if t == "acc":
        return ["acc", e[1], [[k, ix_wire(ix)] for k, ix in e[2]]]
    if t in ("add", "mul"):
        return [t, expr_wire(e[1], leaves), expr_wire(e[2], leaves)]
    if t in ("sum", "prod"):
        out = expr_wire(e[2], leaves)
        for v in reversed(e[1]):
            out = [t, v, out]
        return out
    if t == "scat":
        return ["scat", e[1], e[2], list(e[3]), expr_wire(e[4], leaves)]
    if t == "cat":
        return ["cat", e[1], [[lid, dict(leaves[lid]["axes"])[e[1]]] for lid in e[2]]]
    raise ValueError(t)


def case_wire(case, expr=None):
    nvar = max([NGLOB] + [n + 1 for l in case["leaves"].values() for n, _ in l["axes"]])
    szl = [case["sz"].get(v, 1) for v in range(nvar)]
    leaves = []
    for lid in sorted(case["leaves"]):
        l = case["leaves"][lid]
        flat = [Fraction(x) for x in np.asarray(l["data"]).reshape(-1).tolist()]
        leaves.append([lid, [[n, s] for n, s in l["axes"]], flat])
    return f"C11 adjoint {sx(szl)} {sx(leaves)} {sx(expr_wire(expr if expr is not None else case['expr'], case['leaves']))}"


# ----------------------------------------------------------------------------------------------
# generator
# ----------------------------------------------------------------------------------------------

DATA_POOL = [0, 1, 1, 2, 3, Fraction(1, 2)]
DATA_POOL_NZ = [1, 1, 2, 3, Fraction(1, 2)]


def gen_data(rng, shape, nonzero=False):
    pool = DATA_POOL_NZ if nonzero else DATA_POOL
    n = int(np.prod(shape)) if shape else 1
    return np.array([float(rng.choice(pool)) for _ in range(n)], dtype=np.float64).reshape(shape)


def gen_access(rng, sz, axes, allow_subs=True, diagonal=False):
    """Random access (substitution) for a leaf with the given named axes.  With `diagonal`, substituted
    axes may read a variable that another axis of the same leaf already reads (directly or through its
    own substitution): L(x=z, y=z), L(x=y) with y a surviving axis."""
    ident = []
    for name, size in axes:
        can_id = name < NGLOB and sz[name] == size
        if can_id and (not allow_subs or rng.random() < 0.75):
            ident.append(name)
    used = set() if diagonal else set(ident)
    subs = []
    for name, size in axes:
        if name in ident:
            continue
        if not allow_subs:
            return None
        opts = []
        for v in range(NGLOB):
            if v == name or v in used:
                continue
            n = sz[v]
            if n == size:
                opts += [("var", v)] * 3
            for start in range(size):
                for step in (1, 2):
                    if ((start, step) != (0, 1) or n != size) and start + step * (n - 1) < size:
                        opts.append(("aff", v, start, step))
            if n <= size:
                perm = list(range(size))
                rng.shuffle(perm)
                opts.append(("tab", v, perm))
        for c in range(size):
            opts.append(("const", c))
        o = rng.choice(opts)
        if o[0] != "const" and not diagonal:
            used.add(o[1])
        subs.append((name, o))
    return subs


def gen_case(rng, tier="quick", stream="clean"):
    """One random case.  stream: "clean" (all side conditions of adjoint_sound hold) or the name of
    the side condition to violate (dedicated streams)."""
    for _ in range(2000):
        c = _gen_raw(rng, stream)
        if c is None:
            continue
        viol = violated(c, raw=True)
        if stream == "clean" and not (viol - FOLDED):
            return c
        if stream != "clean" and viol == {stream}:
            return c
    raise RuntimeError(f"generator could not produce a case for stream {stream}")


def _gen_raw(rng, stream):
    sz = {v: rng.choice([1, 2, 2, 3, 3]) for v in range(NGLOB)}
    nleaf = rng.choice([1, 2, 2, 3, 3, 3, 4, 4, 5])
    leaves = {}
    nodes = []
    priv = [NGLOB]

    def fresh():
        priv[0] += 1
        return priv[0] - 1

    def new_leaf(force_axes=None):
        lid = len(leaves)
        if force_axes is not None:
            axes = force_axes
        else:
            k = rng.choice([0, 1, 1, 2, 2, 2, 3])
            gl = rng.sample(range(NGLOB), min(k, NGLOB))
            axes = []
            for g in gl:
                if rng.random() < 0.7:
                    axes.append((g, sz[g]))
                else:
                    nm = fresh()
                    s = rng.choice([1, 2, 3, 3, 4])
                    sz[nm] = s
                    axes.append((nm, s))
        leaves[lid] = dict(axes=axes, data=None)
        return lid

    want_subs = stream in ("clean", "subs-free-var") and rng.random() < 0.6
    use_cat = stream in ("clean", "cat-part-name") and rng.random() < (0.25 if stream == "clean" else 1.0)
    cat_leaves = set()
    cat_ok = rng.random() < 0.5      # may Cat parts also be read elsewhere in the term?
    for i in range(nleaf):
        if use_cat and i == 0:
            # Cat over variable v: 2-4 parts drawn WITH repetition from a pool of 1-3 part leaves of
            # sizes 1-3 (the same Tensor object may occur twice, adjacent or not); sz[v] = total length
            v = rng.choice([g for g in range(NGLOB)])
            others = [(g, sz[g]) for g in rng.sample([g for g in range(NGLOB) if g != v], rng.choice([0, 0, 1]))]
            for _ in range(50):
                npool = rng.choice([1, 2, 2, 3])
                pool_sizes = [rng.choice([1, 1, 2, 3]) for _ in range(npool)]
                nparts = rng.choice([2, 2, 3, 3, 4])
                pick = [rng.randrange(npool) for _ in range(nparts)]
                if stream == "cat-part-name" or rng.random() < 0.4:
                    pick = list(range(npool)) if npool >= 2 else [0, 0]     # no repetition / minimal
                if sum(pool_sizes[k] for k in pick) <= 6:
                    break
            else:
                return None
            sz[v] = sum(pool_sizes[k] for k in pick)
            pool = {}
            cands = [g for g in range(NGLOB) if g != v]
            for k in sorted(set(pick)):
                oth = others
                if stream == "clean" and rng.random() < 0.35:
                    # ragged parts: this part has its own other axes (Cat broadcasts the smaller parts)
                    oth = [(g, sz[g]) for g in rng.sample(cands, rng.choice([0, 1, 1, 2]))]
                ax = [(v, pool_sizes[k])] + oth
                rng.shuffle(ax)
                pool[k] = new_leaf(force_axes=ax)
            cat_node = ("cat", v, [pool[k] for k in pick])
            nodes.append(cat_node)
            cat_leaves.update(pool.values())
            if stream == "clean" and rng.random() < 0.25:
                # the same leaves in a second Cat (same multiset of parts, shuffled)
                again = list(cat_node[2])
                rng.shuffle(again)
                nodes.append(("cat", v, again))
            continue
        reusable = [l for l in leaves if l not in cat_leaves or (stream == "clean" and cat_ok)]
        force_subs = False
        if reusable and rng.random() < (0.45 if cat_leaves and cat_ok else 0.25):
            lid = rng.choice(reusable)
            force_subs = lid in cat_leaves      # a Cat part elsewhere: its v-axis is shorter than v, so via Subs
        else:
            lid = new_leaf()
        if force_subs:
            acc = gen_access(rng, sz, leaves[lid]["axes"], allow_subs=True)
            if acc is None:
                return None
            nodes.append(("acc", lid, acc))
            continue
        acc = gen_access(rng, sz, leaves[lid]["axes"], allow_subs=want_subs,
                         diagonal=(want_subs and rng.random() < 0.35))
        if acc is None:
            return None
        nodes.append(("acc", lid, acc))

    def fv(e):
        return free_vars(e, leaves)

    def maybe_reduce(e, p):
        f = sorted(fv(e))
        if stream == "reduce-absent" and rng.random() < 0.3:
            f = sorted(set(f) | {rng.randrange(NGLOB)})
        if f and rng.random() < p:
            k = rng.randint(1, len(f))
            vs = sorted(rng.sample(f, k))
            kind = "prod" if (stream in ("clean", "plate-zero") and rng.random() < (0.12 if stream == "clean" else 0.6)) else "sum"
            return (kind, vs, e)
        return e

    while len(nodes) > 1:
        i, j = rng.sample(range(len(nodes)), 2)
        a, b = nodes[i], nodes[j]
        p_add = {"clean": 0.25, "add-broadcast": 0.6}.get(stream, 0.1)
        op = "add" if rng.random() < p_add else "mul"
        if op == "add" and stream == "clean" and "add-broadcast" not in FOLDED and fv(a) != fv(b):
            op = "mul"
        new = maybe_reduce((op, a, b), 0.35)
        nodes = [n for t, n in enumerate(nodes) if t not in (i, j)] + [new]
    root = nodes[0]
    f = sorted(fv(root))
    r = rng.random()
    if f:
        if r < 0.6:
            root = ("sum", f, root)
        elif r < 0.85:
            vs = sorted(rng.sample(f, rng.randint(1, len(f))))
            root = ("sum", vs, root)
    # data: leaves under a product-reduce must be nowhere zero in the clean stream
    under = set()

    def mark(e, inside):
        t = e[0]
        if t == "acc":
            if inside:
                under.add(e[1])
        elif t == "cat":
            if inside:
                under.update(e[2])
        elif t in ("add", "mul"):
            mark(e[1], inside)
            mark(e[2], inside)
        else:
            mark(e[2], inside or t == "prod")
    mark(root, False)
    for lid, l in leaves.items():
        shape = tuple(s for _, s in l["axes"])
        l["data"] = gen_data(rng, shape, nonzero=(lid in under and stream != "plate-zero"
                                                  and not (stream == "clean" and "plate-zero" in FOLDED)))
    if stream == "plate-zero" and under:
        lid = rng.choice(sorted(under))
        d = leaves[lid]["data"]
        if d.size:
            flat = d.reshape(-1)
            flat[rng.randrange(flat.size)] = 0.0
    sr = rng.choice(["add-mul", "add-mul", "logaddexp-add"])
    opt = rng.choice([None, None, "tape", "lazy"])
    case = dict(sz=sz, leaves=leaves, expr=root, sr=sr, opt=opt)
    if stream == "cat-part-name" or (stream == "clean" and "cat-part-name" in FOLDED and rng.random() < 0.5
                                     and any(t[0] == "cat" for t in subterms(root))):
        case["cat_part_name"] = "p"
    return case


def subterms(e):
    yield e
    if e[0] in ("add", "mul"):
        yield from subterms(e[1])
        yield from subterms(e[2])
    elif e[0] in ("sum", "prod"):
        yield from subterms(e[2])
    elif e[0] == "scat":
        yield from subterms(e[4])


# Regions (dedicated-stream names) folded into the clean stream: permanently once the corresponding
# fix: commit is in /repo, temporarily through C11_FOLD=a,b when validating a candidate patch.
FIXED_IN_REPO = {                      # region -> /repo fix: commit (funsor/adjoint.py)
    "cat-part-name": "e4f2934", "add-broadcast": "1a4c2b1", "subs-free-var": "2224a5a",
    "tape-key-collision": "d732c46", "binder-free-clash": "974fa44 (declines)",
    "opt-rebinding": "2ff5c06 (declines)", "cat-ragged": "a13826d",
}
FOLDED = set(FIXED_IN_REPO) | set(filter(None, os.environ.get("C11_FOLD", "").split(",")))


def violated(case, raw=False):
    """Side conditions the case violates.  raw=True: all of them (what the Lean `Good` and the pinned
    implementation need); raw=False: minus the regions folded into the clean stream."""
    out = _violated(case)
    return out if raw else out - FOLDED


def _violated(case):
    """Set of side conditions of `adjoint_sound` (Props/C11.lean: `Good`) that the case violates."""
    leaves = case["leaves"]
    root = case["expr"]
    F = free_vars(root, leaves)
    out = set()
    has_zero_under_prod = [False]

    def zero_somewhere(e):
        orc = Oracle(case)
        f = sorted(free_vars(e, leaves))
        for pt in itertools.product(*[range(case["sz"][v]) for v in f]):
            if orc.ev(e, dict(zip(f, pt)))[0] == 0:
                return True
        return False

    for e in subterms(root):
        t = e[0]
        if t == "add":
            if free_vars(e[1], leaves) | F != free_vars(e[2], leaves) | F:
                out.add("add-broadcast")
        elif t in ("sum", "prod"):
            body = free_vars(e[2], leaves)
            for v in e[1]:
                if v not in body:
                    out.add("reduce-absent")
                if v in F:
                    out.add("binder-free-clash")
            if t == "prod" and zero_somewhere(e[2]):
                out.add("plate-zero")
        elif t == "acc":
            if e[2]:
                keys = {k for k, _ in e[2]}
                ident = {n for n, _ in leaves[e[1]]["axes"]} - keys
                vals = {ix[1] for _, ix in e[2] if ix[0] != "const"}
                if F & (vals | keys):
                    # a free input of the root used as a substitution value (or named like a substituted
                    # axis): funsor's convention (test_adjoint_subs_tensor_rename) treats the substitution as
                    # a renaming and sums the value's inputs inside Scatter, i.e. the returned adjoint is
                    # already marginalised over that root input — not comparable under the batch reading
                    out.add("subs-free-value")
                elif not F <= ident:
                    out.add("subs-free-var")
                # (diagonal reads — two axes reading one variable, or a variable that is also a direct axis —
                #  are part of the clean stream since Tensor.eager_subs takes the diagonal, /repo d536389)
                if all(ix[0] == "var" for _, ix in e[2]) and len({ix[1] for _, ix in e[2]}) == len(e[2]) \
                        and {ix[1] for _, ix in e[2]} & ident:
                    # pure renaming onto a variable that is also a surviving axis of the same leaf: when the
                    # adjoint reaching the Subs node is an exact Number, eager_scatter_number's "injective
                    # renaming" shortcut returns it unchanged although the variable is not reduced
                    out.add("scatter-number-shortcut")
        elif t == "scat":
            body = free_vars(e[4], leaves)
            tab_ = e[3][:case["sz"][e[2]]]
            if e[1] in body or e[1] in F or e[2] not in body or e[2] in F or e[1] == e[2] \
                    or len(set(tab_)) != len(tab_) or any(x >= case["sz"][e[1]] for x in tab_):
                out.add("scatter-ill-posed")      # outside `Good`; eager Scatter is injective-only
        elif t == "cat":
            if case.get("cat_part_name") is not None:
                out.add("cat-part-name")
            if len({frozenset(n for n, _ in leaves[l]["axes"]) for l in e[2]}) > 1:
                # parts with different inputs: Cat broadcasts the smaller ones, adjoint_cat does not expand
                out.add("cat-ragged")
    bound = [v for e in subterms(root) if e[0] in ("sum", "prod") for v in e[1]]
    rebound = {v for v in bound if bound.count(v) > 1}
    if case.get("opt") and rebound:
        out.add("opt-rebinding")
    if case.get("opt"):
        # the same hash-consed Reduce twice under the optimizer: KF-shared-binder-unfold (C02/C05/C08) makes
        # the *forward* value wrong — not this property's region, never folded
        reds = [repr(e) for e in subterms(root) if e[0] in ("sum", "prod")]
        if len(reds) != len(set(reds)):
            out.add("shared-binder")
    # the same pure renaming of the same leaf under two different binders of one name: the two Subs
    # nodes have the same un-mangled eager value (renaming shares the data array) = the same tape key
    ren = [(e[1], tuple(e[2])) for e in subterms(root)
           if e[0] == "acc" and e[2] and all(ix[0] == "var" for _, ix in e[2])]
    for a in set(ren):
        if ren.count(a) > 1 and free_vars(("acc", a[0], list(a[1])), leaves) & rebound:
            out.add("tape-key-collision")
    return out


def good(case):
    return not violated(case)


# ----------------------------------------------------------------------------------------------
# comparison
# ----------------------------------------------------------------------------------------------

TOL = 1e-9
_same_num = same_num


def same_num(a, b, tol=0.0):
    """fv.futil.same_num, except that beyond 2**50 float64 is no longer exact on the integers that
    deep product-reductions produce: there (and only there) a relative 1e-12 is allowed."""
    if not tol and not isinstance(a, float) and not isinstance(b, float) and max(abs(a), abs(b)) > 2 ** 50:
        return abs(a - b) <= 1e-12 * max(abs(a), abs(b))
    return _same_num(a, b, tol)


def jsonable(case):
    return dict(sz={str(k): v for k, v in case["sz"].items()},
                leaves={str(k): dict(axes=[list(a) for a in l["axes"]], data=np.asarray(l["data"]).tolist())
                        for k, l in case["leaves"].items()},
                expr=repr(case["expr"]), sr=case["sr"], opt=case.get("opt"),
                cat_part_name=case.get("cat_part_name"))


def case_from_json(doc):
    leaves = {int(k): dict(axes=[tuple(a) for a in l["axes"]],
                           data=np.array(l["data"], dtype=np.float64).reshape(tuple(a[1] for a in l["axes"])))
              for k, l in doc["leaves"].items()}
    c = dict(sz={int(k): v for k, v in doc["sz"].items()}, leaves=leaves,
             expr=eval(doc["expr"], {"__builtins__": {}}), sr=doc["sr"], opt=doc.get("opt"))
    if doc.get("cat_part_name"):
        c["cat_part_name"] = doc["cat_part_name"]
    return c


def marginal_table(g, axes, F, sz, sr):
    """The adjoint funsor `g` marginalised onto the leaf's own axes: broadcast over the root's free
    variables the leaf lacks, then summed over them.  -> {index tuple: exact number}"""
    names = [n for n, _ in axes]
    order = list(axes) + [(v, sz[v]) for v in F if v not in names]
    t = lin_table(g, order, sr)
    if t is None:
        return None
    out = {}
    rest = [range(n) for _, n in order[len(axes):]]
    for idx in itertools.product(*[range(s) for _, s in axes]):
        tot = Fraction(0)
        special = None
        for r in itertools.product(*rest):
            x = exact(t[idx + r])
            if isinstance(x, float):
                special = x if special is None else special + x
            else:
                tot += x
        out[idx] = special if special is not None else tot
    return out


def py_snippet(case, lid, idx, want):
    """Self-contained reproduction (runs against whatever funsor is importable)."""
    return f"""
import sys, itertools
sys.path.insert(0, "/verif")
from fractions import Fraction
from fv.harness import c11
case = c11.case_from_json({jsonable(case)!r})
r = c11.run_impl(case)
assert r["status"] == "value", r
F = sorted(c11.free_vars(case["expr"], case["leaves"]))
if case.get("opt"):
    case2, keys = c11.case_from_lazy(case, r)
else:
    case2, keys = case, r["leaves"]
got = c11.marginal_table(r["bwd"][keys[{lid}]], case2["leaves"][{lid}]["axes"], F, case2["sz"], case["sr"])[{idx!r}]
want = Fraction({str(want)!r})
print("adjoint of leaf {lid} at {idx}: funsor", float(got), " derivative", float(want))
FAILS = not c11.same_num(got, want, 1e-9)
"""


def py_snippet_direct(case, lid, idx, want):
    """Reproduction for a leaf the term reads only directly (looked up by the original tensor)."""
    return f"""
import sys
sys.path.insert(0, "/verif")
from fractions import Fraction
from fv.harness import c11
case = c11.case_from_json({jsonable(case)!r})
r = c11.run_impl(case)
assert r["status"] == "value", r
F = sorted(c11.free_vars(case["expr"], case["leaves"]))
got = c11.marginal_table(r["bwd"][r["leaves"][{lid}]], case["leaves"][{lid}]["axes"], F, case["sz"], case["sr"])[{idx!r}]
want = Fraction({str(want)!r})
print("adjoint of leaf {lid} at {idx}: funsor", float(got), " derivative", float(want))
FAILS = not c11.same_num(got, want, 1e-9)
"""


def check_case(ctx, case, use_driver=True, gate=True, label="clean"):
    """Run one case.  Returns a dict describing what was seen:
       status: declined | beyond | ok | wrong;  wrong carries (lid, idx, want, got, model_fs)."""
    sr = case["sr"]
    # exact in (add, mul) — except below a product-reduce, where numpy's safediv multiplies by the
    # rounded reciprocal (x * (1/3) can be one ulp off an exactly representable quotient)
    has_plate = any(t[0] == "prod" for t in subterms(case["expr"]))
    tol = TOL if (sr == "logaddexp-add" or has_plate) else 0.0
    ctx.count(f"{label}:sr:{sr}")
    ctx.count(f"{label}:opt:{case.get('opt')}")
    r = run_impl(case)
    if r["status"] == "declined":
        ctx.count(f"{label}:declined:{r['why']}")
        return dict(status="declined")
    orc = Oracle(case)
    F, fwd, grads = orc.run(case["expr"])
    sz = case["sz"]
    # 1. forward value = ordinary evaluation
    try:
        ft = lin_table(r["fwd"], [(v, sz[v]) for v in F], sr)
    except (KeyError, ValueError) as e:
        if gate:
            ctx.fail("input", "C11.forward-inputs", witness=jsonable(case), expected=f"inputs {F}", got=str(e))
        return dict(status="wrong", what="forward-inputs")
    if ft is None:
        ctx.count(f"{label}:declined:lazy-forward")
        return dict(status="declined")
    for pt, v in fwd.items():
        if not same_num(exact(ft[pt]), v, tol):
            if gate:
                ctx.fail("input", "C11.forward-ne-eval", witness=jsonable(case), expected=str(v), got=str(exact(ft[pt])),
                         python=py_snippet(case, 0, (), 0))
            return dict(status="wrong", what="forward")
    # 2. which term was differentiated
    if case.get("opt"):
        try:
            case2, keys = case_from_lazy(case, r)
        except Beyond as e:
            ctx.count(f"{label}:beyond-model:{str(e).split('__BOUND')[0]}")
            # the optimizer's output cannot be re-read into the model's syntax (e.g. nested binders with one
            # base name).  Leaves that the original term only reads directly are still leaves of that output
            # (same hash-consed tensor): their adjoints must be the derivatives of the original term.
            direct = {lid for lid in case["leaves"]
                      if all(not t[2] for t in subterms(case["expr"]) if t[0] == "acc" and t[1] == lid)
                      and not any(t[0] == "cat" and lid in t[2] for t in subterms(case["expr"]))}
            for lid in sorted(direct):
                axes = case["leaves"][lid]["axes"]
                try:
                    got = marginal_table(r["bwd"][r["leaves"][lid]], axes, F, sz, sr)
                except (KeyError, ValueError):
                    return dict(status="wrong", what="adjoint-inputs")
                if got is None:
                    continue
                for idx in itertools.product(*[range(s_) for _, s_ in axes]):
                    w = grads[lid].get(idx, Fraction(0))
                    if not same_num(got[idx], w, tol):
                        if gate:
                            ctx.fail("input", "C11.adjoint-ne-derivative",
                                     witness=dict(case=jsonable(case), leaf=lid, index=list(idx)),
                                     expected=str(w), got=str(got[idx]), python=py_snippet_direct(case, lid, idx, w))
                        return dict(status="wrong", what="adjoint", lid=lid, idx=idx, want=w, got=got[idx], model_fs=None)
                ctx.count(f"{label}:beyond-model:direct-leaf-compared")
            return dict(status="beyond")
        v2 = violated(case2) - {"opt-rebinding"}
        if v2:
            ctx.count(f"{label}:optimizer-output-outside-fragment:{','.join(sorted(v2))}")
            return dict(status="beyond")
        F2, fwd2, grads = Oracle(case2).run(case2["expr"])
        if F2 != F or any(not same_num(fwd2[k], fwd[k], 1e-12) for k in fwd):
            # the optimizer changed the value of the term (C08's business) — the forward check above
            # already compared the implementation with the original term
            ctx.count(f"{label}:optimizer-output-different-value")
            return dict(status="beyond")
        ctx.count(f"{label}:optimizer-output-modelled")
    else:
        case2, keys = case, r["leaves"]
    sz2 = case2["sz"]
    # regions the tree-shaped Lean model is indifferent to (they concern the tape's keys / names)
    lean_good = not (violated(case2, raw=True) - {"opt-rebinding", "cat-part-name", "tape-key-collision",
                                                   "add-broadcast", "subs-free-var", "shared-binder", "cat-ragged"})
    # 3. the Lean model and spec on the same term
    model = None
    if use_driver:
        ans = ctx.driver.ask([case_wire(case2)])[0]
        if not ans.startswith("ok "):
            ctx.infra_errors.append(f"driver answered {ans!r} for {case_wire(case2)[:400]}")
            return dict(status="infra")
        mF, mfwd, mleaves, mtrace = parse_sx(ans[3:])
        model = {}
        if [int(x) for x in mF] != F or [atom_to_num(x) for x in mfwd] != [fwd[k] for k in fwd]:
            ctx.infra_errors.append(f"Lean eval disagrees with the Python oracle on {case_wire(case2)[:400]}")
            return dict(status="infra")
        for lf in mleaves:
            _, lid, gv, gtab, fs, dv, ts, ds = lf
            if not all(same_num(a_, b_) for a_, b_ in zip([atom_to_num(x) for x in ds], [atom_to_num(x) for x in fs])):
                # run-time echo of dag_eq_tree_unfolding: DAG sweep (shared nodes accumulate) = tree sweep
                ctx.infra_errors.append(f"Lean DAG sweep disagrees with tree-shaped backward on {case_wire(case2)[:400]}")
                return dict(status="infra")
            model[int(lid)] = dict(gv=[int(x) for x in gv], gtab=[atom_to_num(x) for x in gtab],
                                   fs=[atom_to_num(x) for x in fs], dv=[atom_to_num(x) for x in dv],
                                   ts=[atom_to_num(x) for x in ts])
            # run-time echo of tape_sweep_eq_tree_backward for the concrete rules: the sweep over the
            # hash-consed tape and the tree-shaped `backward` give the same marginal
            if not all(same_num(a_, b_) for a_, b_ in zip(model[int(lid)]["ts"], model[int(lid)]["fs"])):
                ctx.infra_errors.append(f"Lean tape sweep disagrees with tree-shaped backward on {case_wire(case2)[:400]}")
                return dict(status="infra")
            ctx.count(f"{label}:lean-tape-sweep-eq-tree")
    if use_driver and not case.get("opt") and r.get("tape_kinds") is not None:
        bad = compare_trace(ctx, case, r, mtrace, F, sz, sr, tol, label)
        if bad is not None:
            if gate:
                ctx.fail("input", "C11.dag-trace", witness=dict(case=jsonable(case), node=bad["node"]),
                         expected=str(bad["want"]), got=str(bad["got"]))
            return dict(status="wrong", what="dag-trace")
    # 4. adjoints
    worst = None
    for lid, key in keys.items():
        axes = case2["leaves"][lid]["axes"]
        names = [n for n, _ in axes]
        pts = list(itertools.product(*[range(s) for _, s in axes]))
        want = [grads[lid].get(idx, Fraction(0)) for idx in pts]
        if model is not None:
            m = model[lid]
            if not all(same_num(a, b) for a, b in zip(m["dv"], want)):
                ctx.infra_errors.append(f"Lean spec `deriv` disagrees with the Python oracle on {case_wire(case2)[:400]}")
                return dict(status="infra")
            if gate and lean_good and not all(same_num(a, b) for a, b in zip(m["fs"], m["dv"])):
                # run-time echo of adjoint_sound on an input that satisfies its hypotheses
                ctx.infra_errors.append(f"Lean model `backward` disagrees with its spec on a Good input: {case_wire(case2)[:400]}")
                return dict(status="infra")
        g = r["bwd"][key]
        pn = case.get("cat_part_name")
        if pn is not None and isinstance(g, Tensor) and pn in g.inputs:
            cv = [t[1] for t in subterms(case["expr"]) if t[0] == "cat" and lid in t[2]]
            if cv and vname(cv[0]) not in g.inputs:
                g = g(**{pn: vname(cv[0])})
        try:
            ids = input_ids(g)
            bad_inputs = not set(ids) <= set(names) | set(F)
        except KeyError as e:
            ids, bad_inputs = str(e), True
        if bad_inputs:
            if gate:
                ctx.fail("input", "C11.adjoint-inputs", witness=jsonable(case),
                         expected=f"subset of leaf axes {names} + root inputs {F}", got=str(ids))
            return dict(status="wrong", what="adjoint-inputs")
        try:
            got = marginal_table(g, axes, F, sz2, sr)
        except (KeyError, ValueError) as e:
            if gate:
                ctx.fail("input", "C11.adjoint-inputs", witness=jsonable(case), expected="sizes of leaf axes / root inputs", got=str(e))
            return dict(status="wrong", what="adjoint-inputs")
        if got is None:
            ctx.count(f"{label}:declined:lazy-adjoint")
            return dict(status="declined")
        if model is not None:
            ctx.count(f"{label}:fidelity:adjoint-inputs-" + ("same" if sorted(ids) == model[lid]["gv"] else "differ"))
        for k, idx in enumerate(pts):
            if not same_num(got[idx], want[k], tol):
                worst = dict(status="wrong", what="adjoint", lid=lid, idx=idx, want=want[k], got=got[idx],
                             model_fs=(model[lid]["fs"][k] if model is not None else None), case2=case2)
                break
        if worst:
            break
        if model is not None:
            ok_m = all(same_num(got[idx], model[lid]["fs"][k], tol) for k, idx in enumerate(pts))
            ctx.count(f"{label}:fidelity:marginal-" + ("same" if ok_m else "differ"))
    if worst:
        if gate:
            ctx.fail("input", "C11.adjoint-ne-derivative", witness=dict(case=jsonable(case), leaf=worst["lid"], index=list(worst["idx"])),
                     expected=str(worst["want"]), got=str(worst["got"]),
                     python=py_snippet(case, worst["lid"], worst["idx"], worst["want"]))
        return worst
    return dict(status="ok", nleaves=len(keys), F=F)


def wire_nodes(w, acc):
    """Distinct non-leaf sub-terms of a wire expression, children first — the recording order of the DAG
    model (Tape.nodes / Dag.ofExpr)."""
    t = w[0]
    key = sx(w)
    if t == "acc":
        if w[2] and key not in acc:
            acc.append(key)
        return acc
    if t in ("add", "mul"):
        wire_nodes(w[1], acc)
        wire_nodes(w[2], acc)
    elif t in ("sum", "prod"):
        wire_nodes(w[2], acc)
    elif t == "scat":
        wire_nodes(w[4], acc)
    if key not in acc:
        acc.append(key)
    return acc


KIND = {"scat": "Scatter", "acc": "Subs", "add": "Binary", "mul": "Binary", "sum": "Reduce", "prod": "Reduce", "cat": "Cat"}


def compare_trace(ctx, case, r, mtrace, F, sz, sr, tol, label):
    """The DAG model's trace against the real tape: how many entries of which kind are recorded (a shared
    sub-term once), the order of pops, and the adjoint accumulated at every node when it is popped
    (funsor: `bwd[lazy node]`).  Returns a description of the first wrong accumulated value, or None."""
    order = wire_nodes(expr_wire(case["expr"], case["leaves"]), [])
    lazy_of = r["lazy_of"]
    mine = [k for k in order if k in lazy_of]            # the inner binders of a nested multi-variable reduce
    kinds_model = [KIND[parse_sx(k)[0]] for k in mine]   # have no tape entry of their own
    ctx.count(f"{label}:dag:nodes:{min(len(mine), 8)}")
    occ = {}
    def count_occ(w):
        occ[sx(w)] = occ.get(sx(w), 0) + 1
        if w[0] in ("add", "mul"):
            count_occ(w[1]); count_occ(w[2])
        elif w[0] in ("sum", "prod"):
            count_occ(w[2])
        elif w[0] == "scat":
            count_occ(w[4])
    count_occ(expr_wire(case["expr"], case["leaves"]))
    shared = [k for k in mine if occ.get(k, 0) > 1]
    ctx.count(f"{label}:dag:shared-nodes:{min(len(shared), 3)}")
    ctx.count(f"{label}:dag:entry-count-" + ("same" if sorted(kinds_model) == sorted(r["tape_kinds"]) else "differ"))
    ctx.count(f"{label}:dag:pop-order-" + ("same" if kinds_model == list(r["tape_kinds"]) else "differ"))
    for item in mtrace:
        pos, vars_, tab = int(item[0]), [int(v) for v in item[1]], [atom_to_num(x) for x in item[2]]
        key = order[pos] if pos < len(order) else None
        lz = lazy_of.get(key)
        if lz is None:
            continue
        if lz not in r["bwd"]:
            ctx.count(f"{label}:dag:node-adjoint-not-reported")
            continue
        try:
            t = lin_table(r["bwd"][lz], [(v, sz[v]) for v in vars_], sr)
        except (KeyError, ValueError):
            ctx.count(f"{label}:dag:node-adjoint-other-inputs")
            continue
        if t is None:
            continue
        got = [exact(x) for x in np.asarray(t).reshape(-1)]
        if len(got) != len(tab) or not all(same_num(g, w, tol) for g, w in zip(got, tab)):
            ctx.count(f"{label}:dag:accumulated-differ" + (":shared" if key in shared else ""))
            return dict(node=key, want=tab, got=got)
        ctx.count(f"{label}:dag:accumulated-same" + (":shared" if key in shared else ""))
    return None


def shape_key(case):
    return (repr(case["expr"]), tuple(sorted(case["sz"].items())), case["sr"], case.get("opt"),
            tuple((k, tuple(l["axes"]), np.asarray(l["data"]).tobytes()) for k, l in sorted(case["leaves"].items())))


def count_shape(ctx, case, label):
    e = case["expr"]
    kinds = [t[0] for t in subterms(e)]
    nocc = sum(1 for t in subterms(e) if t[0] == "acc") + sum(len(t[2]) for t in subterms(e) if t[0] == "cat")
    ctx.count(f"{label}:leaf-occurrences:{min(nocc, 6)}")
    ctx.count(f"{label}:leaves:{len(case['leaves'])}")
    for k in ("add", "mul", "sum", "prod", "cat"):
        if k in kinds:
            ctx.count(f"{label}:has:{k}")
    if any(t[0] == "acc" and t[2] for t in subterms(e)):
        for t in subterms(e):
            if t[0] == "acc":
                for _, ix in t[2]:
                    ctx.count(f"{label}:subs:{ix[0]}")
    ctx.count(f"{label}:root-free-vars:{len(free_vars(e, case['leaves']))}")
    return nocc


# ----------------------------------------------------------------------------------------------
# dedicated streams (one per region where the reverse sweep is wrong on the pinned tree)
# ----------------------------------------------------------------------------------------------

FINDINGS = {
    "plate-zero": ("KF-adjoint-plate-zero",
                   "adjoint_reduce plate branch: adjoint of a product-reduced plate is 0 instead of the product of "
                   "the other entries where the entry itself is 0 (safediv turns 0/0 into 0)"),
    "scatter-number-shortcut": ("KF-adjoint-scatter-number-shortcut",
                                "tensor.eager_scatter_number returns the source for any injective all-Variable substitution, "
                                "also when the renamed-to variable is not in reduced_vars (it survives as an axis of the "
                                "leaf): L(x='a') with L over (x, a), root = trace = L(x='a').reduce(add,'a'): the adjoint of L "
                                "is all ones instead of the identity"),
}


def report_finding(ctx, stream, reproduced, example):
    fid, what = FINDINGS[stream]
    if ctx.known(fid, reproduced=reproduced, what=what + (f"  [example: {example}]" if example else "")):
        return
    # not (yet) listed in known_findings.json: never hide it, never let it fail the clean gate either —
    # it is outside the hypotheses of adjoint_sound and reported for triage
    ctx.extra.setdefault("unlisted_findings", []).append(
        dict(id=fid, stream=stream, reproduced=bool(reproduced), what=what, example=example))
    ctx.count(f"unlisted-finding:{fid}:{'reproduced' if reproduced else 'not-reproduced'}")
    print(f"NOTE: property=C11 unlisted finding candidate {fid} "
          f"{'reproduced' if reproduced else 'did NOT reproduce'} (outside the hypotheses of adjoint_sound): {what}")


def canonical_plate_zero():
    d = np.array([[1., 0., 3.], [4., 5., 6.]])
    return dict(sz={0: 2, 1: 3, 2: 1, 3: 1}, leaves={0: dict(axes=[(0, 2), (1, 3)], data=d)},
                expr=("sum", [0], ("prod", [1], ("acc", 0, []))), sr="add-mul", opt=None)


def gen_collision(rng):
    """(sum_k x(i=k) y(k)) ⊗ (sum_k x(i=k) z(k)) with random sizes/data (i a private axis name)."""
    n = rng.choice([1, 2, 3])
    k = rng.randrange(NGLOB)
    sz = {v: rng.choice([1, 2, 3]) for v in range(NGLOB)}
    sz[k] = n
    sz[4] = n
    leaves = {0: dict(axes=[(4, n)], data=gen_data(rng, (n,))),
              1: dict(axes=[(k, n)], data=gen_data(rng, (n,))),
              2: dict(axes=[(k, n)], data=gen_data(rng, (n,)))}
    x = ("acc", 0, [(4, ("var", k))])
    e = ("mul", ("sum", [k], ("mul", x, ("acc", 1, []))), ("sum", [k], ("mul", x, ("acc", 2, []))))
    return dict(sz=sz, leaves=leaves, expr=e, sr=rng.choice(["add-mul", "logaddexp-add"]), opt=None)


def dedicated(ctx, stream, n):
    found = None
    tried = 0
    cases = []
    if stream == "plate-zero":
        cases.append(canonical_plate_zero())
    for _ in range(n):
        if stream == "tape-key-collision":
            cases.append(gen_collision(ctx.rng))
            continue
        if stream == "scatter-number-shortcut":
            n_ = ctx.rng.choice([2, 3])
            a_ = ctx.rng.randrange(NGLOB)
            sz_ = {v: 1 for v in range(NGLOB)}
            sz_[a_] = n_
            sz_[4] = n_
            cases.append(dict(sz=sz_, leaves={0: dict(axes=[(4, n_), (a_, n_)], data=gen_data(ctx.rng, (n_, n_)))},
                              expr=("sum", [a_], ("acc", 0, [(4, ("var", a_))])),
                              sr=ctx.rng.choice(["add-mul", "logaddexp-add"]), opt=None))
            continue
        try:
            c = gen_case(ctx.rng, ctx.tier, stream=stream)
        except RuntimeError:
            ctx.count(f"{stream}:generator-gave-up")
            break
        if stream != "opt-rebinding":
            c["opt"] = None
        elif not c.get("opt"):
            c["opt"] = "tape"
        cases.append(c)
    for c in cases:
        tried += 1
        res = check_case(ctx, c, use_driver=ctx.driver.available(), gate=False, label=stream)
        ctx.count(f"{stream}:{res['status']}")
        if res["status"] == "wrong" and res.get("what") == "adjoint":
            agrees = res.get("model_fs") is not None and same_num(res["got"], res["model_fs"], TOL)
            ctx.count(f"{stream}:wrong-value-" + ("predicted-by-model" if agrees else "not-predicted-by-model"))
            if found is None:
                found = dict(case=jsonable(c), leaf=res["lid"], index=list(res["idx"]),
                             derivative=str(res["want"]), funsor=str(res["got"]), lean_model=str(res["model_fs"]))
    report_finding(ctx, stream, found is not None, found)
    return found


# ----------------------------------------------------------------------------------------------
# entry points
# ----------------------------------------------------------------------------------------------

def exhaustive_small(ctx):
    """Every bracketing/reduction placement of 2 factors over 2 variables of size 2 (a fixed small space)."""
    rng = ctx.rng
    sz = {0: 2, 1: 2, 2: 1, 3: 1}
    axes_opts = [[], [(0, 2)], [(1, 2)], [(0, 2), (1, 2)], [(1, 2), (0, 2)]]
    n = 0
    for ax0 in axes_opts:
        for ax1 in axes_opts:
            for op in ("mul", "add"):
                for inner in ([], [0], [1], [0, 1]):
                    for outer in ([], [0], [1], [0, 1]):
                        for sr in ("add-mul", "logaddexp-add"):
                            leaves = {0: dict(axes=ax0, data=gen_data(rng, tuple(s for _, s in ax0))),
                                      1: dict(axes=ax1, data=gen_data(rng, tuple(s for _, s in ax1)))}
                            e = (op, ("acc", 0, []), ("acc", 1, []))
                            if inner:
                                e = ("sum", inner, ("mul", e, ("acc", 0, [])))
                            if outer:
                                e = ("sum", outer, e)
                            c = dict(sz=dict(sz), leaves=leaves, expr=e, sr=sr, opt=None)
                            try:
                                if violated(c):
                                    continue
                            except KeyError:
                                continue
                            res = check_case(ctx, c, label="small")
                            n += 1
                            ctx.case(nontrivial_key=shape_key(c) if res["status"] == "ok" and (inner or outer) else None)
    return n


def aliasing_cases(rng):
    """Every place where the tape or a rule could key a dict/set by a (hash-consed) term gets its aliasing
    case: the same object twice as operand of one node, twice among the parts of a Cat, shared as a
    sub-term by two parents, inside a Cat and elsewhere.  Random sizes/data, both semirings, all modes."""
    t, o = 0, 1                       # the concatenated / reduced variable and a second one
    out = []
    for sr in ("add-mul", "logaddexp-add"):
        for opt in (None, "tape", "lazy"):
            n = rng.choice([1, 2, 3])
            m = rng.choice([1, 2, 3])
            k = rng.choice([1, 2, 3])
            x = ("acc", 0, [])
            y = ("acc", 1, [])
            w = ("acc", 2, [])

            def mk(expr, axes, sz):
                leaves = {lid: dict(axes=ax, data=gen_data(rng, tuple(s_ for _, s_ in ax))) for lid, ax in axes.items()}
                full = {0: 1, 1: 1, 2: 1, 3: 1}
                full.update(sz)
                for ax in axes.values():
                    for nm, s_ in ax:
                        full.setdefault(nm, s_)
                return dict(sz=full, leaves=leaves, expr=expr, sr=sr, opt=opt)

            same = {0: [(t, n), (o, m)], 1: [(t, n), (o, m)], 2: [(t, n), (o, m)]}
            szs = {t: n, o: m}
            # the same operand twice in one Binary; a shared Binary / Reduce / Subs node under two parents
            out.append(mk(("sum", [t, o], ("mul", x, x)), {0: same[0]}, szs))
            out.append(mk(("sum", [t, o], ("add", x, x)), {0: same[0]}, szs))
            out.append(mk(("sum", [t], ("mul", ("mul", x, x), y)), {0: same[0], 1: same[1]}, szs))
            out.append(mk(("sum", [t, o], ("add", ("mul", x, y), ("mul", x, y))), {0: same[0], 1: same[1]}, szs))
            out.append(mk(("sum", [t, o], ("mul", ("mul", x, y), ("mul", x, y))), {0: same[0], 1: same[1]}, szs))
            out.append(mk(("sum", [o], ("mul", ("add", x, y), ("add", x, y))), {0: same[0], 1: same[1]}, szs))
            if opt is None:
                s_ = ("sum", [t], ("mul", x, y))
                out.append(mk(("sum", [o], ("mul", s_, s_)), {0: same[0], 1: same[1]}, szs))
                out.append(mk(("sum", [o], ("add", s_, s_)), {0: same[0], 1: same[1]}, szs))
                pl = ("prod", [t], x)
                c = mk(("sum", [o], ("mul", pl, pl)), {0: same[0]}, szs)
                c["leaves"][0]["data"] = gen_data(rng, (n, m), nonzero=True)
                out.append(c)
            for dn in (2, 3):
                dg = ("acc", 0, [(4, ("var", t)), (5, ("var", t))])
                dax = {0: [(4, dn), (5, dn)]}
                out.append(mk(("sum", [t], dg), dax, {t: dn}))                       # trace: Number upstream
                out.append(mk(dg, dax, {t: dn}))                                     # bare diagonal read, free t
                out.append(mk(("sum", [t], ("mul", dg, ("acc", 1, []))), {0: dax[0], 1: [(t, dn)]}, {t: dn}))
                out.append(mk(("sum", [t], ("mul", dg, dg)), dax, {t: dn}))
                dg3 = ("acc", 0, [(4, ("var", t)), (5, ("var", t)), (6, ("var", t))])
                out.append(mk(("sum", [t], dg3), {0: [(4, dn), (5, dn), (6, dn)]}, {t: dn}))
                dgi = ("acc", 0, [(4, ("var", t))])                                   # L(x4 = t) with t a surviving axis
                out.append(mk(("sum", [t], dgi), {0: [(4, dn), (t, dn)]}, {t: dn}))
                dgs = ("acc", 0, [(4, ("var", t)), (5, ("aff", t, 0, 1))])           # renaming + full slice, same variable
                out.append(mk(("sum", [t], dgs), dax, {t: dn}))
            # ragged Cat parts: x(t) next to z(t,o) — bare, multiplied, repeated, with a third axis
            for parts, axes in (([0, 1], {0: [(t, n)], 1: [(t, k), (o, m)]}),
                                ([1, 0], {0: [(t, n)], 1: [(o, m), (t, k)]}),
                                ([0, 1, 0], {0: [(t, n)], 1: [(t, k), (o, m)]}),
                                ([0, 1], {0: [(t, n), (3, 2)], 1: [(t, k), (o, m)]})):
                tot = sum(dict(axes[l])[t] for l in parts)
                if tot > 9:
                    continue
                szr = {t: tot, o: m, 3: 2}
                cat = ("cat", t, parts)
                fvs = sorted({nm for l in parts for nm, _ in axes[l]})
                out.append(mk(("sum", fvs, cat), dict(axes), szr))
                out.append(mk(("sum", [t], cat), dict(axes), szr))
                out.append(mk(("sum", fvs, ("mul", cat, ("acc", 2, []))), dict(axes, **{2: [(t, tot)]}) if False else
                              {**axes, 2: [(t, tot)]}, szr))
            # forward Scatter of a source along t to a fresh destination variable 3 (then read by w(3))
            if opt is None:
                for nd_ in (n, n + 1):
                    perm = rng.sample(range(nd_), n)
                    szs_ = {t: n, o: m, 3: nd_}
                    src1 = x
                    ax1 = {0: [(t, n), (o, m)], 2: [(3, nd_)]}
                    out.append(mk(("sum", [3, o], ("mul", ("scat", 3, t, perm, src1), w)), ax1, szs_))
                    out.append(mk(("sum", [3], ("mul", ("scat", 3, t, perm, src1), w)), ax1, szs_))
                    ax2 = {0: [(t, n)], 1: [(t, n), (o, m)], 2: [(3, nd_), (o, m)]}
                    out.append(mk(("sum", [3, o], ("mul", ("scat", 3, t, perm, ("mul", x, y)), w)), ax2, szs_))
                    out.append(mk(("sum", [3, o], ("mul", ("scat", 3, t, perm, ("mul", x, x)), w)),
                                  {0: [(t, n), (o, m)], 2: [(3, nd_)]}, szs_))
            r_ = ("acc", 0, [(4, ("var", t))])
            out.append(mk(("sum", [t], ("mul", ("mul", r_, r_), ("acc", 1, []))), {0: [(4, n)], 1: [(t, n)]}, {t: n}))
            out.append(mk(("sum", [t], ("add", r_, r_)), {0: [(4, n)]}, {t: n}))
            # Cat with a repeated part: adjacent, non-adjacent, all the same; other factor mentions t
            for parts, sizes in (([0, 0], [n, n]), ([0, 1, 0], [n, k, n]), ([0, 0, 1], [n, n, k]),
                                 ([1, 0, 0], [k, n, n]), ([0, 0, 0], [n, n, n]), ([0, 1, 0, 1], [n, k, n, k])):
                tot = sum(sizes)
                if tot > 9:
                    continue
                axes = {lid: [(t, sz_), (o, m)] for lid, sz_ in zip(parts, sizes)}
                axes[2] = [(t, tot), (o, m)]
                cat = ("cat", t, parts)
                out.append(mk(("sum", [t, o], ("mul", cat, w)), axes, {t: tot, o: m}))
                out.append(mk(("sum", [t], ("mul", cat, w)), axes, {t: tot, o: m}))
                out.append(mk(("sum", [t, o], cat), {l: a for l, a in axes.items() if l != 2}, {t: tot, o: m}))
                # the same leaf in two Cats, and inside a Cat and (through a slice / a number) elsewhere
                out.append(mk(("sum", [t, o], ("mul", cat, ("cat", t, list(reversed(parts))))),
                              {l: a for l, a in axes.items() if l != 2}, {t: tot, o: m}))
                out.append(mk(("sum", [t, o], ("mul", ("mul", cat, w), ("acc", 0, [(t, ("const", 0))]))),
                              axes, {t: tot, o: m}))
                if n <= 3:
                    # x[t := 0 + 1*u] with u a variable of size n
                    axes3 = dict(axes)
                    out.append(mk(("sum", [t, o, 3], ("mul", ("mul", cat, w), ("acc", 0, [(t, ("var", 3))]))),
                                  axes3, {t: tot, o: m, 3: n}))
    return out


def aliasing_block(ctx):
    have_driver = ctx.driver.available()
    n = 0
    for c in aliasing_cases(ctx.rng):
        try:
            if violated(c):
                ctx.count("alias:skipped-" + ",".join(sorted(violated(c))))
                continue
        except (KeyError, IndexError):
            ctx.count("alias:skipped-ill-formed")
            continue
        count_shape(ctx, c, "alias")
        res = check_case(ctx, c, use_driver=have_driver, label="alias")
        ctx.count(f"alias:{res['status']}")
        n += 1
        ctx.case(nontrivial_key=shape_key(c) if res["status"] == "ok" else None)
    return n


# ----------------------------------------------------------------------------------------------
# Subs of Subs back to the original names (outside the AST: built directly)
# ----------------------------------------------------------------------------------------------

ROUNDTRIP_SNIPPET = """
import numpy as np
from collections import OrderedDict
import funsor, funsor.ops as ops
from funsor.domains import Bint
from funsor.tensor import Tensor
from funsor.interpretations import reflect
from funsor.adjoint import forward_backward
funsor.set_backend("numpy")
w = {found!r}
log = w["sr"] != "add-mul"
sum_op, prod_op = (ops.logaddexp, ops.add) if log else (ops.add, ops.mul)
conv = (lambda a: np.log(np.array(a, dtype=float))) if log else (lambda a: np.array(a, dtype=float))
inputs = OrderedDict((nm, Bint[n]) for nm, n in w["axes"])
x, y = Tensor(conv(w["x"]), inputs), Tensor(conv(w["y"]), inputs)
with reflect:
    e = prod_op(x(**{{nm: nm + "_r" for nm in w["renamed"]}})(**{{nm + "_r": nm for nm in w["renamed"]}}), y)
    if w["reduced"]:
        e = e.reduce(sum_op)
fwd, bwd = forward_backward(sum_op, prod_op, e)
gx = bwd[x]
if set(getattr(gx, "inputs", ())) == set(inputs):
    gx = gx.align(tuple(inputs))
got = np.exp(gx.data) if log else gx.data
print("adjoint of x:", got, " expected y:", w["y"])
FAILS = not (np.shape(got) == np.shape(w["y"]) and np.allclose(got, np.array(w["y"], dtype=float)))
"""


def roundtrip_stream(ctx, n):
    """root = sum (x(ren)(ren^-1) (*) y): the adjoint of x must be y (and that of y must be x)."""
    rng = ctx.rng
    found = None
    ok = 0
    for _ in range(n):
        sr = rng.choice(["add-mul", "logaddexp-add"])
        sum_op, prod_op = (ops.add, ops.mul) if sr == "add-mul" else (ops.logaddexp, ops.add)
        nax = rng.choice([1, 2, 2, 3])
        names = rng.sample(GNAMES, nax)
        sizes = [rng.choice([1, 2, 3]) for _ in names]
        ren = rng.sample(names, rng.randint(1, nax))            # the axes that make the round trip
        xd = gen_data(rng, tuple(sizes), nonzero=True)
        yd = gen_data(rng, tuple(sizes), nonzero=True)
        inputs = OrderedDict((nm, Bint[sz_]) for nm, sz_ in zip(names, sizes))
        x = Tensor(to_impl_data(xd, sr), inputs)
        y = Tensor(to_impl_data(yd, sr), inputs)
        keep_free = rng.random() < 0.3
        try:
            with reflect:
                inner = x(**{nm: nm + "_r" for nm in ren})
                outer = inner(**{nm + "_r": nm for nm in ren})
                e = prod_op(outer, y)
                if not keep_free:
                    e = e.reduce(sum_op)
            with np.errstate(all="ignore"):
                fwd, bwd = forward_backward(sum_op, prod_op, e)
            gx, gy = bwd[x], bwd[y]
        except (AssertionError, ValueError, NotImplementedError, KeyError, TypeError) as ex:
            ctx.count(f"roundtrip:declined:{type(ex).__name__}")
            continue
        order = [(GNAMES.index(nm), sz_) for nm, sz_ in zip(names, sizes)]
        bad = None
        for lbl, g, want in (("x", gx, yd), ("y", gy, xd)):
            try:
                t = lin_table(g, order, sr)
            except (KeyError, ValueError) as ex:
                bad = (lbl, str(ex), None)
                break
            if t is None or not np.allclose(t, want, rtol=1e-9, atol=0):
                bad = (lbl, None if t is None else np.asarray(t).tolist(), np.asarray(want).tolist())
                break
        ctx.count("roundtrip:" + ("wrong" if bad else "ok"))
        if bad and found is None:
            found = dict(axes=list(zip(names, sizes)), renamed=ren, sr=sr, leaf=bad[0], funsor=bad[1], derivative=bad[2],
                         x=xd.tolist(), y=yd.tolist(), reduced=not keep_free)
        ok += not bad
    # part of the clean stream since /repo's fix of KF-adjoint-roundtrip-identity (a node's adjoint is
    # recorded when its tape entry is popped; leaves are read from what is left pending)
    if found is not None:
        ctx.fail("input", "C11.roundtrip-adjoint", witness=found, expected=str(found["derivative"]),
                 got=str(found["funsor"]), python=ROUNDTRIP_SNIPPET.format(found=found))
    for _ in range(ok):
        ctx.case()
    return found


# ----------------------------------------------------------------------------------------------
# identity-like ops on a leaf that also occurs bare (built directly)
# ----------------------------------------------------------------------------------------------

WRAPPERS = ["rename-1hop", "rename-2hop", "swap-twice", "cat-one-part", "slice-full", "index-arange",
            "rename-1hop-partial"]


def wrap_identity(kind, x, names, sizes):
    """An op chain on leaf x that is the identity as a function (for several of them the eager value IS the
    cons-hashed leaf object).  Must be called under reflect.  None if the kind does not apply."""
    if kind == "rename-1hop":
        return x(**{nm: nm + "_r" for nm in names})(**{nm + "_r": nm for nm in names})
    if kind == "rename-1hop-partial":
        return x(**{names[0]: names[0] + "_r"})(**{names[0] + "_r": names[0]})
    if kind == "rename-2hop":
        return x(**{nm: nm + "_r" for nm in names})(**{nm + "_r": nm + "_s" for nm in names})(
            **{nm + "_s": nm for nm in names})
    if kind == "swap-twice":
        if len(names) < 2 or sizes[0] != sizes[1]:
            return None
        a_, b_ = names[0], names[1]
        return x(**{a_: b_, b_: a_})(**{a_: b_, b_: a_})
    if kind == "cat-one-part":
        return Cat(names[0], (x,), names[0])
    if kind == "slice-full":
        return x(**{names[0]: Slice(names[0], 0, sizes[0], 1, sizes[0])})
    if kind == "index-arange":
        return x(**{names[0]: Tensor(np.arange(sizes[0]), OrderedDict([(names[0], Bint[sizes[0]])]), sizes[0])})
    raise ValueError(kind)


def run_identity(w):
    """root = (+)_{axes,k} x^nbare (*) wrap(x) (*) y[axes,k]  ->  (status, got {x,y}, want {x,y}) in linear space"""
    sr = w["sr"]
    sum_op, prod_op = (ops.add, ops.mul) if sr == "add-mul" else (ops.logaddexp, ops.add)
    names, sizes, nk = w["names"], w["sizes"], w["nk"]
    xd = np.array(w["x"], dtype=np.float64)
    yd = np.array(w["y"], dtype=np.float64)
    xin = OrderedDict((nm, Bint[s_]) for nm, s_ in zip(names, sizes))
    yin = OrderedDict(list(xin.items()) + [("kk", Bint[nk])])
    x = Tensor(to_impl_data(xd, sr), xin)
    y = Tensor(to_impl_data(yd, sr), yin)
    with reflect:
        wx = wrap_identity(w["wrapper"], x, names, sizes)
        if wx is None:
            return "n/a", None, None
        factors = ([wx] + [x] * w["nbare"]) if w["wrap_first"] else ([x] * w["nbare"] + [wx])
        e = factors[0]
        for t in factors[1:]:
            e = prod_op(e, t)
        e = prod_op(e, y).reduce(sum_op)
    with np.errstate(all="ignore"):
        fwd, bwd = forward_backward(sum_op, prod_op, e)
    m = w["nbare"] + 1                                   # occurrences of x in the product
    ysum = yd.sum(-1)
    want = {"x": m * xd ** (m - 1) * ysum, "y": np.broadcast_to((xd ** m)[..., None], yd.shape)}
    got = {}
    for lbl, leaf, ins in (("x", x, xin), ("y", y, yin)):
        order = [((GNAMES.index(nm) if nm in GNAMES else 9), d.size) for nm, d in ins.items()]
        g = bwd[leaf]
        if isinstance(g, Tensor) and set(g.inputs) <= set(ins):
            tab = futil.table(g, [(nm, d.size) for nm, d in ins.items()])
        elif isinstance(g, Number):
            tab = np.broadcast_to(np.asarray(g.data, dtype=np.float64), tuple(d.size for d in ins.values())).copy()
        else:
            return "inputs", {lbl: str(getattr(g, "inputs", g))}, want
        got[lbl] = np.exp(tab) if sr != "add-mul" else tab
    return "value", got, want


IDENTITY_SNIPPET = """
import sys
sys.path.insert(0, "/verif")
import numpy as np
from fv.harness import c11
w = {w!r}
status, got, want = c11.run_identity(w)
print(status, "adjoint of x:", None if got is None else got.get("x"), " derivative:", None if want is None else want["x"])
FAILS = status != "value" or not all(np.allclose(got[k], want[k], rtol=1e-9) for k in ("x", "y"))
"""


def identity_stream(ctx, rounds):
    """x (*) w(x) (*) y with every identity-like w, the leaf x also occurring bare 0-2 times, both
    semirings; gate: whenever forward_backward returns, both adjoints are the derivatives."""
    rng = ctx.rng
    for _ in range(rounds):
        for kind in WRAPPERS:
            for sr in ("add-mul", "logaddexp-add"):
                for nbare in (0, 1, 2):
                    nax = rng.choice([1, 2])
                    names = rng.sample(GNAMES, nax)
                    n0 = rng.choice([2, 3])
                    sizes = [n0] + [rng.choice([n0, n0, 2])] * (nax - 1)
                    nk = rng.choice([1, 2])
                    w = dict(wrapper=kind, sr=sr, nbare=nbare, names=names, sizes=sizes, nk=nk,
                             wrap_first=rng.random() < 0.3,
                             x=gen_data(rng, tuple(sizes), nonzero=True).tolist(),
                             y=gen_data(rng, tuple(sizes) + (nk,), nonzero=True).tolist())
                    try:
                        status, got, want = run_identity(w)
                    except (AssertionError, ValueError, NotImplementedError, KeyError, TypeError) as ex:
                        ctx.count(f"identity:{kind}:declined:{type(ex).__name__}")
                        continue
                    if status == "n/a":
                        continue
                    ok = status == "value" and all(np.allclose(got[k], want[k], rtol=1e-9, atol=0) for k in ("x", "y"))
                    ctx.count(f"identity:{kind}:bare{nbare}:" + ("ok" if ok else "wrong"))
                    if ok:
                        ctx.case(nontrivial_key=repr(sorted(w.items())))
                    else:
                        ctx.fail("input", "C11.identity-op-adjoint", witness=w,
                                 expected=str({k: np.asarray(v).tolist() for k, v in want.items()}),
                                 got=str(None if got is None else {k: np.asarray(v).tolist() if hasattr(v, "shape") else v
                                                                    for k, v in got.items()}),
                                 python=IDENTITY_SNIPPET.format(w=w))
                        return


# ----------------------------------------------------------------------------------------------
# a forward Scatter node (built directly): the adjoint of its source
# ----------------------------------------------------------------------------------------------

def run_scatter(w):
    """A forward Scatter node, possibly with a batched index tensor idx[bt, a]:
       root = (+)_b Scatter(sum_op, (('b', idx),), src, {a}) (*) wt(b)   [bt free or reduced in the root]
       -> (status, got table over (a, bt), wanted table): d root[bt] / d src[a] = wt[idx[bt, a]]"""
    from funsor.terms import Scatter
    sr = w["sr"]
    log = sr != "add-mul"
    sum_op, prod_op = (ops.logaddexp, ops.add) if log else (ops.add, ops.mul)
    idx_tab = np.array(w["idx"])                       # shape (nbt, nk) or (nk,)
    batched = idx_tab.ndim == 2
    nk, ni = idx_tab.shape[-1], len(w["w"])
    nbt = idx_tab.shape[0] if batched else 1
    sd = np.array(w["src"], dtype=np.float64)          # shape (nk,) or (nbt, nk) when the source has bt too
    src_in = OrderedDict(([("c", Bint[nbt])] if sd.ndim == 2 else []) + [("a", Bint[nk])])
    src = Tensor(to_impl_data(sd, sr), src_in)
    idx = Tensor(idx_tab, OrderedDict(([("c", Bint[nbt])] if batched else []) + [("a", Bint[nk])]), ni)
    wt = Tensor(to_impl_data(np.array(w["w"], dtype=np.float64), sr), OrderedDict(b=Bint[ni]))
    with reflect:
        dest = Scatter(sum_op, (("b", idx),), src, frozenset({Variable("a", Bint[nk])}))
        e = prod_op(dest, wt).reduce(sum_op, "b")
        if w["reduce_bt"] and (batched or sd.ndim == 2):
            e = e.reduce(sum_op, "c")
    with np.errstate(all="ignore"):
        fwd, bwd = forward_backward(sum_op, prod_op, e)
    g = bwd[src]
    if not set(getattr(g, "inputs", ())) <= {"a", "c"}:
        return "inputs", str(getattr(g, "inputs", g)), None
    t = futil.table(g, [("a", nk), ("c", nbt)])
    if t is None:
        return "lazy", None, None
    got = np.exp(t) if log else t
    wd = np.array(w["w"], dtype=np.float64)
    full = np.array([[wd[idx_tab[c_, a_] if batched else idx_tab[a_]] for c_ in range(nbt)] for a_ in range(nk)])
    if w["reduce_bt"] and sd.ndim == 1 and batched:
        want = np.broadcast_to(full.sum(1, keepdims=True), full.shape)      # bt summed: a function of a only
    else:
        want = full                                                         # batch reading: entry (a, bt)
    return "value", got, want


SCATTER_SNIPPET = """
import sys
sys.path.insert(0, "/verif")
import numpy as np
from fv.harness import c11
w = {found!r}
status, got, want = c11.run_scatter(w)
print(status, "adjoint of the Scatter's source over (a, c):", got, " expected:", want)
FAILS = status != "value" or not np.allclose(got, want, rtol=1e-9)
"""


def scatter_stream(ctx, n):
    rng = ctx.rng
    found = None
    for _ in range(n):
        sr = rng.choice(["add-mul", "logaddexp-add"])
        nk = rng.choice([1, 2, 3])
        ni = rng.choice([s_ for s_ in (2, 3, 4) if s_ >= nk])
        mode = rng.choice(["plain", "batched-free", "batched-free", "batched-reduced"])
        nbt = rng.choice([2, 3])
        if mode == "plain":
            idx = rng.sample(range(ni), nk)
        else:
            idx = [rng.sample(range(ni), nk) for _ in range(nbt)]       # injective in a for every batch element
        src_has_bt = mode != "plain" and rng.random() < 0.4
        sd = gen_data(rng, (nbt, nk) if src_has_bt else (nk,), nonzero=True)
        w = dict(sr=sr, idx=idx, src=sd.tolist(), w=gen_data(rng, (ni,), nonzero=True).tolist(),
                 reduce_bt=(mode == "batched-reduced"))
        try:
            status, got, want = run_scatter(w)
        except (AssertionError, ValueError, NotImplementedError, KeyError, TypeError) as ex:
            ctx.count(f"scatter-source:{mode}:declined:{type(ex).__name__}")
            continue
        good = status == "value" and np.allclose(got, want, rtol=1e-9, atol=0)
        ctx.count(f"scatter-source:{mode}{':src-batched' if src_has_bt else ''}:" + ("ok" if good else "wrong"))
        if good:
            ctx.case(nontrivial_key=("scatter-source", repr(sorted(w.items()))) if nk > 1 else None)
        if not good and found is None:
            found = dict(w, derivative=None if want is None else np.asarray(want).tolist(),
                         funsor=str(got)[:200] if not hasattr(got, "tolist") else str(np.asarray(got).tolist()))
    # part of the clean stream since /repo 63a064e (adjoint_scatter no longer reduces the source's inputs)
    if found is not None:
        ctx.fail("input", "C11.scatter-source-adjoint", witness=found, expected=str(found["derivative"]),
                 got=found["funsor"], python=SCATTER_SNIPPET.format(found=found))



# ----------------------------------------------------------------------------------------------
# wide-range log weights: the (logaddexp, add) semiring far below exp's underflow
# ----------------------------------------------------------------------------------------------

OFFSETS = [0, -30, -300, -800, -2000]


def widen(rng, case):
    """Give every leaf of a log-semiring case log-weights  log(mantissa) + offset  with offsets per leaf
    and per element of its first axis; mantissa 0 = a -inf cell."""
    for l in case["leaves"].values():
        shape = np.asarray(l["data"]).shape
        off = np.full(shape, rng.choice(OFFSETS), dtype=np.float64)
        if shape and rng.random() < 0.6:
            per = np.array([rng.choice(OFFSETS) for _ in range(shape[0])], dtype=np.float64)
            off = off + per.reshape((shape[0],) + (1,) * (len(shape) - 1))
        l["logoff"] = off
    case.pop("cat_part_name", None)
    case["sr"] = "logaddexp-add"
    case["opt"] = None          # plain path: the optimizer's einsum kernel is KF-logeinsum-underflow's region (C10)
    return case


def hmm_case(rng):
    """3-step homogeneous HMM: init(z0) * prod_t trans(z_t, z_t+1) * obs_t(z_t+1), summed over all states;
    the transition tensor is ONE leaf read under three renamings; observation log-likelihoods about -300."""
    n = rng.choice([2, 3])
    sz = {0: n, 1: n, 2: n, 3: n, 4: n, 5: n}
    leaves = {0: dict(axes=[(4, n), (5, n)], data=gen_data(rng, (n, n), nonzero=rng.random() < 0.6)),
              1: dict(axes=[(0, n)], data=gen_data(rng, (n,), nonzero=True))}
    e = ("acc", 1, [])
    for t in range(3):
        leaves[2 + t] = dict(axes=[(t + 1, n)], data=gen_data(rng, (n,), nonzero=True))
        e = ("mul", ("mul", e, ("acc", 0, [(4, ("var", t)), (5, ("var", t + 1))])), ("acc", 2 + t, []))
    order = rng.choice([[0, 1, 2, 3], [3, 2, 1, 0]])
    root = e
    if rng.random() < 0.5:
        root = ("sum", sorted(order), e)
    else:
        for v in order:
            root = ("sum", [v], root)
    case = dict(sz=sz, leaves=leaves, expr=root, sr="logaddexp-add", opt=None)
    widen(rng, case)
    for t in range(3):      # observation log-likelihoods around -300 (plus whatever widen added per state)
        case["leaves"][2 + t]["logoff"] = case["leaves"][2 + t]["logoff"] * 0 + rng.choice([-300.0, -330.0, -800.0])
    return case


def check_wide(ctx, case, label="wide"):
    """Log-space comparison against the exact oracle (Laurent polynomials in e, logs by the max-shifted
    form): finite iff the oracle is finite; relative 1e-9 on the log value."""
    r = run_impl(case)
    if r["status"] == "declined":
        ctx.count(f"{label}:declined:{r['why']}")
        return "declined"
    F, fwd, grads = Oracle(case).run(case["expr"])
    if F:
        return "skipped"

    def close(got, want):
        if want == float("-inf") or got == float("-inf"):
            return got == want
        return got == got and abs(got - want) <= 1e-9 * max(1.0, abs(want))

    def bad(what, lid, idx, want, got):
        ctx.fail("input", "C11.log-range-" + what,
                 witness=dict(case=jsonable(case), logoff={str(k): np.asarray(l["logoff"]).tolist()
                                                          for k, l in case["leaves"].items()},
                              leaf=lid, index=list(idx)),
                 expected=str(want), got=str(got), python=WIDE_SNIPPET.format(
                     case=jsonable(case), off={k: np.asarray(l["logoff"]).tolist() for k, l in case["leaves"].items()},
                     lid=lid, idx=tuple(idx), want=want))
        return "wrong"
    ft = futil.table(r["fwd"], [])
    want_f = LP.of(fwd[()]).log()
    if ft is None or not close(float(ft), want_f):
        return bad("forward", -1, (), want_f, None if ft is None else float(ft))
    lowest = 0.0
    for lid, x in r["leaves"].items():
        axes = case["leaves"][lid]["axes"]
        g = r["bwd"][x]
        try:
            t = futil.table(g, [(vname(nm), s_) for nm, s_ in axes])
        except (KeyError, ValueError) as ex:
            return bad("adjoint-inputs", lid, (), "inputs within the leaf's axes", str(ex))
        if t is None:
            return "declined"
        for idx in itertools.product(*[range(s_) for _, s_ in axes]):
            want = LP.of(grads[lid].get(idx, Fraction(0))).log()
            got = float(t[idx])
            if not close(got, want):
                return bad("adjoint", lid, idx, want, got)
            if want != float("-inf"):
                lowest = min(lowest, want)
    ctx.count(f"{label}:lowest-adjoint:" + ("below-745" if lowest < -745 else "above-745"))
    return "ok"


WIDE_SNIPPET = """
import sys, itertools
sys.path.insert(0, "/verif")
import numpy as np
from fv.harness import c11
case = c11.case_from_json({case!r})
for k, v in {off!r}.items():
    case["leaves"][int(k)]["logoff"] = np.array(v, dtype=np.float64)
r = c11.run_impl(case)
assert r["status"] == "value", r
lid, idx, want = {lid!r}, {idx!r}, {want!r}
if lid < 0:
    got = float(c11.futil.table(r["fwd"], []))
else:
    axes = case["leaves"][lid]["axes"]
    got = float(c11.futil.table(r["bwd"][r["leaves"][lid]], [(c11.vname(n), s) for n, s in axes])[idx])
print("log value: funsor", got, " exact", want)
FAILS = not (got == want or (np.isfinite(got) and np.isfinite(want) and abs(got - want) <= 1e-9 * max(1.0, abs(want))))
"""


def wide_stream(ctx, n_random, n_hmm):
    rng = ctx.rng
    done = 0
    tries = 0
    while done < n_random and tries < 20 * n_random:
        tries += 1
        c = gen_case(rng, ctx.tier, stream="clean")
        if free_vars(c["expr"], c["leaves"]) or any(t[0] == "prod" for t in subterms(c["expr"])):
            continue            # closed roots (log-space comparison without marginalising), no plates
        widen(rng, c)
        multi = any(sum(1 for t in subterms(c["expr"]) if t[0] == "acc" and t[1] == lid) +
                    sum(t[2].count(lid) for t in subterms(c["expr"]) if t[0] == "cat") > 1 for lid in c["leaves"])
        st = check_wide(ctx, c)
        ctx.count(f"wide:{st}" + (":multi-occurrence-leaf" if multi else ""))
        if st == "wrong":
            return
        if st == "ok":
            done += 1
            ctx.case(nontrivial_key=("wide", shape_key(c)) if multi else None)
    for _ in range(n_hmm):
        c = hmm_case(rng)
        st = check_wide(ctx, c, label="hmm")
        ctx.count(f"hmm:{st}")
        if st == "wrong":
            return
        if st == "ok":
            ctx.case(nontrivial_key=("hmm", shape_key(c)))


# ----------------------------------------------------------------------------------------------
# the einsum front ends (funsor.einsum.naive_einsum / einsum) under the tape
# ----------------------------------------------------------------------------------------------

EINSUM_SNIPPET = """
import sys
sys.path.insert(0, "/verif")
from fv.harness import c11
w = {w!r}
status, detail = c11.run_einsum(w)
print(status, detail)
FAILS = status == "wrong"
"""


def run_einsum(w):
    """One einsum case: forward value and every CALLER operand's adjoint against brute force (numpy einsum
    of all other operand occurrences, summed over the occurrences of the operand)."""
    from funsor.einsum import einsum as f_einsum, naive_einsum as f_naive
    impl = {"naive_einsum": f_naive, "einsum": f_einsum}[w["impl"]]
    log = w["sr"] != "add-mul"
    sum_op, prod_op = (ops.logaddexp, ops.add) if log else (ops.add, ops.mul)
    backend = "funsor.einsum.numpy_log" if log else "numpy"
    sizes = w["sizes"]
    tensors, arrays = {}, {}
    for name, (stored, data) in w["leaves"].items():
        arr = np.array(data, dtype=np.float64)
        arrays[name] = arr
        tensors[name] = Tensor(to_impl_data(arr, w["sr"]), OrderedDict((d, Bint[sizes[d]]) for d in stored))
    subs, names, out = w["subs"], w["operands"], w["output"]
    eqn = ",".join(subs) + "->" + out
    try:
        with np.errstate(all="ignore"):
            with AdjointTape() as tape:
                fwd = impl(eqn, *[tensors[nm] for nm in names], backend=backend)
            adj = tape.adjoint(sum_op, prod_op, fwd, tuple(tensors.values()))
    except (AssertionError, ValueError, NotImplementedError, KeyError, TypeError, IndexError) as ex:
        return "declined", type(ex).__name__

    def lin(f, dims):
        t = futil.table(f, [(d, sizes[d]) for d in dims])
        return None if t is None else (np.exp(t) if log else t)
    # operand arrays in subscript order
    opnd = []
    for nm, sub in zip(names, subs):
        stored = w["leaves"][nm][0]
        opnd.append(np.transpose(arrays[nm], [stored.index(d) for d in sub]) if sub else arrays[nm])
    try:
        ft = lin(fwd, list(out))
    except (KeyError, ValueError) as ex:
        return "wrong", f"forward inputs: {ex}"
    if ft is None:
        return "declined", "lazy"
    want_f = np.einsum(eqn, *opnd)
    if not np.allclose(ft, want_f, rtol=1e-9, atol=0):
        return "wrong", f"forward {np.asarray(ft).tolist()} != {np.asarray(want_f).tolist()}"
    for nm, (stored, _) in w["leaves"].items():
        want = np.zeros([sizes[d] for d in stored])
        for i, (onm, sub) in enumerate(zip(names, subs)):
            if onm != nm:
                continue
            others = [s_ for j, s_ in enumerate(subs) if j != i]
            rest = [a_ for j, a_ in enumerate(opnd) if j != i]
            # derivative of (sum over the outputs of) the root w.r.t. this occurrence, then broadcast over
            # dims of the occurrence that no other operand mentions
            g = np.einsum(",".join(others) + "->" + "".join(d for d in sub if any(d in o for o in others)), *rest) \
                if rest else np.array(1.0)
            have = [d for d in sub if any(d in o for o in others)]
            g = np.broadcast_to(np.asarray(g).reshape([sizes[d] if d in have else 1 for d in sub]),
                                [sizes[d] for d in sub])
            want = want + np.transpose(g, [sub.index(d) for d in stored]) if sub else want + g
        f = adj[tensors[nm]]
        extra = [d for d in out if d not in stored]
        try:
            t = lin(f, list(stored) + extra)
        except (KeyError, ValueError) as ex:
            return "wrong", f"adjoint of {nm}: inputs {ex}"
        if t is None:
            return "declined", "lazy-adjoint"
        t = np.asarray(t).reshape([sizes[d] for d in stored] + [-1]).sum(-1)
        if not np.allclose(t, want, rtol=1e-9, atol=0):
            return "wrong", f"adjoint of {nm} (stored {stored}): {np.asarray(t).tolist()} != {np.asarray(want).tolist()}"
    return "ok", None


def einsum_stream(ctx, n):
    rng = ctx.rng
    for _ in range(n):
        dims = "abcd"
        sizes = {d: rng.choice([1, 2, 2, 3]) for d in dims}
        nop = rng.choice([2, 2, 3])
        leaves, operands, subs = {}, [], []
        for i in range(nop):
            if leaves and rng.random() < 0.3:
                nm = rng.choice(sorted(leaves))                  # the same operand again, possibly spelled differently
                stored = leaves[nm][0]
                sub = list(stored)
                rng.shuffle(sub)
            else:
                nm = "xyz"[len(leaves)]
                sub = rng.sample(dims, rng.choice([0, 1, 1, 2, 2, 2]))
                stored = list(sub)
                if rng.random() < 0.5:
                    stored.reverse()                             # stored input order differs from the subscript
                leaves[nm] = ("".join(stored), gen_data(rng, tuple(sizes[d] for d in stored), nonzero=True).tolist())
            operands.append(nm)
            subs.append("".join(sub))
        used = sorted(set("".join(subs)))
        out = "".join(d for d in used if rng.random() < 0.25)
        w = dict(impl=rng.choice(["naive_einsum", "naive_einsum", "einsum"]), sr=rng.choice(["add-mul", "logaddexp-add"]),
                 sizes=sizes, leaves=leaves, operands=operands, subs=subs, output=out)
        status, detail = run_einsum(w)
        permuted = any(leaves[nm][0] != sub for nm, sub in zip(operands, subs))
        ctx.count(f"einsum:{w['impl']}:{status}" + (":permuted" if permuted else "") +
                  (":repeated" if len(set(operands)) < len(operands) else ""))
        if status == "wrong":
            ctx.fail("input", "C11.einsum-front-end", witness=w, expected="brute force", got=detail,
                     python=EINSUM_SNIPPET.format(w=w))
            return
        if status == "ok":
            ctx.case(nontrivial_key=repr(sorted((k, repr(v)) for k, v in w.items())) if nop >= 2 else None)


def nested_cases(rng):
    """Nested reductions that reuse the same variable name at 2-3 levels (an inner binder named like an
    outer one that is still free in between), in both semirings, plain and through apply_optimizer — the
    optimizer hoists inner binders, and the tape's un-mangling must then refuse or get it right."""
    a, b = 0, 1
    out = []
    for sr in ("add-mul", "logaddexp-add"):
        for opt in (None, "tape", "lazy"):
            for _ in range(2):
                na, nb = rng.choice([2, 2, 3]), rng.choice([1, 2, 3])
                sz = {0: na, 1: nb, 2: 1, 3: 1}
                ab, ba, ja, jb = [(a, na), (b, nb)], [(b, nb), (a, na)], [(a, na)], [(b, nb)]

                def mk(expr, axes):
                    leaves = {lid: dict(axes=ax, data=gen_data(rng, tuple(s_ for _, s_ in ax), nonzero=True))
                              for lid, ax in axes.items()}
                    return dict(sz=dict(sz), leaves=leaves, expr=expr, sr=sr, opt=opt)

                L = lambda i: ("acc", i, [])
                # sum_{a,b} x(a,b) * [sum_a y(a,b) z(a)]
                out.append(mk(("sum", [a, b], ("mul", L(0), ("sum", [a], ("mul", L(1), L(2))))),
                              {0: ab, 1: rng.choice([ab, ba]), 2: ja}))
                # the same with the inner binder b
                out.append(mk(("sum", [a, b], ("mul", L(0), ("sum", [b], ("mul", L(1), L(2))))),
                              {0: ab, 1: ab, 2: jb}))
                # three levels over a
                out.append(mk(("sum", [a, b], ("mul", L(0), ("sum", [a], ("mul", L(1),
                               ("sum", [a], ("mul", L(2), L(3))))))), {0: ab, 1: ab, 2: ba, 3: ja}))
                # nested, outer reduce in two steps, factors on both sides
                out.append(mk(("sum", [b], ("sum", [a], ("mul", ("mul", L(0), L(3)),
                               ("sum", [a], ("mul", L(1), L(2)))))), {0: ab, 1: ab, 2: ja, 3: ja}))
                # the inner reduction inside a ⊕
                out.append(mk(("sum", [a, b], ("mul", L(0), ("add", ("sum", [a], ("mul", L(1), L(2))), L(3)))),
                              {0: ab, 1: ab, 2: ja, 3: jb}))
                # inner reduction over both names
                out.append(mk(("sum", [a, b], ("mul", L(0), ("sum", [a, b], ("mul", L(1), L(2))))),
                              {0: ab, 1: ab, 2: ba}))
                # a root that keeps b free
                out.append(mk(("sum", [a], ("mul", L(0), ("sum", [a], ("mul", L(1), L(2))))),
                              {0: ab, 1: ab, 2: ja}))
    return out


def nested_block(ctx):
    have_driver = ctx.driver.available()
    for c in nested_cases(ctx.rng):
        v = violated(c)
        if v:
            ctx.count("nested:skipped-" + ",".join(sorted(v)))
            continue
        count_shape(ctx, c, "nested")
        res = check_case(ctx, c, use_driver=have_driver, label="nested")
        ctx.count(f"nested:{res['status']}")
        ctx.case(nontrivial_key=shape_key(c) if res["status"] in ("ok", "beyond") else None)


def correspond(ctx):
    ctx.rule = ("random sum-product expressions: 1-5 leaf occurrences (leaves may repeat) over 4 variables of sizes 1-3, "
                "leaves read directly or through Subs (renaming / Slice / Number / injective index Tensor, private or "
                "clashing axis names) or Cat; random bracketing with ⊗ (and ⊕ between equally-shaped operands); sum- "
                "and product-reductions over random subsets at random depths; any subset of the remaining variables "
                "reduced at the root; semirings (add,mul) exact and (logaddexp,add) via exp with rtol 1e-9; driven by "
                "forward_backward, by apply_optimizer under the tape, and by apply_optimizer under reflect. The clean "
                "stream satisfies the hypotheses `Good` of adjoint_sound; two dedicated streams (the open findings "
                "plate-zero, scatter-number-shortcut) violate exactly one.  The regions of the six findings fixed in "
                "/repo (⊕ of differently-shaped operands, extra root inputs at a Subs node, Cat with part_name != "
                "name, Cat parts with different inputs, the same renaming under two binders, bound names clashing with root inputs / rebinding under "
                "the optimizer — the last two now decline) are part of the clean stream. "
                "A nested-binder block reuses one variable name at 2-3 nesting levels (plain and through the optimizer). "
                "Cat parts are drawn WITH repetition (the same Tensor twice, adjacent or not, sizes 1-3) and may also "
                "occur elsewhere in the term (second Cat, or through Subs); an aliasing block builds every "
                "same-object-twice shape (x⊗x, x⊕x, shared Binary/Reduce/Subs node under two parents, Cat(x,x), "
                "Cat(x,y,x), …) in both semirings and all three modes. "
                "Non-trivial = >= 2 leaf occurrences, at least one reduction, implementation returned a value; "
                "distinct by full content (term, sizes, data, semiring, mode).")
    have_driver = ctx.driver.available()
    exhaustive_small(ctx)
    for _ in range(1 if ctx.tier == "quick" else 6):
        aliasing_block(ctx)
        nested_block(ctx)
    n = 700 if ctx.tier == "quick" else 12000
    for it in range(n):
        if "tape-key-collision" in FOLDED and it % 25 == 0:
            c = gen_collision(ctx.rng)
            c["opt"] = None
        else:
            c = gen_case(ctx.rng, ctx.tier, stream="clean")
        nocc = count_shape(ctx, c, "clean")
        res = check_case(ctx, c, use_driver=have_driver, label="clean")
        ctx.count(f"clean:{res['status']}")
        has_red = any(t[0] in ("sum", "prod") for t in subterms(c["expr"]))
        ctx.case(sample=dict(expr=repr(c["expr"]), sr=c["sr"], opt=c.get("opt"),
                             sz={vname(k): v for k, v in c["sz"].items()},
                             leaves={str(k): [vname(a) for a, _ in l["axes"]] for k, l in c["leaves"].items()}),
                 nontrivial_key=shape_key(c) if (res["status"] == "ok" and nocc >= 2 and has_red) else None)
    m = 40 if ctx.tier == "quick" else 300
    for stream in FINDINGS:
        dedicated(ctx, stream, m)
    roundtrip_stream(ctx, m)
    identity_stream(ctx, 1 if ctx.tier == "quick" else 6)
    scatter_stream(ctx, 20 if ctx.tier == "quick" else 100)
    wide_stream(ctx, 120 if ctx.tier == "quick" else 1500, 30 if ctx.tier == "quick" else 300)
    einsum_stream(ctx, 150 if ctx.tier == "quick" else 2000)
    ctx.assumptions.append("float64 arithmetic on small integers / dyadic rationals is exact; the log semiring, and (add,mul) terms containing a product-reduce (safediv = multiplication by a rounded reciprocal), are compared in linear space with rtol 1e-9; magnitudes beyond 2**50 with rtol 1e-12")
    ctx.assumptions.append("with apply_optimizer the leaves are the tensors of the optimizer's output (its unfold pass evaluates Subs(Tensor) eagerly, outside the tape); the output is re-read into the model's syntax modulo __BOUND suffixes exactly as AdjointTape.adjoint un-mangles names")
    ctx.assumptions.append("wide-range log weights (offsets 0/-30/-300/-800/-2000 per leaf and per first-axis element, -inf cells; 3-step homogeneous HMM with one shared transition leaf) are compared in log space against an exact oracle (Laurent polynomials in e, logs by the max-shifted form): finite iff the oracle is finite, rtol 1e-9 on the log value; plain path only — the optimizer's log-einsum kernel is the region of the open KF-logeinsum-underflow (C10)")
    ctx.assumptions.append("sound_scat / the DAG Scatter case take the index map as a function of the source variable only (tabAt t); index tensors with an extra batch input (free or reduced in the root, source with or without it) are tied by correspondence only (scatter_stream)")
    ctx.assumptions.append("dag_adjoint_sound: the sweep over the DAG tape (argument indices, shared nodes accumulate before they are popped) returns the derivative of the unfolded root; the driver's DAG is the hash-consing of the term (structurally equal sub-terms = one node); tie to the real tape: number/kind of recorded entries and pop order (counted), and the adjoint accumulated at every node when popped = funsor's adjoint of that lazy node (gated, incl. shared nodes); un-mangling and the eager-value keys of the real tape are exercised by correspondence only")
    ctx.assumptions.append("adjoint_sound covers every node kind of the model (direct / Subs / Cat leaves, ⊕, ⊗, sum- and product-reduce); the proved sweep is tree-shaped — the tape's DAG sharing and its keying of adjoint_values by un-mangled eager values are exercised by correspondence only (aliasing block; dedicated streams tape-key-collision, binder-free-clash, opt-rebinding)")
    ctx.assumptions.append("clean-stream side conditions beyond Lean's `Good` (implementation-specific, each with its dedicated stream or owner): Cat with part_name == name, with the optimizer every variable bound once and no repeated identical Reduce (KF-shared-binder-unfold), no pure renaming onto a surviving axis of the same leaf (KF-adjoint-scatter-number-shortcut), no root input used as a substitution value (funsor's renaming convention, test_adjoint_subs_tensor_rename)")
    ctx.assumptions.append("root inputs (free variables) are treated as batch variables: the returned adjoint is compared after summing it over the root inputs the leaf lacks")


def search(ctx, broken):
    """A proof, the build or the correspondence broke: hunt for a concrete wrong value with the Python
    oracle only (works without Lean), 10x volume, clean stream."""
    before = len([f for f in ctx.failures if f.witness is not None])
    for _ in range(7000):
        c = gen_case(ctx.rng, ctx.tier, stream="clean")
        check_case(ctx, c, use_driver=False, label="search")
        if len([f for f in ctx.failures if f.witness is not None]) > before:
            return


def replay(ctx, doc):
    w = doc.get("witness") or {}
    if ("renamed" in w or "idx" in w or "wrapper" in w or "subs" in w) and doc.get("python"):   # streams built directly: replayed by their snippet
        g = {}
        try:
            exec(doc["python"], g)
        except Exception as ex:
            print(f"replay: snippet raised {type(ex).__name__}: {ex}")
            return True
        return bool(g.get("FAILS", False))
    cj = w.get("case", w)
    try:
        case = case_from_json(cj)
    except Exception:
        return True
    res = check_case(ctx, case, use_driver=False, gate=False, label="replay")
    print(f"replay: {res.get('status')} {res.get('what', '')} want={res.get('want')} got={res.get('got')}")
    return res["status"] == "wrong"
