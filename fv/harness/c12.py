"""
C12 — Gaussian pointwise algebra agrees with the dense quadratic form.

Real funsor Gaussians (square-root information form, funsor/gaussian.py) are driven through random
chains (depth <= 3) of the supported pointwise operations; after every step the result is observed
(white_vec, prec_sqrt and the Tensor by-product, per batch point, *by name*), converted to the dense
triple (Lambda, eta, c) with exact Fractions and compared three ways:

    implementation  <->  Python oracle   (the property: dense triple recovered from the *pointwise
                                          definition* of the operation by finite differences)
    implementation  <->  Lean model      (FV.C12: the code's algorithm step by step, over Rat)
    Lean model      <->  oracle          (run-time echo of the theorems in Props/C12.lean)

plus evaluation of the result at a random dyadic point.  Sqrt-free paths are compared EXACTLY; as
soon as a QR / Cholesky (rank compression, constructor conversions) is involved the comparison is
at rtol 1e-9.
"""
import itertools
import math
import random
from collections import OrderedDict
from fractions import Fraction as F

import numpy as np

from ..common import sx, parse_sx, Q
from ..futil import funsor, Tensor, Number, Variable, Bint, Real, Reals, ops

from funsor.gaussian import Gaussian, _compute_offsets
from funsor.cnf import Contraction
from funsor.terms import Cat, Slice, Funsor, Subs

RTOL = 1e-9
# On paths flagged exact the comparison is ==; a difference below ULP_SLACK (relative, a few float64 ulps) is rounding
# noise whose presence can depend on memory alignment (observed once in a thorough run, not reproducible in a fresh
# process): counted as `rounding-on-exact-path`, never gated.  Any real defect is many orders of magnitude larger.
ULP_SLACK = 1e-14
# Regions of open findings kept out of the clean stream (each has a dedicated stream below).
# Remove an entry once the defect is fixed in /repo: the clean stream then covers the region.
AVOID = {}   # e.g. {"plate-mixture": "KF-contraction-same-op-pushdown"}; all regions found so far are fixed in /repo
WHAT = {"plate-mixture": "(g + t).reduce(ops.add, k) with a Tensor term t that does not depend on k adds t once instead "
                         "of |k| times (cnf.eager_contraction_generic_recursive pushes the reduction into the only "
                         "term mentioning k although red_op is bin_op)",
        "cat-partname": "joint.eager_cat_homogeneous with part_name != name appends the concatenated input after all "
                        "other inputs although the data has it on axis 0: batch dims transposed (wrong value) or "
                        "AssertionError, e.g. Cat('c', (g1, g2), 'i') with another batch input j"}


DECLINE_ERRORS = (AssertionError, NotImplementedError, ValueError, KeyError, AttributeError, TypeError,
                  StopIteration, IndexError, RuntimeError)


class Declined(Exception):
    pass


# ----------------------------------------------------------------------------------------------
# exact linear algebra on Fractions (Python-side oracle)
# ----------------------------------------------------------------------------------------------

def fr(x):
    x = x.item() if hasattr(x, "item") else x
    if isinstance(x, F):
        return x
    if isinstance(x, float) and (x != x or x in (float("inf"), float("-inf"))):
        raise Declined("non-finite")
    return F(x)


def numel(shape):
    n = 1
    for s in shape:
        n *= s
    return n


def sqrt_eval(reals, w, P, t, x):
    """-1/2 || x P - w ||^2 + t, x: name -> flat list, reals: [(name, numel)] in layout order."""
    flat = []
    for k, n in reals:
        v = x[k]
        assert len(v) == n
        flat.extend(v)
    acc = F(0)
    for j in range(len(w)):
        s = -w[j]
        for i, xi in enumerate(flat):
            if xi:
                s += xi * P[i][j]
        acc += s * s
    return -acc / 2 + t


def dense_from_sqrt(reals, w, P, t):
    """dense triple in the canonical layout (real inputs sorted by name)."""
    offs = {}
    o = 0
    for k, n in reals:
        offs[k] = o
        o += n
    names = sorted(reals)
    perm = []
    for k, n in names:
        perm.extend(range(offs[k], offs[k] + n))
    r = len(w)
    Pp = [P[i] for i in perm]
    lam = [[sum((Pp[a][j] * Pp[b][j] for j in range(r)), F(0)) for b in range(len(perm))] for a in range(len(perm))]
    eta = [sum((Pp[a][j] * w[j] for j in range(r)), F(0)) for a in range(len(perm))]
    c = -sum((x * x for x in w), F(0)) / 2 + t
    return (names, lam, eta, c)


def dense_from_fn(f, reals):
    """dense triple of a black-box quadratic function by finite differences (exact)."""
    names = sorted(reals)
    tot = sum(n for _, n in names)
    pos = [(k, e) for k, n in names for e in range(n)]

    def pt(idx_vals):
        x = {k: [F(0)] * n for k, n in names}
        for i, v in idx_vals:
            k, e = pos[i]
            x[k][e] = x[k][e] + v
        return x
    f0 = f(pt([]))
    fp = [f(pt([(i, F(1))])) for i in range(tot)]
    fm = [f(pt([(i, F(-1))])) for i in range(tot)]
    eta = [(fp[i] - fm[i]) / 2 for i in range(tot)]
    lam = [[F(0)] * tot for _ in range(tot)]
    for i in range(tot):
        lam[i][i] = -(fp[i] + fm[i] - 2 * f0)
    for i in range(tot):
        for j in range(i + 1, tot):
            fij = f(pt([(i, F(1)), (j, F(1))]))
            v = -(fij - fp[i] - fp[j] + f0)
            lam[i][j] = v
            lam[j][i] = v
    return (names, lam, eta, f0)


def dense_eval(d, x):
    names, lam, eta, c = d
    flat = []
    for k, n in names:
        flat.extend(x[k])
    q = sum((flat[a] * lam[a][b] * flat[b] for a in range(len(flat)) for b in range(len(flat))), F(0))
    return -q / 2 + sum((flat[a] * eta[a] for a in range(len(flat))), F(0)) + c


def close(a, b, tol, scale=1.0):
    if tol == 0:
        return a == b
    return abs(float(a) - float(b)) <= tol * max(1.0, scale)


def dense_equal(d1, d2, tol):
    n1, l1, e1, c1 = d1
    n2, l2, e2, c2 = d2
    if n1 != n2:
        return False
    if tol == 0:
        return l1 == l2 and e1 == e2 and c1 == c2
    sc = max([1.0] + [abs(float(v)) for row in l1 for v in row] + [abs(float(v)) for v in e1] + [abs(float(c1))])
    return (all(close(a, b, tol, sc) for ra, rb in zip(l1, l2) for a, b in zip(ra, rb))
            and all(close(a, b, tol, sc) for a, b in zip(e1, e2)) and close(c1, c2, tol, sc))


def mat_inv(A):
    """exact inverse by Gauss-Jordan (Fractions); None if singular."""
    n = len(A)
    M = [list(map(F, row)) + [F(int(i == j)) for j in range(n)] for i, row in enumerate(A)]
    for c in range(n):
        piv = next((r for r in range(c, n) if M[r][c] != 0), None)
        if piv is None:
            return None
        M[c], M[piv] = M[piv], M[c]
        pv = M[c][c]
        M[c] = [v / pv for v in M[c]]
        for r in range(n):
            if r != c and M[r][c] != 0:
                fac = M[r][c]
                M[r] = [a - fac * b for a, b in zip(M[r], M[c])]
    return [row[n:] for row in M]


def mat_det(A):
    n = len(A)
    M = [list(map(F, row)) for row in A]
    det = F(1)
    for c in range(n):
        piv = next((r for r in range(c, n) if M[r][c] != 0), None)
        if piv is None:
            return F(0)
        if piv != c:
            M[c], M[piv] = M[piv], M[c]
            det = -det
        det *= M[c][c]
        for r in range(c + 1, n):
            if M[r][c] != 0:
                fac = M[r][c] / M[c][c]
                M[r] = [a - fac * b for a, b in zip(M[r], M[c])]
    return det


# ----------------------------------------------------------------------------------------------
# observing real funsor results
# ----------------------------------------------------------------------------------------------

def decompose(f):
    """funsor -> (Gaussian | None, [Tensor | Number]) or None when it is anything else (lazy)."""
    if isinstance(f, Gaussian):
        return f, []
    if isinstance(f, (Tensor, Number)):
        return None, [f]
    if isinstance(f, Contraction) and f.red_op is ops.null and f.bin_op is ops.add and not f.reduced_vars:
        gs = [t for t in f.terms if isinstance(t, Gaussian)]
        ts = [t for t in f.terms if isinstance(t, (Tensor, Number))]
        if len(gs) <= 1 and len(gs) + len(ts) == len(f.terms):
            return (gs[0] if gs else None), ts
    return None


class Obs:
    """Observation of a result by name: batch inputs, real inputs (layout order), data per batch point."""

    def __init__(self, f):
        dec = decompose(f)
        if dec is None:
            raise Declined("lazy:" + type(f).__name__.split("[")[0])
        self.f = f
        self.g, self.ts = dec
        self.batch = OrderedDict()
        for part in ([self.g] if self.g is not None else []) + self.ts:
            for k, d in part.inputs.items():
                if d.dtype != "real":
                    self.batch[k] = d.size
        for t in self.ts:
            if any(d.dtype == "real" for d in t.inputs.values()) or t.output.shape != ():
                raise Declined("tensor-part-not-scalar-constant")
        if self.g is not None:
            self.reals = [(k, tuple(d.shape)) for k, d in self.g.inputs.items() if d.dtype == "real"]
            self.gints = [k for k, d in self.g.inputs.items() if d.dtype != "real"]
            self.rank = self.g.white_vec.shape[-1]
        else:
            self.reals, self.gints, self.rank = [], [], 0
        self.layout = [(k, numel(s)) for k, s in self.reals]

    def at(self, p):
        if self.g is not None:
            idx = tuple(p[k] for k in self.gints)
            w = [fr(v) for v in np.asarray(self.g.white_vec)[idx]]
            P = [[fr(v) for v in row] for row in np.asarray(self.g.prec_sqrt)[idx]]
        else:
            w, P = [], []
        t = F(0)
        for part in self.ts:
            if isinstance(part, Number):
                t += fr(part.data)
            else:
                idx = tuple(p[k] for k in part.inputs)
                t += fr(np.asarray(part.data)[idx])
        return w, P, t


class Fn:
    """A specification: for every batch point a quadratic function of the named real inputs."""

    def __init__(self, batch, reals, at):
        self.batch = dict(batch)          # name -> size
        self.reals = dict(reals)          # name -> shape
        self.at = at                      # p -> (x: name -> flat list of Fraction) -> Fraction

    def layout(self):
        return [(k, numel(s)) for k, s in self.reals.items()]


def fn_of_obs(obs):
    cache = {}

    def at(p):
        key = tuple(sorted((k, p[k]) for k in obs.batch))
        if key not in cache:
            cache[key] = obs.at(p)
        w, P, t = cache[key]
        return lambda x: sqrt_eval(obs.layout, w, P, t, x)
    return Fn(obs.batch, OrderedDict(obs.reals), at)


def g_sexp(layout, w, P):
    return ["g", [[Q(k), n] for k, n in layout], len(w), list(w), [list(r) for r in P]]


def parse_g(s):
    """(g ((name n)*) rank (w) (rows)) -> (layout, w, P)"""
    assert s[0] == "g", s
    layout = [(str(k), int(n)) for k, n in s[1]]
    w = [F(a) for a in s[3]]
    P = [[F(a) for a in row] for row in s[4]]
    return layout, w, P


# ----------------------------------------------------------------------------------------------
# generators
# ----------------------------------------------------------------------------------------------

SHAPES = [(), (), (), (2,), (2,), (3,), (2, 2), (1, 2), (1,)]
REAL_NAMES = ["x", "y", "z", "u", "v"]
BATCH_NAMES = ["i", "j", "k", "l"]
DY = [-2, -1.5, -1, -1, -0.5, 0, 0, 0.5, 1, 1, 1.5, 2]


def dy_array(rng, shape, pool=DY):
    n = numel(shape)
    return np.array([rng.choice(pool) for _ in range(n)], dtype=np.float64).reshape(shape)


def dom(shape):
    return Reals[shape] if shape else Real


def gen_signature(rng, max_dim=8, nb_choices=(0, 0, 0, 1, 1, 1, 2, 2, 3)):
    nreal = rng.choice([1, 2, 2, 3])
    names = rng.sample(REAL_NAMES, nreal)
    reals = []
    for k in names:
        reals.append((k, rng.choice(SHAPES)))
    while sum(numel(s) for _, s in reals) > max_dim:
        i = max(range(len(reals)), key=lambda i: numel(reals[i][1]))
        reals[i] = (reals[i][0], ())
    nb = rng.choice(list(nb_choices))
    batch = [(k, rng.choice([1, 2, 2, 3] if nb < 3 else [1, 2, 2])) for k in rng.sample(BATCH_NAMES, nb)]
    order = [("r", k, s) for k, s in reals] + [("b", k, n) for k, n in batch]
    rng.shuffle(order)     # interleaved integer / real input order
    return order


def inputs_of(order):
    return OrderedDict((k, dom(s) if kind == "r" else Bint[s]) for kind, k, s in order)


def gen_sqrt_data(rng, order, rank=None):
    bshape = tuple(s for kind, _, s in order if kind == "b")
    dim = sum(numel(s) for kind, _, s in order if kind == "r")
    if rank is None:
        rank = rng.choice(list(range(0, 2 * dim + 2)))
    w = dy_array(rng, bshape + (rank,))
    P = dy_array(rng, bshape + (dim, rank))
    style = rng.random()
    if rank >= 2 and style < 0.2:
        P[..., :, rank - 1] = P[..., :, 0]           # duplicate column (rank deficient)
    elif dim >= 2 and style < 0.35:
        P[..., rng.randrange(dim), :] = 0            # an input direction without information
    return w, P, rank


def make_gaussian(rng, order, rank=None):
    """-> (funsor, Fn spec, exact flag, description)"""
    w, P, rank = gen_sqrt_data(rng, order, rank)
    if rng.random() < 0.08:          # integer-dtype parameters are legitimate real data
        w, P = np.round(w).astype(np.int64), np.round(P).astype(np.int64)
    inputs = inputs_of(order)
    g = Gaussian(w, P, inputs)
    bnames = [k for kind, k, _ in order if kind == "b"]
    layout = [(k, numel(s)) for kind, k, s in order if kind == "r"]
    dim = sum(n for _, n in layout)

    def at(p):
        idx = tuple(p[k] for k in bnames)
        wf = [fr(v) for v in w[idx]]
        Pf = [[fr(v) for v in row] for row in P[idx]]
        return lambda x: sqrt_eval(layout, wf, Pf, F(0), x)
    spec = Fn({k: s for kind, k, s in order if kind == "b"},
              OrderedDict((k, s) for kind, k, s in order if kind == "r"), at)
    exact = not rank > 2 * dim
    return g, spec, exact, dict(op="gaussian", order=[list(map(str, o)) for o in order], rank=rank,
                                white_vec=w.tolist(), prec_sqrt=P.tolist())


def gen_tril(rng, dim, bshape):
    L = np.zeros(bshape + (dim, dim))
    for idx in itertools.product(*[range(s) for s in bshape]):
        for a in range(dim):
            for b in range(a):
                L[idx + (a, b)] = rng.choice([-1, -0.5, 0, 0, 0.5, 1])
            L[idx + (a, a)] = rng.choice([0.5, 1, 1, 2])
    return L


def make_from_params(rng, order):
    """Constructor conversions: (mean | info_vec | white_vec) x (precision | covariance | scale_tril | prec_sqrt)."""
    bshape = tuple(s for kind, _, s in order if kind == "b")
    bnames = [k for kind, k, _ in order if kind == "b"]
    layout = [(k, numel(s)) for kind, k, s in order if kind == "r"]
    dim = sum(n for _, n in layout)
    scale = rng.choice(["precision", "covariance", "scale_tril", "prec_sqrt"])
    loc = rng.choice(["mean", "info_vec"] + (["white_vec"] if scale == "prec_sqrt" else []))
    L = gen_tril(rng, dim, bshape)
    LLt = L @ np.swapaxes(L, -1, -2)
    kw = {}
    extra = 0
    if scale == "precision":
        kw["precision"] = LLt
    elif scale == "covariance":
        kw["covariance"] = LLt
    elif scale == "scale_tril":
        kw["scale_tril"] = L
    else:
        # prec_sqrt accepts ANY dim x rank factor S (precision = S S'): lower triangular, column-permuted / sign-flipped
        # (orthogonal times triangular), upper triangular, dense generic; then optionally widened or narrowed
        style = rng.choice(["tril", "colperm", "upper", "dense", "dense"]) if dim >= 2 else "tril"
        S = L
        if style == "colperm":
            perm = list(range(dim))
            rng.shuffle(perm)
            signs = np.array([rng.choice([-1.0, 1.0]) for _ in range(dim)])
            S = L[..., :, perm] * signs
        elif style == "upper":
            S = np.swapaxes(L, -1, -2).copy()
        elif style == "dense":
            U = np.triu(dy_array(rng, bshape + (dim, dim), pool=[-1, -0.5, 0, 0.5, 1]), 1)
            cand = L + U
            ok = all(abs(mat_det([[F(float(v)) for v in row] for row in cand[idx]])) >= F(1, 4)
                     for idx in itertools.product(*[range(n) for n in bshape]))
            S = cand if ok else np.swapaxes(L, -1, -2).copy()
            style = "dense" if ok else "upper"
        extra = rng.choice([0, 0, 1, 2]) if loc != "info_vec" else rng.choice([0, 0, 1])
        Pm = np.concatenate([S, dy_array(rng, bshape + (dim, extra))], -1) if extra else S
        if loc != "info_vec" and rng.random() < 0.3 and dim >= 2:
            Pm = Pm[..., :, : dim - 1]      # rank-deficient prec_sqrt is fine with mean / white_vec
        kw["prec_sqrt"] = Pm
    rank = kw["prec_sqrt"].shape[-1] if scale == "prec_sqrt" else dim
    locv = dy_array(rng, bshape + ((rank,) if loc == "white_vec" else (dim,)))
    kw[loc] = locv
    kw2 = dict(kw)
    for key in list(kw2):            # integer-dtype constructor parameters when the values are integral
        if np.all(kw2[key] == np.round(kw2[key])) and rng.random() < 0.4:
            kw2[key] = kw2[key].astype(np.int64)
    if loc == "white_vec":
        g = Gaussian(kw2.pop("white_vec"), kw2.pop("prec_sqrt"), inputs_of(order))
    else:
        g = Gaussian(inputs=inputs_of(order), **kw2)

    def at(p):
        idx = tuple(p[k] for k in bnames)
        if scale == "prec_sqrt":
            Pm_ = [[F(v) for v in row] for row in kw["prec_sqrt"][idx]]
            lam = [[sum((a * b for a, b in zip(ra, rb)), F(0)) for rb in Pm_] for ra in Pm_]
        else:
            A = [[F(v) for v in row] for row in LLt[idx]]
            lam = A if scale == "precision" else mat_inv(A)
        lv = [F(v) for v in locv[idx]]
        if loc == "white_vec":
            return lambda x: sqrt_eval(layout, lv, Pm_, F(0), x)
        if loc == "mean":
            def f(x):
                flat = [v for k, n in layout for v in x[k]]
                dlt = [a - b for a, b in zip(flat, lv)]
                return -sum((dlt[a] * lam[a][b] * dlt[b] for a in range(dim) for b in range(dim)), F(0)) / 2
            return f
        linv = mat_inv(lam)
        c = -sum((lv[a] * linv[a][b] * lv[b] for a in range(dim) for b in range(dim)), F(0)) / 2

        def f(x):
            flat = [v for k, n in layout for v in x[k]]
            return (-sum((flat[a] * lam[a][b] * flat[b] for a in range(dim) for b in range(dim)), F(0)) / 2
                    + sum((flat[a] * lv[a] for a in range(dim)), F(0)) + c)
        return f
    spec = Fn({k: s for kind, k, s in order if kind == "b"},
              OrderedDict((k, s) for kind, k, s in order if kind == "r"), at)
    exact = (loc in ("mean", "white_vec") and scale == "prec_sqrt" and not rank > 2 * dim)
    return g, spec, exact, dict(op="construct", loc=loc, scale=scale, order=[list(map(str, o)) for o in order],
                                params={k: v.tolist() for k, v in kw.items()},
                                dtypes={k: str(v.dtype) for k, v in kw2.items()},
                                factor=(style if scale == "prec_sqrt" else None))


# ----------------------------------------------------------------------------------------------
# operations: each returns None (not applicable) or a dict
#   res: funsor | exception-free callable result, spec: Fn, model: p -> (request, t_expected) | None,
#   exact: bool (no QR/Cholesky involved in this step), desc: json-able
# ----------------------------------------------------------------------------------------------

def sub_point(p, names):
    return {k: p[k] for k in names}


def op_add(rng, cur, obs, spec):
    if obs.g is None:
        return None
    shared_r = [(k, s) for k, s in obs.reals if rng.random() < 0.6]
    new_r = [(k, rng.choice(SHAPES)) for k in rng.sample([n for n in REAL_NAMES if n not in spec.reals],
                                                         rng.choice([0, 0, 1]))]
    reals = shared_r + new_r
    if not reals:
        reals = [obs.reals[0]]
    while sum(numel(s) for _, s in reals) + sum(numel(s) for k, s in obs.reals if k not in dict(reals)) > 9:
        reals.pop()
        if not reals:
            return None
    shared_b = [(k, n) for k, n in obs.batch.items() if rng.random() < 0.6]
    free_b = [n for n in BATCH_NAMES if n not in obs.batch]
    new_b = [(free_b[0], rng.choice([1, 2]))] if free_b and len(obs.batch) < 2 and rng.random() < 0.3 else []
    order = [("r", k, s) for k, s in reals] + [("b", k, n) for k, n in shared_b + new_b]
    rng.shuffle(order)
    h, hspec, hexact, hdesc = make_gaussian(rng, order)
    swap = rng.random() < 0.4
    hobs = Obs(h)
    if not hexact:
        hspec = Fn(hspec.batch, hspec.reals, fn_of_obs(hobs).at)   # compressed at construction: use what was stored
    batch = dict(spec.batch)
    batch.update(hspec.batch)
    reals_all = OrderedDict(spec.reals)
    reals_all.update(hspec.reals)

    def at(p):
        fa = spec.at(sub_point(p, spec.batch))
        fb = hspec.at(sub_point(p, hspec.batch))
        return lambda x: fa({k: x[k] for k in spec.reals}) + fb({k: x[k] for k in hspec.reals})

    def model(p):
        wa, Pa, ta = obs.at(sub_point(p, obs.batch))
        wb, Pb, tb = hobs.at(sub_point(p, hobs.batch))
        a, b = g_sexp(obs.layout, wa, Pa), g_sexp(hobs.layout, wb, Pb)
        if swap:
            a, b = b, a
        return f"C12 add {sx(a)} {sx(b)}", ta + tb
    return dict(run=(lambda: h + cur) if swap else (lambda: cur + h), spec=Fn(batch, reals_all, at), model=model,
                exact=hexact, rank=obs.rank + hobs.rank, desc=dict(op="add", swap=swap, other=hdesc))


def op_add_tensor(rng, cur, obs, spec):
    """Gaussian + Tensor (a Gaussian mixture term): the Tensor may lack some batch inputs or bring a new one."""
    if obs.g is None:
        return None
    pool = [(k, n) for k, n in obs.batch.items() if rng.random() < 0.5]
    free_b = [n for n in BATCH_NAMES if n not in obs.batch]
    if free_b and len(obs.batch) < 2 and rng.random() < 0.2:
        pool.append((free_b[0], 2))
    data = dy_array(rng, tuple(n for _, n in pool))
    t = Tensor(data, OrderedDict((k, Bint[n]) for k, n in pool))
    batch = dict(spec.batch)
    batch.update(pool)
    swap = rng.random() < 0.5

    def at(p):
        f = spec.at(sub_point(p, spec.batch))
        tv = F(float(data[tuple(p[k] for k, _ in pool)]))
        return lambda x: f(x) + tv
    return dict(run=(lambda: t + cur) if swap else (lambda: cur + t), spec=Fn(batch, spec.reals, at), model=None,
                exact=True, rank=obs.rank, desc=dict(op="add_tensor", inputs=pool, data=data.tolist(), swap=swap))


VALUE_DTYPES = ["float64"] * 6 + ["int64", "int64", "int32", "bool", "float32", "raw-int", "raw-float"]


def cast_value(rng, shape, style=None):
    """A real-valued array in one of the dtypes a caller may legitimately pass for a Real input
    -> (array as passed to funsor, float64 array of the same mathematical value, style)"""
    style = style or rng.choice(VALUE_DTYPES)
    if style in ("int64", "int32", "raw-int"):
        val = dy_array(rng, shape, pool=[-2, -1, 0, 1, 1, 2, 3])
        arr = val.astype(np.int32 if style == "int32" else np.int64)
    elif style == "bool":
        val = dy_array(rng, shape, pool=[0, 1])
        arr = val.astype(bool)
    elif style == "float32":
        val = dy_array(rng, shape)
        arr = val.astype(np.float32)
    else:
        val = dy_array(rng, shape)
        arr = val
    return arr, val, style


def gen_value(rng, shape, batch_pool):
    """A value for a real input, possibly depending on batch inputs, in mixed dtypes (float64 / int64 / int32 / bool /
    float32 data inside a Tensor of dtype 'real', or a raw numpy array) -> (value, p -> float64 ndarray, desc)."""
    deps = [(k, n) for k, n in batch_pool if rng.random() < 0.35][:2]
    arr, data, style = cast_value(rng, tuple(n for _, n in deps) + tuple(shape))
    if style.startswith("raw") and not deps:
        t = arr                       # a bare numpy array: Funsor.__call__ / Subs convert it with to_funsor
    else:
        t = Tensor(arr, OrderedDict((k, Bint[n]) for k, n in deps))
    return t, (lambda p: data[tuple(p[k] for k, _ in deps)]), dict(deps=deps, data=data.tolist(), dtype=style)


def op_subs_real(rng, cur, obs, spec, chosen=None, all_variants=False):
    """Substitution of real values for some or all real inputs.  The same substitution is offered in several
    *variants* that must all give the same function: kwargs call (funsor sorts them into input order), a directly
    constructed Subs(g, pairs) for every permutation of the pairs, and a chained call whose first step stays lazy
    (g(k=u*u)(others…, u=r)) so that the fused pairs reach Gaussian.eager_subs out of input order.  Chains pick one
    variant at random; the dedicated stream checks all of them."""
    if obs.g is None:
        return None
    names = [k for k, _ in obs.reals]
    if chosen is None:
        kind = rng.random()
        if kind < 0.3:
            chosen = list(names)
        else:
            chosen = [k for k in names if rng.random() < 0.5] or [rng.choice(names)]
    pool = list(obs.batch.items())
    free_b = [n for n in BATCH_NAMES if n not in obs.batch]
    if free_b and rng.random() < 0.4:
        pool.append((free_b[0], rng.choice([1, 2])))
    lazy_k = rng.choice(chosen)
    uname = [n for n in ["t0", "t1", "t2"] if n not in spec.reals][0]
    vals = {}
    descs = {}
    batch = dict(spec.batch)
    kwargs = {}
    root = None
    for k in chosen:
        t, get, d = gen_value(rng, spec.reals[k], pool)
        if k == lazy_k:
            # value of the lazily substituted input is the square of a dyadic tensor r (exact)
            if not isinstance(t, Tensor):
                t = Tensor(np.asarray(t, dtype=np.float64))
            root = Tensor(np.asarray(t.data, dtype=np.float64), t.inputs)
            d = dict(d, squared=True)
            t = Tensor(np.asarray(t.data, dtype=np.float64) ** 2, t.inputs)
            get = (lambda p, g_=get: np.asarray(g_(p)) ** 2)
        elif spec.reals[k] == () and not d["deps"] and rng.random() < 0.1:
            t = Number(float(d["data"]))
        vals[k] = get
        descs[k] = d
        kwargs[k] = t
        for bk, bn in d["deps"]:
            batch[bk] = bn
    rest = OrderedDict((k, s) for k, s in spec.reals.items() if k not in chosen)

    def at(p):
        f = spec.at(sub_point(p, spec.batch))
        fixed = {k: [F(v) for v in np.asarray(vals[k](p)).reshape(-1)] for k in chosen}

        def g(x):
            full = dict(fixed)
            full.update(x)
            return f(full)
        return g

    def model_for(order):
        def model(p):
            w, P, t = obs.at(sub_point(p, obs.batch))
            pt = [[Q(k), [F(v) for v in np.asarray(vals[k](p)).reshape(-1)]] for k in order]
            return f"C12 subsreal {sx(g_sexp(obs.layout, w, P))} {sx(pt)}", t
        return model
    fn = Fn(batch, rest, at)
    in_order = [k for k in names if k in chosen]
    variants = [("call", in_order, lambda: cur(**kwargs))]
    perms = list(itertools.permutations(in_order))
    if len(perms) > 6:
        perms = rng.sample(perms, 6)
    for perm in perms:
        variants.append(("subs", list(perm), lambda perm=perm: Subs(cur, tuple((k, kwargs[k]) for k in perm))))
    others = [k for k in in_order if k != lazy_k]
    uvar = Variable(uname, dom(spec.reals[lazy_k]))
    for oth in ([others, list(reversed(others))] if len(others) > 1 else [others]):
        variants.append(("chained", [lazy_k] + oth,
                         lambda oth=oth: cur(**{lazy_k: uvar * uvar})(**dict([(k, kwargs[k]) for k in oth]
                                                                            + [(uname, root)]))))
    # The chained variant grounds the inputs in several eager_subs calls: an intermediate Gaussian over fewer real
    # inputs is re-constructed, and GaussianMeta compresses it with a QR (inexact) as soon as rank > 2 * its dim.
    # It is exact only if no possible intermediate (the free inputs plus at least one substituted input) can
    # trigger that; otherwise the step is compared at rtol 1e-9 like every other QR path.
    dim_min = sum(numel(sh) for sh in rest.values()) + min(numel(spec.reals[k]) for k in chosen)
    chained_exact = obs.rank <= 2 * dim_min
    steps = [dict(run=run, spec=fn, model=model_for(order), exact=(chained_exact if label == "chained" else True),
                  rank=obs.rank,
                  desc=dict(op="subs_real", variant=label, pair_order=order, lazy_first=lazy_k, values=descs))
             for label, order, run in variants]
    step = dict(rng.choice(steps))
    if all_variants:
        step["variants"] = steps
    return step


def op_subs_mixed(rng, cur, obs, spec):
    """ONE simultaneous substitution mixing renamings with values: a batch input and/or a real input is renamed while
    another real input gets a value that mentions the OLD name of a renamed input (a Tensor over the old batch name,
    an affine expression in a variable called like the renamed real input), the NEW name, or neither.  Simultaneous
    semantics: names inside the values are free and are not touched by the renaming.  The pairs are given as kwargs
    or as Subs(g, pairs) in a shuffled order; the result is also compared with the hand-staged sequence through
    fresh intermediate names."""
    if obs.g is None or len(obs.reals) < 1:
        return None
    rnames = [k for k, _ in obs.reals]
    bnames = list(obs.batch)
    y = rng.choice(rnames)                                   # the input that receives a value
    others = [k for k in rnames if k != y]
    ren_b = rng.choice(bnames) if bnames and rng.random() < 0.7 else None
    ren_r = rng.choice(others) if others and rng.random() < 0.7 else None
    if ren_b is None and ren_r is None:
        return None
    new_b = [n for n in BATCH_NAMES + ["m", "n"] if n not in obs.batch][0] if ren_b else None
    new_r = [n for n in REAL_NAMES + ["q", "r"] if n not in rnames][0] if ren_r else None
    yshape = spec.reals[y]
    kinds = []
    if ren_b:
        kinds += ["tensor-old-batch", "tensor-old-batch", "tensor-new-batch", "tensor-both"]
    if ren_r:
        kinds += ["affine-old-real", "affine-old-real"]
        if spec.reals[ren_r] == yshape:
            kinds += ["affine-new-real"]
    kinds += ["plain"]
    kind = rng.choice(kinds)
    batch = {k: n for k, n in spec.batch.items() if k != ren_b}
    if ren_b:
        batch[new_b] = spec.batch[ren_b]
    reals = OrderedDict()
    for k, sh in spec.reals.items():
        if k == y:
            continue
        reals[new_r if k == ren_r else k] = sh
    nb = spec.batch[ren_b] if ren_b else None
    if kind.startswith("tensor") or kind == "plain":
        deps = {"tensor-old-batch": [ren_b], "tensor-new-batch": [new_b], "tensor-both": [ren_b, new_b]}.get(kind, [])
        data = dy_array(rng, tuple(nb for _ in deps) + tuple(yshape))
        value = Tensor(data, OrderedDict((k, Bint[nb]) for k in deps))
        for k in deps:
            batch[k] = nb

        def yval(p, X):
            return np.asarray(data[tuple(p[k] for k in deps)], dtype=np.float64)
        vdesc = dict(deps=deps, data=data.tolist())
    else:
        vname = ren_r if kind == "affine-old-real" else new_r
        a_, b_ = rng.choice([-2, -1, 0.5, 1, 2]), rng.choice([-1, 0, 0.5, 1])
        V = Variable(vname, dom(yshape))
        value = V * a_ + b_
        if vname in reals and reals[vname] != yshape:
            return None
        reals[vname] = yshape

        def yval(p, X):
            return a_ * np.asarray(X[vname], dtype=np.float64).reshape(yshape) + b_
        vdesc = dict(var=vname, a=a_, b=b_)
    if sum(numel(sh) for sh in reals.values()) > 9:
        return None

    def at(p):
        q = {k: p[k] for k in spec.batch if k != ren_b}
        if ren_b:
            q[ren_b] = p[new_b]
        f = spec.at(q)

        def g(X):
            Xa = {k: np.array([float(v) for v in X[k]]).reshape(reals[k]) for k in reals}
            full = {}
            for k in spec.reals:
                if k == y:
                    full[k] = [F(float(v)) for v in np.asarray(yval(p, Xa)).reshape(-1)]
                elif k == ren_r:
                    full[k] = X[new_r]
                else:
                    full[k] = X[k]
            return f(full)
        return g
    pairs = [(y, value)]
    if ren_b:
        pairs.append((ren_b, Variable(new_b, Bint[nb]) if rng.random() < 0.5 else new_b))
    if ren_r:
        pairs.append((ren_r, Variable(new_r, dom(spec.reals[ren_r])) if rng.random() < 0.5 else new_r))
    rng.shuffle(pairs)
    how = rng.choice(["call", "subs"])

    def run():
        if how == "call":
            return cur(**dict(pairs))
        return Subs(cur, tuple(pairs))

    def staged():
        # rename through fresh intermediate names, substitute the value, then rename to the final names
        r = cur
        tmp = {}
        if ren_b:
            tmp[ren_b] = "tmpb__"
        if ren_r:
            tmp[ren_r] = "tmpr__"
        r = r(**tmp)
        r = r(**{y: value})
        fin = {}
        if ren_b:
            fin["tmpb__"] = new_b
        if ren_r:
            fin["tmpr__"] = new_r
        return r(**fin)
    return dict(run=run, staged=staged, spec=Fn(batch, reals, at), model=None, exact=True, rank=obs.rank,
                desc=dict(op="subs_mixed", kind=kind, how=how, order=[k for k, _ in pairs], value_for=y, value=vdesc,
                          rename_batch=[ren_b, new_b], rename_real=[ren_r, new_r]))


def op_subs_int(rng, cur, obs, spec):
    if not obs.batch:
        return None
    i = rng.choice(list(obs.batch))
    n = obs.batch[i]
    kind = rng.choice(["int", "slice", "tensor", "var", "tensor-diag"])
    batch = {k: s for k, s in spec.batch.items() if k != i}
    free = [b for b in BATCH_NAMES + ["m"] if b not in obs.batch]
    j = rng.choice([free[0], i])
    if kind == "int":
        idx = rng.randrange(n)
        val, mp, desc = idx, (lambda p: idx), dict(index=idx)
    elif kind == "slice":
        start = rng.randrange(n)
        stop = rng.randint(start, n)
        step = rng.choice([1, 1, 2])
        size = max(0, (stop + step - 1 - start) // step)
        if size == 0:
            return None
        val = Slice(j, start, stop, step, n)
        batch[j] = size
        mp, desc = (lambda p: start + step * p[j]), dict(slice=[j, start, stop, step, n])
    elif kind == "var":
        val = Variable(j, Bint[n])
        batch[j] = n
        mp, desc = (lambda p: p[j]), dict(var=j)
    else:
        others = [k for k in obs.batch if k != i]
        if kind == "tensor-diag" and others:
            j = rng.choice(others)       # index tensor over an input the Gaussian already has
            m = obs.batch[j]
        else:
            m = rng.choice([1, 2, 3])
        ind = [rng.randrange(n) for _ in range(m)]
        val = Tensor(np.array(ind), OrderedDict([(j, Bint[m])]), n)
        batch[j] = m
        mp, desc = (lambda p: ind[p[j]]), dict(tensor=[j, ind])

    def at(p):
        q = {k: p[k] for k in spec.batch if k != i}
        q[i] = mp(p)
        return spec.at(q)
    return dict(run=lambda: cur(**{i: val}), spec=Fn(batch, spec.reals, at), model=None, exact=True, rank=obs.rank,
                desc=dict(op="subs_int", name=i, kind=kind, **desc))


def op_rename(rng, cur, obs, spec):
    if obs.g is None:
        return None
    names = [k for k, _ in obs.reals]
    style = rng.choice(["fresh", "swap", "fresh2"])
    ren = {}
    free = [n for n in REAL_NAMES + ["q", "r"] if n not in names]
    if style == "swap":
        same = [(a, b) for a in names for b in names if a < b and spec.reals[a] == spec.reals[b]]
        if not same:
            style = "fresh"
        else:
            a, b = rng.choice(same)
            ren = {a: b, b: a}
    if style != "swap":
        ks = rng.sample(names, min(len(names), 1 if style == "fresh" else 2))
        for k, nk in zip(ks, free):
            ren[k] = nk
    inv = {v: k for k, v in ren.items()}
    reals = OrderedDict((ren.get(k, k), s) for k, s in spec.reals.items())

    def at(p):
        f = spec.at(p)
        return lambda x: f({inv.get(k, k): v for k, v in x.items()})

    def model(p):
        w, P, t = obs.at(p)
        return f"C12 rename {sx(g_sexp(obs.layout, w, P))} {sx([[Q(a), Q(b)] for a, b in ren.items()])}", t
    kwargs = {k: Variable(v, dom(spec.reals[k])) for k, v in ren.items()}
    if rng.random() < 0.5:
        kwargs = {k: v.name for k, v in kwargs.items()}     # g(x='y') string form
    return dict(run=lambda: cur(**kwargs), spec=Fn(spec.batch, reals, at), model=model, exact=True, rank=obs.rank,
                desc=dict(op="rename", ren=ren))


def op_align(rng, cur, obs, spec):
    if not isinstance(cur, Gaussian):
        return None
    names = list(cur.inputs)
    rng.shuffle(names)
    if rng.random() < 0.3:
        names = names[: rng.randint(1, len(names))]
        # base-class contract says all names, Gaussian.align accepts a prefix; both are exercised
    rnames = [k for k in names if k in spec.reals]

    def model(p):
        w, P, t = obs.at(p)
        return f"C12 align {sx(g_sexp(obs.layout, w, P))} {sx([Q(k) for k in rnames])}", t
    return dict(run=lambda: cur.align(tuple(names)), spec=spec, model=model, exact=True, rank=obs.rank,
                desc=dict(op="align", names=names), expect_order=names)


def coef(rng, shape, pool):
    deps = [(k, n) for k, n in pool if rng.random() < 0.25][:1]
    data = dy_array(rng, tuple(n for _, n in deps) + tuple(shape), pool=[-2, -1, -0.5, 0.5, 1, 1, 2])
    t = Tensor(data, OrderedDict((k, Bint[n]) for k, n in deps))
    return t, (lambda p: data[tuple(p[k] for k, _ in deps)]), deps


def gen_affine_expr(rng, shape, pick_var, pool):
    """An affine funsor expression of output `shape` in fresh/existing real variables.
    -> (expr, {var: shape}, valfn(p, {var: ndarray}) -> ndarray, deps, text)"""
    deps_all = []

    def c(sh):
        t, get, deps = coef(rng, sh, pool)
        deps_all.extend(deps)
        return t, get
    if shape == ():
        form = rng.choice(["ay+b", "y-z", "(y+b)/2", "v@yv", "yv[0]", "yv.sum", "neg"])
        if form == "ay+b":
            y = pick_var(())
            (a, ga), (b, gb) = c(()), c(())
            return (a * Variable(y, Real) + b, {y: ()}, lambda p, x: ga(p) * x[y] + gb(p), deps_all, form)
        if form == "y-z":
            y, z = pick_var(()), pick_var(())
            if y == z:
                return None
            return (Variable(y, Real) - Variable(z, Real), {y: (), z: ()}, lambda p, x: x[y] - x[z], deps_all, form)
        if form == "(y+b)/2":
            y = pick_var(())
            b, gb = c(())
            return ((Variable(y, Real) + b) / 2.0, {y: ()}, lambda p, x: (x[y] + gb(p)) / 2.0, deps_all, form)
        if form == "v@yv":
            m = rng.choice([2, 3])
            y = pick_var((m,))
            v, gv = c((m,))
            return (v @ Variable(y, Reals[m]), {y: (m,)}, lambda p, x: gv(p) @ x[y], deps_all, form)
        if form == "yv[0]":
            m = rng.choice([2, 3])
            y = pick_var((m,))
            e = rng.randrange(m)
            return (Variable(y, Reals[m])[e], {y: (m,)}, lambda p, x: x[y][e], deps_all, form)
        if form == "yv.sum":
            y = pick_var((2,))
            return (Variable(y, Reals[2]).sum(), {y: (2,)}, lambda p, x: x[y].sum(), deps_all, form)
        y = pick_var(())
        return (-Variable(y, Real), {y: ()}, lambda p, x: -x[y], deps_all, form)
    if len(shape) == 1:
        n = shape[0]
        form = rng.choice(["yv+b", "M@yv", "yv@M", "yv*a", "neg"])
        if form == "yv+b":
            y = pick_var(shape)
            b, gb = c(shape)
            return (Variable(y, Reals[n]) + b, {y: shape}, lambda p, x: x[y] + gb(p), deps_all, form)
        if form == "M@yv":
            m = rng.choice([1, 2, 3])
            y = pick_var((m,))
            M, gM = c((n, m))
            return (M @ Variable(y, Reals[m]), {y: (m,)}, lambda p, x: gM(p) @ x[y], deps_all, form)
        if form == "yv@M":
            m = rng.choice([1, 2, 3])
            y = pick_var((m,))
            M, gM = c((m, n))
            return (Variable(y, Reals[m]) @ M, {y: (m,)}, lambda p, x: x[y] @ gM(p), deps_all, form)
        if form == "yv*a":
            y = pick_var(shape)
            a, ga = c(())
            return (Variable(y, Reals[n]) * a, {y: shape}, lambda p, x: x[y] * ga(p), deps_all, form)
        y = pick_var(shape)
        return (-Variable(y, Reals[n]), {y: shape}, lambda p, x: -x[y], deps_all, form)
    a_, b_ = shape
    form = rng.choice(["ym+B", "A@ym", "ym@B", "reshape"])
    if form == "ym+B":
        y = pick_var(shape)
        B, gB = c(shape)
        return (Variable(y, Reals[shape]) + B, {y: shape}, lambda p, x: x[y] + gB(p), deps_all, form)
    if form == "A@ym":
        y = pick_var(shape)
        A, gA = c((a_, a_))
        return (A @ Variable(y, Reals[shape]), {y: shape}, lambda p, x: gA(p) @ x[y], deps_all, form)
    if form == "ym@B":
        y = pick_var(shape)
        B, gB = c((b_, b_))
        return (Variable(y, Reals[shape]) @ B, {y: shape}, lambda p, x: x[y] @ gB(p), deps_all, form)
    y = pick_var((a_ * b_,))
    return (Variable(y, Reals[a_ * b_]).reshape(shape), {y: (a_ * b_,)}, lambda p, x: x[y].reshape(shape),
            deps_all, form)


def probe_affine(valfn, p, newvars, old_shape):
    """const and coefficient matrices (new_size x old_size) of an affine numpy function, exactly."""
    zeros = {k: np.zeros(s) for k, s in newvars.items()}
    const = np.asarray(valfn(p, zeros), dtype=np.float64).reshape(-1)
    assert const.shape == (numel(old_shape),)
    coeffs = []
    for k, s in newvars.items():
        rows = []
        for e in range(numel(s)):
            x = {kk: v.copy() for kk, v in zeros.items()}
            b = np.zeros(numel(s))
            b[e] = 1.0
            x[k] = b.reshape(s)
            rows.append([F(v) for v in (np.asarray(valfn(p, x), dtype=np.float64).reshape(-1) - const)])
        coeffs.append([Q(k), numel(s), rows])
    return [F(v) for v in const], coeffs


def op_affine(rng, cur, obs, spec, given=None):
    """Affine substitution of 1-2 real inputs.  The variables of the substituted expressions are fresh names,
    unsubstituted inputs of the Gaussian, variables of the other expressions, the substituted input itself
    (self-reference, y := 2*y+1) or another substituted input (cross-reference, x := y+1, y := 2*x)."""
    if obs.g is None:
        return None
    names = [k for k, _ in obs.reals]
    if given is not None:
        targets = list(given)
    else:
        targets = rng.sample(names, rng.choice([1, 1, 2, 2]) if len(names) > 1 else 1)
    kept = [k for k in names if k not in targets]
    pool = list(obs.batch.items())
    used = {}
    budget = [9 - sum(numel(spec.reals[k]) for k in kept)]

    def pick_var_for(shape):
        cands = [k for k in kept if spec.reals[k] == shape] + [k for k, s in used.items() if s == shape]
        clash = [k for k in targets if used.get(k, shape) == shape]
        r = rng.random()
        if clash and r < 0.35:
            k = rng.choice(clash)                    # self- or cross-reference
        elif cands and r < 0.65:
            k = rng.choice(cands)
        else:
            free = [n for n in REAL_NAMES + ["q", "r", "s"] if n not in names and n not in used]
            k = free[0]
        if k not in kept and k not in used:
            budget[0] -= numel(shape)
        used[k] = shape
        return k
    exprs = {}
    batch = dict(spec.batch)
    if given is not None:
        # pre-built expression OBJECTS (reused across several Gaussians by the affine-reuse stream)
        exprs = dict(given)
        for e in exprs.values():
            used.update(e[1])
    else:
        for k in targets:
            e = gen_affine_expr(rng, spec.reals[k], pick_var_for, pool)
            if e is None or budget[0] < 0:
                return None
            exprs[k] = e
        if rng.random() < 0.5:
            exprs = dict(reversed(list(exprs.items())))
    for e in exprs.values():
        for bk, bn in e[3]:
            batch[bk] = bn
    newreals = OrderedDict((k, spec.reals[k]) for k in kept)
    for k, s in used.items():
        newreals[k] = s

    def at(p):
        f = spec.at(sub_point(p, spec.batch))

        def g(x):
            xa = {k: np.array([float(v) for v in x[k]]).reshape(newreals[k]) for k in newreals}
            full = {k: x[k] for k in kept}
            for k, e in exprs.items():
                full[k] = [F(float(v)) for v in np.asarray(e[2](p, xa), dtype=np.float64).reshape(-1)]
            return f(full)
        return g

    def model(p):
        w, P, t = obs.at(sub_point(p, obs.batch))
        subs = []
        for k, e in exprs.items():
            const, coeffs = probe_affine(e[2], p, e[1], spec.reals[k])
            subs.append([Q(k), const, coeffs])
        return f"C12 subsaffine {sx(g_sexp(obs.layout, w, P))} {sx(subs)}", t
    kwargs = {k: e[0] for k, e in exprs.items()}
    return dict(run=lambda: cur(**kwargs), spec=Fn(batch, newreals, at), model=model, exact=True, rank=obs.rank,
                desc=dict(op="affine", forms={k: e[4] for k, e in exprs.items()},
                          vars={k: list(e[1]) for k, e in exprs.items()},
                          selfref=any(k in e[1] for k, e in exprs.items()),
                          crossref=any(k2 in e[1] for k, e in exprs.items() for k2 in exprs if k2 != k)))


def op_cat(rng, cur, obs, spec, partname=None):
    if obs.g is None or not obs.batch:
        return None
    if partname is None:
        partname = False if "cat-partname" in AVOID else rng.random() < 0.4
    i = rng.choice(list(obs.batch))
    nparts = rng.choice([1, 2, 2])
    if partname == "focus":       # dedicated stream: sizes chosen so that the transposition is not caught by an assert
        i, nparts = "i", 1
    parts = []
    # a batch input that only the discrete tables of mixture parts carry (no Gaussian factor has it)
    free_tb = [n for n in BATCH_NAMES + ["m"] if n not in obs.batch and n != "c"]
    tb = free_tb[0] if free_tb and rng.random() < 0.6 else None
    tb_size = rng.choice([1, 2, 2, 3])
    others = [n for k, n in obs.batch.items() if k != i and n > obs.batch[i]]
    want_total = rng.choice(others) if others and rng.random() < 0.6 else None
    if want_total is not None:
        nparts = 1
    for _ in range(nparts):
        rl = [("r", k, s) for k, s in spec.reals.items()]
        bl = [("b", k, n) for k, n in spec.batch.items() if k != i and rng.random() < 0.8]
        psize = 1 if partname == "focus" else (want_total - obs.batch[i]) if want_total else rng.choice([1, 2])
        if tb and not want_total and partname != "focus" and rng.random() < 0.6:
            psize = tb_size              # equal-size coincidence between the cat axis and the table-only input
        order = rl + bl + [("b", i, psize)]
        rng.shuffle(order)
        h, hs, hexact, hdesc = make_gaussian(rng, order)
        ho = Obs(h)
        if not hexact:
            hs = Fn(hs.batch, hs.reals, fn_of_obs(ho).at)
        if partname != "focus" and rng.random() < 0.6:
            # mixture part: Tensor + Gaussian / Gaussian + Tensor; the table may carry batch inputs the Gaussian
            # lacks (tb, other inputs of the cat) and lack some that the Gaussian has
            tin = [(i, psize)] if rng.random() < 0.8 else []
            tin += [(k, n) for k, n in spec.batch.items() if k != i and rng.random() < 0.5]
            if tb and rng.random() < 0.8:
                tin.append((tb, tb_size))
            if rng.random() < 0.4:
                rng.shuffle(tin)
            tdata = dy_array(rng, tuple(n for _, n in tin))
            T = Tensor(tdata, OrderedDict((k, Bint[n]) for k, n in tin))
            tfirst = rng.random() < 0.6
            h = T + h if tfirst else h + T
            hb = dict(hs.batch)
            hb.update(tin)

            def hat(q, hs_=hs, tin_=tin, tdata_=tdata):
                f = hs_.at(sub_point(q, hs_.batch))
                tv = F(float(tdata_[tuple(q[k] for k, _ in tin_)]))
                return lambda x: f(x) + tv
            hs = Fn(hb, hs.reals, hat)
            ho = Obs(h)
            if not hexact:      # compressed part: Tensor + shift was added in float, use what is stored
                hs = Fn(hb, hs.reals, fn_of_obs(ho).at)
            hdesc = dict(hdesc, mixture=dict(tensor_inputs=tin, tensor=tdata.tolist(), tensor_first=tfirst))
        parts.append((h, hs, ho, hexact, hdesc))
    pos = rng.randrange(nparts + 1)
    seq = parts[:pos] + [(cur, spec, obs, True, None)] + parts[pos:]
    name = "c" if partname else i
    sizes = [s[1].batch[i] for s in seq]
    batch = {k: n for k, n in spec.batch.items() if k != i}
    for s in seq:
        for k, n in s[1].batch.items():
            if k != i:
                batch[k] = n
    batch[name] = sum(sizes)

    def find(p):
        idx = p[name]
        for s, n in zip(seq, sizes):
            if idx < n:
                return s, idx
            idx -= n
        raise IndexError
    maxrank = max(s[2].rank for s in seq)

    def at(p):
        s, idx = find(p)
        q = {k: p[k] for k in s[1].batch if k != i}
        q[i] = idx
        return s[1].at(q)

    def model(p):
        s, idx = find(p)
        q = {k: p[k] for k in s[2].batch if k != i}
        q[i] = idx
        w, P, t = s[2].at(q)
        return f"C12 pad {sx(g_sexp(s[2].layout, w, P))} {maxrank}", t
    exact = all(s[3] for s in seq)
    fs = tuple(s[0] for s in seq)
    return dict(run=lambda: Cat(name, fs, i), spec=Fn(batch, spec.reals, at), model=model, exact=exact, rank=maxrank,
                desc=dict(op="cat", name=name, part_name=i, pos=pos, parts=[s[4] for s in parts]))


def op_plate(rng, cur, obs, spec, focus=False, red=None):
    if obs.g is None or not obs.batch:
        return None
    names = list(obs.batch)
    if red is None:
        red = rng.sample(names, rng.randint(1, len(names)))
    absent = any(not set(red) <= set(t.inputs) for t in obs.ts)
    if focus and not absent:
        return None
    if not focus and absent and "plate-mixture" in AVOID:
        return None        # region of an open finding: Tensor by-product not depending on a summed input
    red_in_order = [k for k in obs.gints if k in red] + [k for k in red if k not in obs.gints]
    batch = {k: n for k, n in spec.batch.items() if k not in red}
    pts = list(itertools.product(*[range(spec.batch[k]) for k in red_in_order]))

    def at(p):
        fs = []
        for pt in pts:
            q = dict(p)
            q.update(zip(red_in_order, pt))
            fs.append(spec.at(q))
        return lambda x: sum((f(x) for f in fs), F(0))

    def model(p):
        gs = []
        tt = F(0)
        for pt in pts:
            q = dict(p)
            q.update(zip(red_in_order, pt))
            w, P, t = obs.at(q)
            gs.append(g_sexp(obs.layout, w, P))
            tt += t
        return f"C12 fuse {sx(gs)}", tt
    return dict(run=lambda: cur.reduce(ops.add, frozenset(red)), spec=Fn(batch, spec.reals, at), model=model,
                exact=True, rank=obs.rank * len(pts), desc=dict(op="plate", reduced=red))


OPS = [("add", op_add, 4), ("add_tensor", op_add_tensor, 2), ("subs_mixed", op_subs_mixed, 3), ("subs_real", op_subs_real, 4), ("subs_int", op_subs_int, 2), ("rename", op_rename, 2),
       ("align", op_align, 2), ("affine", op_affine, 4), ("cat", op_cat, 2), ("plate", op_plate, 2)]


# ----------------------------------------------------------------------------------------------
# one step: run, observe, compare
# ----------------------------------------------------------------------------------------------

def batch_points(batch, rng, limit=10):
    names = sorted(batch)
    pts = [dict(zip(names, idx)) for idx in itertools.product(*[range(batch[k]) for k in names])]
    if len(pts) > limit:
        pts = rng.sample(pts, limit)
    return pts


def gen_point(rng, reals):
    return {k: dy_array(rng, s, pool=[-2, -1, -0.5, 0, 0.5, 1, 2, 3]) for k, s in reals.items()}


def value_table(val, batch):
    """Tensor/Number over (a subset of) batch -> function p -> float"""
    if isinstance(val, Number):
        return lambda p: val.data
    if not isinstance(val, Tensor) or val.output.shape != ():
        raise Declined("point-eval-lazy")
    data = np.asarray(val.data)
    names = list(val.inputs)
    for k in names:
        if k not in batch:
            raise KeyError(k)
    return lambda p: data[tuple(p[k] for k in names)]


def table_of(f, names, sizes):
    """ndarray of a ground funsor indexed by the named batch inputs (in this order) + output dims;
    inputs `f` does not have are broadcast (sizes: name -> size)."""
    from ..futil import table
    extra = [k for k in f.inputs if k not in names]
    if extra:
        raise KeyError(f"unexpected inputs {extra} in result")
    tab = table(f, [(k, sizes[k]) for k in names])
    if tab is None:
        raise Declined("lazy:" + type(f).__name__.split("[")[0])
    return tab


class CaseFail(Exception):
    def __init__(self, name, **kw):
        self.name = name
        self.kw = kw


def check_step(env, rng, res, step, exact, counts):
    """Compare one result with its spec (and the Lean model).  Raises CaseFail on a wrong value."""
    spec = step["spec"]
    tol = 0 if exact else RTOL
    obs = Obs(res)
    if getattr(env, "trace", None) is not None:
        img = [tuple(res.inputs)]
        if obs.g is not None:
            img += [np.asarray(obs.g.white_vec).tobytes(), np.asarray(obs.g.prec_sqrt).tobytes()]
        img += [np.asarray(t.data).tobytes() for t in obs.ts]
        env.trace.append(img)
    # ---- inputs of the result ------------------------------------------------------------
    got_inputs = {k: (("real", tuple(d.shape)) if d.dtype == "real" else ("bint", d.size))
                  for k, d in res.inputs.items()}
    want_inputs = {k: ("real", tuple(s)) for k, s in spec.reals.items()}
    want_inputs.update({k: ("bint", n) for k, n in spec.batch.items()})
    if isinstance(res, (Tensor, Number)) or obs.g is None:
        # a ground result may have lost batch inputs it does not depend on only if it is constant there
        pass
    if got_inputs != want_inputs:
        raise CaseFail("C12.result-inputs", expected=str(sorted(want_inputs.items())),
                       got=str(sorted(got_inputs.items())))
    order = step.get("expect_order")
    if order is not None:
        counts("fidelity:align-order-" + ("ok" if list(res.inputs)[:len(order)] == order else "differs"))
    # ---- dense triple at every batch point ------------------------------------------------
    layout_spec = [(k, numel(s)) for k, s in spec.reals.items()]
    pts = batch_points(spec.batch, rng)
    reqs, req_meta = [], []
    for p in pts:
        w, P, t = obs.at(p)
        d_impl = dense_from_sqrt(obs.layout, w, P, t)
        d_spec = dense_from_fn(spec.at(p), layout_spec)
        if not dense_equal(d_impl, d_spec, tol):
            if tol == 0 and dense_equal(d_impl, d_spec, ULP_SLACK):
                # last-bit rounding on a path flagged exact (BLAS kernels may round differently with operand
                # alignment): arithmetic noise, not a disagreement with the dense form — counted, not gated
                counts("rounding-on-exact-path")
                continue
            if tol == 0 and dense_equal(d_impl, d_spec, RTOL):
                counts("inexact-on-exact-path")
            raise CaseFail(f"C12.{step['desc']['op']}-ne-dense", expected=dense_str(d_spec), got=dense_str(d_impl),
                           point=p)
        if env.use_driver and step.get("model") is not None:
            rq, t_exp = step["model"](p)
            reqs.append(rq)
            req_meta.append((p, t_exp, d_spec, (w, P, t)))
    # ---- evaluation at a random dyadic point ----------------------------------------------
    xpass, x = {}, {}
    for k, sh in spec.reals.items():          # mixed dtypes: the point is the float64-promoted value
        xpass[k], x[k], style = cast_value(rng, sh)
        if style != "float64":
            counts("point-eval:dtype:" + style)
    xf = {k: [F(float(v)) for v in np.asarray(a).reshape(-1)] for k, a in x.items()}
    evals = None
    if x:
        try:
            val = res(**{k: (a if rng.random() < 0.2 else Tensor(a)) for k, a in xpass.items()})
            tab = value_table(val, spec.batch)
            evals = [(p, tab(p)) for p in pts]
        except Declined:
            counts("point-eval:lazy")
        except DECLINE_ERRORS as e:
            counts("point-eval:declined:" + type(e).__name__)
    else:
        tab = value_table(res, spec.batch)
        evals = [(p, tab(p)) for p in pts]
    if evals is not None:
        for p, v in evals:
            want = spec.at(p)(xf)
            if v != v or abs(v) == float("inf"):
                raise CaseFail(f"C12.{step['desc']['op']}-eval-nonfinite", expected=str(want), got=str(v), point=p)
            if not close(F(float(v)), want, tol if tol else 0, abs(float(want))):
                # evaluation goes through float matmul of exact dyadics: still exact on exact paths, up to the
                # last bit (see ULP_SLACK)
                if not tol and close(F(float(v)), want, ULP_SLACK, abs(float(want))):
                    counts("rounding-on-exact-path")
                    continue
                raise CaseFail(f"C12.{step['desc']['op']}-eval-ne-quadratic", expected=str(want), got=str(F(float(v))),
                               point=p, x={k: a.tolist() for k, a in x.items()})
        counts("point-eval:ok")
    # ---- Lean model -------------------------------------------------------------------------
    if reqs:
        n_model = len(reqs)
        # echo of dense_of_sqrt: evaluate the impl's own (w, P) at x in Lean, both ways
        if obs.g is not None and x:
            w, P, t = req_meta[0][3]
            reqs.append(f"C12 eval {sx(g_sexp(obs.layout, w, P))} {sx([[Q(k), v] for k, v in xf.items()])}")
        answers = env.driver.ask(reqs)
        for (p, t_exp, d_spec, (w, P, t)), ans in zip(req_meta, answers[:n_model]):
            if not ans.startswith("ok "):
                env.infra(f"driver answered {ans!r} for {reqs[0][:300]}")
                return obs
            body = ans[3:]
            if body == "declined":
                counts("model:declined")
                continue
            s = parse_sx(body)
            if s[0] == "num":
                d_model = ([], [], [], F(s[1]) + t_exp)
                same_sqrt = (obs.g is None)
            else:
                lay, mw, mP = parse_g(s)
                d_model = dense_from_sqrt(lay, mw, mP, t_exp)
                same_sqrt = (lay == obs.layout and mw == w and mP == P)
            counts("fidelity:sqrt-" + ("identical" if same_sqrt else "differs"))
            if not dense_equal(d_model, d_spec, 0):
                raise CaseFail("model-ne-spec", expected=dense_str(d_spec), got=dense_str(d_model), point=p,
                               request=reqs[0][:2000])
            counts("model:dense-equal")
        if len(answers) > n_model:
            a = parse_sx(answers[-1][3:]) if answers[-1].startswith("ok ") else None
            w, P, t = req_meta[0][3]
            want = sqrt_eval(obs.layout, w, P, F(0), xf)
            if a is None or F(a[0]) != want or F(a[1]) != want:
                raise CaseFail("model-eval-ne-oracle", expected=str(want), got=str(answers[-1]))
            counts("model:eval-echo")
    return obs


def dense_str(d):
    names, lam, eta, c = d
    return str(dict(layout=names, precision=[[str(v) for v in r] for r in lam], info_vec=[str(v) for v in eta],
                    const=str(c)))


class Env:
    def __init__(self, ctx, use_driver):
        self.ctx = ctx
        self.use_driver = use_driver and ctx.driver.available()
        self.driver = ctx.driver
        self.trace = None          # when a list: bitwise images of every observed result (history gate)

    def infra(self, msg):
        self.ctx.infra_errors.append(msg)


def run_case(env, case_seed, tier, counts, stream="clean", sibling=False):
    """One chain.  Returns (n_steps_checked, nontrivial_key, sample) or raises CaseFail with witness."""
    if stream == "subs-order":
        return subs_order_case(env, case_seed, tier, counts)
    if stream == "affine-reuse":
        return affine_reuse_case(env, case_seed, tier, counts)
    if stream == "rules":
        return rules_case(env, case_seed, tier, counts)
    if stream == "affine-nonaffine-sum":
        return nonaffine_sum_case(env, case_seed, tier, counts)
    if stream == "multi-index":
        return multi_index_case(env, case_seed, tier, counts)
    if stream == "multi-index-grid":
        return multi_index_grid_case(env, case_seed, tier, counts)
    rng = random.Random(case_seed)
    order = gen_signature(rng)
    if sibling:
        # same input names in the same order, block sizes of the real inputs rotated (another layout)
        rs = [o for o in order if o[0] == "r"]
        shs = [o[2] for o in rs]
        shs = shs[1:] + shs[:1]
        it = iter(shs)
        order = [("r", o[1], next(it)) if o[0] == "r" else o for o in order]
    history = []
    try:
        if stream == "plate-mixture":
            order = [("r", "x", rng.choice(SHAPES)), ("b", "k", rng.choice([2, 3]))]
            rng.shuffle(order)
            dim = numel(order[0][2]) if order[0][0] == "r" else numel(order[1][2])
            cur, spec, exact, desc = make_gaussian(rng, order, rank=rng.randint(0, 2 * dim))
            tval = rng.choice([1.0, -2.0, 0.5])
            cur = cur + Tensor(np.array(tval))
            spec0 = spec
            spec = Fn(spec0.batch, spec0.reals, lambda p, s0=spec0, tv=tval: (lambda x, f=s0.at(p): f(x) + F(tv)))
        elif stream == "cat-partname":
            order = [o for o in order if o[0] == "r"] + [("b", "i", 1), ("b", "j", 2)]
            rng.shuffle(order)
            cur, spec, exact, desc = make_gaussian(rng, order)
        elif rng.random() < 0.25:
            cur, spec, exact, desc = make_from_params(rng, order)
        else:
            cur, spec, exact, desc = make_gaussian(rng, order)
    except DECLINE_ERRORS as e:
        counts("construct:declined:" + type(e).__name__)
        return 0, None, None
    history.append(desc)
    counts("start:" + desc["op"] + (":" + desc["loc"] + "+" + desc["scale"] if desc["op"] == "construct" else ""))
    if desc.get("factor"):
        counts("construct:prec_sqrt-factor:" + desc["factor"])
    step0 = dict(spec=spec, desc=desc, model=None)
    nsteps = 0
    key = [case_seed]
    try:
        try:
            obs = check_step(env, rng, cur, step0, exact, counts)
        except Declined as e:
            counts("declined:" + str(e))
            return 0, None, None
        nsteps += 1
        spec = Fn(spec.batch, spec.reals, fn_of_obs(obs).at)
        counts("rank-class:" + ("zero" if obs.rank == 0 else "deficient" if obs.rank < sum(n for _, n in obs.layout)
                                else "square" if obs.rank == sum(n for _, n in obs.layout) else "wide"))
        depth = 1 if stream != "clean" else rng.choice([1, 2, 3, 3])
        for _ in range(depth):
            if stream == "plate-mixture":
                name, step = "plate", op_plate(rng, cur, obs, spec, focus=True)
            elif stream == "cat-partname":
                name, step = "cat", op_cat(rng, cur, obs, spec, partname="focus")
            else:
                cands = [(n, f) for n, f, wgt in OPS for _ in range(wgt)]
                name, f = rng.choice(cands)
                step = f(rng, cur, obs, spec)
            if step is None:
                counts("op-not-applicable:" + name)
                continue
            history.append(step["desc"])
            try:
                res = step["run"]()
            except DECLINE_ERRORS as e:
                counts(f"declined:{name}:{type(e).__name__}")
                break
            step_exact = exact and step["exact"]
            rdim = sum(numel(sh) for sh in step["spec"].reals.values())
            if rdim and step["rank"] > 2 * rdim:
                step_exact = False          # GaussianMeta.__call__ compresses with a QR
                counts("compress-expected")
            try:
                nobs = check_step(env, rng, res, step, step_exact, counts)
            except Declined as e:
                counts(f"declined:{name}:{e}")
                break
            counts("op:" + name)
            if name == "subs_mixed":
                counts("subs_mixed:" + step["desc"]["kind"])
                try:
                    sres = step["staged"]()
                    check_step(env, rng, sres, step, step_exact, counts)
                    counts("subs_mixed:staged-agrees")
                except Declined as e:
                    counts(f"subs_mixed:staged-declined:{e}")
                except DECLINE_ERRORS as e:
                    counts(f"subs_mixed:staged-declined:{type(e).__name__}")
            if name == "affine":
                counts("affine:selfref" if step["desc"]["selfref"] else "affine:no-selfref")
                counts("affine:crossref" if step["desc"]["crossref"] else "affine:no-crossref")
            counts("compare:" + ("exact" if step_exact else "rtol"))
            nsteps += 1
            cur, obs, exact = res, nobs, step_exact
            spec = Fn(step["spec"].batch, step["spec"].reals, fn_of_obs(nobs).at)
            key.append(name)
            if obs.g is None:
                break
    except CaseFail as cf:
        cf.kw["witness"] = dict(case_seed=case_seed, stream=stream, tier=tier, history=history)
        raise
    sample = dict(case_seed=case_seed, ops=[h["op"] for h in history])
    return nsteps, (tuple(key) if nsteps >= 2 else None), sample


PY_TEMPLATE = """
# replay for C12: re-runs the generated chain (seeded) against the funsor under FUNSOR_REPO (default /repo)
# history of the chain (operations and their exact parameters) is in the replay document's "witness".
import sys
sys.path.insert(0, {verif!r})
from fv.harness import c12
FAILS = c12.replay_case({case_seed}, {tier!r}, {stream!r})
"""


class _Quiet:
    """Minimal stand-in for Ctx when replaying without a driver."""

    def __init__(self):
        self.infra_errors = []

        class D:
            def available(self_inner):
                return False
        self.driver = D()


def replay_case(case_seed, tier="quick", stream="clean"):
    env = Env(_Quiet(), use_driver=False)
    if stream == "aba":
        traces = []
        for sib in (False, True, False):
            env.trace = []
            try:
                run_case(env, case_seed, tier, lambda *a, **k: None, sibling=sib)
            except CaseFail as cf:
                print("still fails:", cf.name)
                return True
            traces.append(env.trace)
        return traces[0] != traces[2]
    try:
        run_case(env, case_seed, tier, lambda *a, **k: None, stream)
    except CaseFail as cf:
        print("still fails:", cf.name, {k: v for k, v in cf.kw.items() if k != "witness"})
        return True
    return False


def replay(ctx, doc):
    w = doc.get("witness") or {}
    if "case_seed" not in w:
        return True
    return replay_case(w["case_seed"], w.get("tier", "quick"), w.get("stream", "clean"))


def report(ctx, cf, stream):
    from ..common import VERIF
    w = cf.kw.pop("witness", None)
    kind = "input"
    name = cf.name
    if name in ("model-ne-spec", "model-eval-ne-oracle"):
        # the Lean model and the Python oracle disagree although the implementation agrees with the oracle
        ctx.infra_errors.append(f"Lean model disagrees with the oracle: {name} {cf.kw} {w}")
        return
    ctx.fail(kind, name, witness=w, expected=cf.kw.get("expected"), got=cf.kw.get("got"),
             detail={k: str(v) for k, v in cf.kw.items() if k not in ("expected", "got")},
             python=PY_TEMPLATE.format(verif=str(VERIF), case_seed=w["case_seed"], tier=w["tier"], stream=stream))


def offsets_stream(ctx, n):
    """_compute_offsets vs the model's computeOffsets (callable in isolation)."""
    rng = ctx.rng
    cases, reqs = [], []
    for _ in range(n):
        order = gen_signature(rng, max_dim=12)
        inputs = inputs_of(order)
        offs, tot = _compute_offsets(inputs)
        lay = [[Q(k), numel(s)] for kind, k, s in order if kind == "r"]
        cases.append((order, list(offs.items()), tot))
        reqs.append(f"C12 offsets {sx(lay)}")
    answers = ctx.driver.ask(reqs)
    for (order, offs, tot), ans in zip(cases, answers):
        s = parse_sx(ans[3:])
        got = ([(str(k), int(v)) for k, v in s[0]], int(s[1]))
        ctx.case(nontrivial_key=("offsets", str(order)) if len(offs) > 1 else None)
        if got != (offs, tot):
            ctx.fail("input", "C12.compute-offsets", witness=dict(order=[list(map(str, o)) for o in order]),
                     expected=str(got), got=str((offs, tot)),
                     python=("from collections import OrderedDict\nfrom funsor.domains import Bint, Real, Reals\n"
                             "from funsor.gaussian import _compute_offsets\n"
                             f"order = {[(kind, k, s) for kind, k, s in order]!r}\n"
                             "inputs = OrderedDict((k, (Reals[s] if s else Real) if kind == 'r' else Bint[s]) "
                             "for kind, k, s in order)\n"
                             "offs, tot = _compute_offsets(inputs)\nexp, o = OrderedDict(), 0\n"
                             "for kind, k, s in order:\n"
                             "    if kind == 'r':\n        exp[k] = o\n        n = 1\n"
                             "        for d in s:\n            n *= d\n        o += n\n"
                             "FAILS = (offs, tot) != (exp, o)\n"))
    ctx.count("offsets-cases", n)


def subs_order_case(env, case_seed, tier, counts):
    """>= 3 real inputs, >= 2 grounded, >= 1 free: every permutation of the substitution pairs (direct Subs), the
    kwargs call and the chained/fused call must give the same Gaussian."""
    rng = random.Random(case_seed)
    nreal = rng.choice([3, 3, 4])
    reals = [("r", k, rng.choice([(), (), (2,), (1,), (1, 2)])) for k in rng.sample(REAL_NAMES, nreal)]
    batch = [("b", k, rng.choice([1, 2, 3])) for k in rng.sample(BATCH_NAMES, rng.choice([0, 1, 1, 2]))]
    order = reals + batch
    rng.shuffle(order)
    dim = sum(numel(s) for _, _, s in reals)
    cur, spec, exact, desc = make_gaussian(rng, order, rank=rng.randint(1, 2 * dim))
    obs = Obs(cur)
    names = [k for k, _ in obs.reals]
    ngr = rng.randint(2, len(names) - 1)
    chosen = rng.sample(names, ngr)
    step = op_subs_real(rng, cur, obs, spec, chosen=chosen, all_variants=True)
    n_ok = 0
    for v in step["variants"]:
        history = [desc, v["desc"]]
        label = v["desc"]["variant"]
        try:
            res = v["run"]()
        except DECLINE_ERRORS as e:
            counts(f"subs-order:{label}:declined:{type(e).__name__}")
            continue
        rdim = sum(numel(sh) for sh in v["spec"].reals.values())
        try:
            check_step(env, rng, res, v, exact and v["exact"] and not (rdim and v["rank"] > 2 * rdim), counts)
        except Declined as e:
            counts(f"subs-order:{label}:declined:{e}")
            continue
        except CaseFail as cf:
            cf.kw["witness"] = dict(case_seed=case_seed, stream="subs-order", tier=tier, history=history)
            raise
        in_order = v["desc"]["pair_order"] == [k for k in names if k in chosen]
        counts(f"subs-order:{label}:" + ("input-order" if in_order else "out-of-order"))
        n_ok += 1
    return n_ok, (case_seed, "subs-order"), dict(case_seed=case_seed, ops=["gaussian", "subs_real x all orders"])


# ----------------------------------------------------------------------------------------------
# multi-index stream: ONE substitution call that fixes / re-indexes TWO OR MORE batch inputs
# ----------------------------------------------------------------------------------------------
# (round 14, seed C12_14)  op_subs_int indexes exactly one batch input per call, so no chain ever reached
# Gaussian._eager_subs_int with more than one (name, index) pair: any per-pair axis bookkeeping done there (axis
# computed up front but applied after earlier pairs already removed / moved axes) was invisible.  This stream covers
# the whole class: 2-4 batch inputs (equal sizes, so that a transposed or shifted axis is a WRONG VALUE, and mixed
# sizes), real inputs before / after / between them, 2..all batch inputs substituted in one call with python ints,
# funsor Numbers, Slices, renamings and index Tensors (over a fresh shared name or over an untouched batch input) in any
# mixture, optionally together with a value for a real input; as kwargs, as Subs(g, pairs) in every order of the
# pairs, one pair at a time, and split into two calls.  Oracle = the Gaussian's own defining data at the mapped
# batch point (pointwise definition of substitution), never another funsor code path.

MI_LAYOUTS = ["reals-last", "reals-first", "interleaved", "shuffled"]


def _mi_order(rng, bnames, sizes, reals, layout):
    b = [("b", k, n) for k, n in zip(bnames, sizes)]
    r = [("r", k, s) for k, s in reals]
    if layout == "reals-last":
        return b + r
    if layout == "reals-first":
        return r + b
    if layout == "interleaved":
        out = []
        for i in range(max(len(b), len(r))):
            out += b[i:i + 1] + r[i:i + 1]
        return out
    out = b + r
    rng.shuffle(out)
    return out


def _mi_check_variants(env, rng, cur, spec, exact, rank, pairs, mps, yfix, desc0, history, counts, variants_of,
                       case_seed, stream, tier):
    """Build the spec of the simultaneous substitution `pairs` and check every variant produced by variants_of."""
    chosen = [k for k, _ in pairs if k in spec.batch]
    batch = {k: n for k, n in spec.batch.items() if k not in chosen}
    batch.update(desc0["new_batch"])
    rest = OrderedDict((k, s) for k, s in spec.reals.items() if k not in yfix)

    def at(p):
        q = {k: p[k] for k in spec.batch if k not in chosen}
        for k in chosen:
            q[k] = mps[k](p)
        f = spec.at(q)
        if not yfix:
            return f
        return lambda x: f(dict(yfix, **x))
    fn = Fn(batch, rest, at)
    rdim = sum(numel(sh) for sh in rest.values())
    step_exact = exact and not (rdim and rank > 2 * rdim)
    # one-at-a-time / split variants re-construct an intermediate Gaussian over fewer real inputs; GaussianMeta
    # compresses it with a QR (inexact) as soon as rank > 2 * its dim (same rule as op_subs_real's chained variant)
    seq_exact = step_exact and (not yfix or rank <= 2 * (rdim + min(len(v) for v in yfix.values())))
    n_ok = 0
    for label, run in variants_of(pairs):
        d = dict(desc0, op="subs_multi_int", variant=label)
        d.pop("new_batch", None)
        step = dict(spec=fn, desc=d, model=None)
        this_exact = seq_exact if label.split(":")[0] in ("chained", "split") else step_exact
        try:
            res = run()
        except DECLINE_ERRORS as e:
            counts(f"multi-index:{label.split(':')[0]}:declined:{type(e).__name__}")
            continue
        try:
            check_step(env, rng, res, step, this_exact, counts)
        except Declined as e:
            counts(f"multi-index:{label.split(':')[0]}:declined:{e}")
            continue
        except CaseFail as cf:
            cf.kw["witness"] = dict(case_seed=case_seed, stream=stream, tier=tier, history=history + [d])
            raise
        counts(f"multi-index:{label.split(':')[0]}:ok")
        n_ok += 1
    return n_ok


def _mi_variants(rng, cur, full=True):
    def variants_of(pairs):
        out = [("call", lambda: cur(**dict(pairs)))]
        perms = list(itertools.permutations(pairs))
        if len(perms) > 6:
            perms = rng.sample(perms, 6)
        if not full:
            perms = [tuple(reversed(pairs))]
        for perm in perms:
            out.append(("subs:" + ",".join(k for k, _ in perm), lambda perm=perm: Subs(cur, tuple(perm))))
        if full:
            def chained(perm):
                r = cur
                for k, v in perm:
                    r = r(**{k: v})
                return r
            for perm in rng.sample(perms, min(2, len(perms))):
                out.append(("chained:" + ",".join(k for k, _ in perm), lambda perm=perm: chained(perm)))
            if len(pairs) > 2:
                cut = rng.randint(1, len(pairs) - 1)
                sh = list(pairs)
                rng.shuffle(sh)
                out.append(("split:%d" % cut, lambda sh=sh, cut=cut: cur(**dict(sh[:cut]))(**dict(sh[cut:]))))
        return out
    return variants_of


def multi_index_case(env, case_seed, tier, counts):
    """Random member of the multi-index class (see the block comment above)."""
    rng = random.Random(case_seed)
    nb = rng.choice([2, 3, 3, 3, 4])
    if rng.random() < 0.65:
        sizes = [rng.choice([2, 2, 3])] * nb
        counts("multi-index:sizes:equal")
    else:
        sizes = [rng.choice([1, 2, 2, 3]) for _ in range(nb)]
        counts("multi-index:sizes:mixed")
    bnames = rng.sample(BATCH_NAMES, nb)
    reals = [(k, rng.choice([(), (), (2,), (1,)])) for k in rng.sample(REAL_NAMES, rng.choice([1, 1, 2]))]
    layout = rng.choice(MI_LAYOUTS)
    order = _mi_order(rng, bnames, sizes, reals, layout)
    dim = sum(numel(s) for _, s in reals)
    try:
        cur, spec, exact, desc = make_gaussian(rng, order, rank=rng.randint(0, 2 * dim + 1))
    except DECLINE_ERRORS as e:
        counts("multi-index:construct:declined:" + type(e).__name__)
        return 0, None, None
    rank = desc["rank"]
    border = [k for kind, k, _ in order if kind == "b"]
    chosen = rng.sample(border, rng.randint(2, nb))
    chosen.sort(key=border.index)
    unchosen = [k for k in border if k not in chosen]
    all_int = rng.random() < 0.45
    fresh = ["m", "n", "o", "q", "a"]
    shared, shared_n = "s", rng.choice([1, 2, 3])
    new_batch, pairs, mps, kinds, descs = {}, [], {}, [], {}
    for i in chosen:
        n = spec.batch[i]
        kind = rng.choice(["int", "number"] if all_int else
                          ["int", "number", "slice", "var", "name", "tensor-shared", "tensor-shared", "tensor-existing"])
        if kind == "tensor-existing" and not unchosen:
            kind = "tensor-shared"
        if kind in ("int", "number"):
            v = rng.randrange(n)
            val = v if kind == "int" else Number(v, n)
            mps[i], descs[i] = (lambda p, v=v: v), dict(kind=kind, index=v)
        elif kind == "slice":
            j = fresh.pop(0)
            start = rng.randrange(n)
            stop = rng.randint(start + 1, n)
            stp = rng.choice([1, 1, 2])
            size = (stop + stp - 1 - start) // stp
            val = Slice(j, start, stop, stp, n)
            new_batch[j] = size
            mps[i], descs[i] = (lambda p, j=j, start=start, stp=stp: start + stp * p[j]), dict(kind=kind, slice=[j, start, stop, stp, n])
        elif kind in ("var", "name"):
            j = fresh.pop(0)
            val = Variable(j, Bint[n]) if kind == "var" else j
            new_batch[j] = n
            mps[i], descs[i] = (lambda p, j=j: p[j]), dict(kind=kind, to=j)
        else:
            if kind == "tensor-shared":
                j, m = shared, shared_n
                new_batch[j] = m
            else:
                j = rng.choice(unchosen)
                m = spec.batch[j]
            ind = [rng.randrange(n) for _ in range(m)]
            val = Tensor(np.array(ind), OrderedDict([(j, Bint[m])]), n)
            mps[i], descs[i] = (lambda p, j=j, ind=ind: ind[p[j]]), dict(kind=kind, tensor=[j, ind])
        kinds.append(kind)
        pairs.append((i, val))
    yfix = {}
    if rng.random() < 0.25:
        for y in rng.sample([k for k, _ in reals], rng.randint(1, len(reals))):
            arr = dy_array(rng, spec.reals[y])
            pairs.append((y, Tensor(arr)))
            yfix[y] = [F(float(v)) for v in arr.reshape(-1)]
            descs[y] = dict(kind="real-value", data=arr.tolist())
        counts("multi-index:with-real-value")
    counts("multi-index:kinds:" + ("all-int" if all(k in ("int", "number") for k in kinds) else "mixed"))
    counts(f"multi-index:n-indexed:{len(chosen)}-of-{nb}")
    counts("multi-index:layout:" + layout)
    if len(chosen) >= 2 and border.index(chosen[1]) < len(border) - 1:
        counts("multi-index:batch-input-right-of-second-index")
    desc0 = dict(pairs=descs, new_batch=new_batch)
    n_ok = _mi_check_variants(env, rng, cur, spec, exact, rank, pairs, mps, yfix, desc0, [desc], counts,
                              _mi_variants(rng, cur), case_seed, "multi-index", tier)
    return n_ok, (case_seed, "multi-index"), dict(case_seed=case_seed, ops=["gaussian", "subs_multi_int x variants"])


def multi_index_grid():
    """Enumerated part: 3 batch inputs of one size n in {2, 3}, every real/batch layout, every subset of >= 2 of the
    batch inputs; inside one case EVERY combination of plain integer indices is checked."""
    return [(layout, n, sub) for layout in MI_LAYOUTS[:3] for n in (2, 3)
            for sub in ((0, 1), (0, 2), (1, 2), (0, 1, 2))]


def multi_index_grid_case(env, case_seed, tier, counts):
    grid = multi_index_grid()
    layout, n, sub = grid[case_seed % len(grid)]
    rng = random.Random(case_seed)
    bnames = ["i", "j", "k"]
    reals = [("x", ()), ("y", (2,))]
    order = _mi_order(rng, bnames, [n] * 3, reals, layout)
    cur, spec, exact, desc = make_gaussian(rng, order, rank=rng.choice([1, 2, 3, 4]))
    rank = desc["rank"]
    n_ok = 0
    for vals in itertools.product(range(n), repeat=len(sub)):
        pairs = [(bnames[a], (v if rng.random() < 0.7 else Number(v, n))) for a, v in zip(sub, vals)]
        mps = {bnames[a]: (lambda p, v=v: v) for a, v in zip(sub, vals)}
        desc0 = dict(pairs={bnames[a]: dict(kind="int", index=v) for a, v in zip(sub, vals)}, new_batch={})
        n_ok += _mi_check_variants(env, rng, cur, spec, exact, rank, pairs, mps, {}, desc0, [desc], counts,
                                   _mi_variants(rng, cur, full=False), case_seed, "multi-index-grid", tier)
    counts("multi-index-grid:configs")
    counts("multi-index-grid:index-tuples", n ** len(sub))
    return n_ok, (case_seed % len(grid), "multi-index-grid"), dict(case_seed=case_seed, grid=[layout, n, list(sub)])


def multi_index_stream(ctx, env, n):
    for gi in range(len(multi_index_grid())):
        seed = gi + len(multi_index_grid()) * ctx.rng.getrandbits(32)
        try:
            nsteps, key, sample = run_case(env, seed, ctx.tier, ctx.count, stream="multi-index-grid")
        except CaseFail as cf:
            report(ctx, cf, "multi-index-grid")
            continue
        if nsteps:
            ctx.case(sample=sample, nontrivial_key=key)
    for _ in range(n):
        seed = ctx.rng.getrandbits(48)
        try:
            nsteps, key, sample = run_case(env, seed, ctx.tier, ctx.count, stream="multi-index")
        except CaseFail as cf:
            report(ctx, cf, "multi-index")
            continue
        if nsteps:
            ctx.case(sample=sample, nontrivial_key=key)
            ctx.count("multi-index:cases")


def result_image(res):
    obs = Obs(res)
    img = [tuple((k, str(d)) for k, d in res.inputs.items())]
    if obs.g is not None:
        img += [np.asarray(obs.g.white_vec).tobytes(), np.asarray(obs.g.prec_sqrt).tobytes()]
    img += [np.asarray(t.data).tobytes() for t in obs.ts]
    return img


def affine_reuse_case(env, case_seed, tier, counts):
    """The same affine expression OBJECTS (Tensor(A) @ u + b, scaled / sliced variables, sums of variables; batched
    and unbatched coefficients) are substituted for the real input `x` of several different Gaussians in sequence —
    batched over i:3, unbatched, batched over i:1, batched over another name — in random order and with repeats.
    Every step is gated as usual (inputs of the result, dense triple, value at a point, Lean model), and repeating a
    (expression, Gaussian) pair must reproduce its first result bit for bit (or its first decline)."""
    rng = random.Random(case_seed)
    shape = rng.choice([(), (), (2,), (3,)])
    vnames = {}

    def pick_var(sh):
        cands = [k for k, s in vnames.items() if s == sh]
        if cands and rng.random() < 0.3:
            return rng.choice(cands)
        k = [n for n in ["u", "v", "y", "q", "r", "s"] if n not in vnames][0]
        vnames[k] = sh
        return k
    exprs = []
    for _ in range(rng.choice([2, 3])):
        pool_b = rng.choice([[], [], [], [("i", 3)], [("j", 2)]])
        e = None
        for _try in range(5):
            e = gen_affine_expr(rng, shape, pick_var, pool_b * 4)
            if e is not None:
                break
        if e is not None and len(vnames) <= 5:
            exprs.append(e)
    if not exprs:
        return 0, None, None
    layouts = [[("b", "i", 3)], [], [("b", "i", 1)], [("b", "j", 2)], [("b", "i", 3), ("b", "j", 2)]]
    gaussians = []
    for bl in layouts:
        order = [("r", "x", shape)] + ([("r", "z", rng.choice(SHAPES))] if rng.random() < 0.5 else []) + list(bl)
        rng.shuffle(order)
        dim = sum(numel(o[2]) for o in order if o[0] == "r")
        g, spec, exact, desc = make_gaussian(rng, order, rank=rng.randint(1, 2 * dim))
        gaussians.append((g, spec, exact, desc, Obs(g)))
    pairs = []
    for ei, e in enumerate(exprs):
        for gi, (g, spec, exact, desc, obs) in enumerate(gaussians):
            if all(spec.batch.get(bk, bn) == bn for bk, bn in e[3]):     # batch sizes compatible
                pairs.append((ei, gi))
    rng.shuffle(pairs)
    sequence = pairs + [rng.choice(pairs) for _ in range(min(4, len(pairs)))]
    first = {}
    nsteps = 0
    for ei, gi in sequence:
        g, spec, exact, desc, obs = gaussians[gi]
        e = exprs[ei]
        step = op_affine(rng, g, obs, spec, given={"x": e})
        history = [dict(op="affine-reuse", expressions=[x[4] for x in exprs], sequence=sequence, failing=[ei, gi]),
                   desc, step["desc"]]
        try:
            try:
                res = step["run"]()
            except DECLINE_ERRORS as ex:
                img = ("declined", type(ex).__name__)
                counts("affine-reuse:declined:" + type(ex).__name__)
                if (ei, gi) in first and first[(ei, gi)] != img:
                    raise CaseFail("C12.history-dependent-result", expected="the result of the first substitution",
                                   got=f"{type(ex).__name__} when the same expression is substituted into the same "
                                       f"Gaussian again after other Gaussians")
                first.setdefault((ei, gi), img)
                continue
            rdim = sum(numel(sh) for sh in step["spec"].reals.values())
            try:
                check_step(env, rng, res, step, exact and not (rdim and step["rank"] > 2 * rdim), counts)
            except Declined as d:
                counts(f"affine-reuse:lazy:{d}")
                continue
            img = result_image(res)
            if (ei, gi) in first and first[(ei, gi)] != img:
                raise CaseFail("C12.history-dependent-result", expected="the arrays of the first substitution",
                               got="different arrays / inputs when the same expression object is substituted into the "
                                   "same Gaussian again after other Gaussians")
            first.setdefault((ei, gi), img)
        except CaseFail as cf:
            cf.kw["witness"] = dict(case_seed=case_seed, stream="affine-reuse", tier=tier, history=history)
            raise
        counts("affine-reuse:step")
        counts("affine-reuse:form:" + e[4])
        nsteps += 1
    return nsteps, (case_seed, "affine-reuse"), dict(case_seed=case_seed, ops=["affine-reuse"], steps=nsteps)


def rules_case(env, case_seed, tier, counts):
    """Direct constructions for pattern rules the chains never fire: the `compress_gaussians` interpretation
    (gaussian._compress_gaussians: QR-compress every Gaussian with rank > dim) and Gaussian - Gaussian
    (gaussian.eager_sub, a lazy difference: checked through its value at points)."""
    from funsor.interpretations import compress_gaussians
    rng = random.Random(case_seed)
    order = gen_signature(rng, max_dim=5)
    dim = sum(numel(sh) for kind, _, sh in order if kind == "r")
    history = []
    n = 0
    try:
        with compress_gaussians:
            g, spec, exact, desc = make_gaussian(rng, order, rank=rng.randint(dim + 1, 2 * dim))
        desc = dict(desc, op="compress_gaussians")
        history = [desc]
        check_step(env, rng, g, dict(spec=spec, desc=desc, model=None), False, counts)
        counts("rules:compress_gaussians")
        n += 1
        # Gaussian - Gaussian
        g1, s1, e1, d1 = make_gaussian(rng, order, rank=rng.randint(0, 2 * dim))
        sub = [o for o in order if o[0] == "b" or rng.random() < 0.7]
        if not any(o[0] == "r" for o in sub):
            sub = list(order)
        rng.shuffle(sub)
        sdim = sum(numel(sh) for kind, _, sh in sub if kind == "r")
        g2, s2, e2, d2 = make_gaussian(rng, sub, rank=rng.randint(0, 2 * sdim))
        history = [d1, dict(d2, op="minus-gaussian")]
        diff = g1 - g2
        x = gen_point(rng, s1.reals)
        xf = {k: [F(float(v)) for v in np.asarray(a).reshape(-1)] for k, a in x.items()}
        try:
            val = diff(**{k: Tensor(a) for k, a in x.items()})
            tab = value_table(val, s1.batch)
        except Declined:
            counts("rules:sub:lazy")
            return n, None, None
        tol = 0 if (e1 and e2) else RTOL
        for p in batch_points(s1.batch, rng):
            want = s1.at(p)(xf) - s2.at(sub_point(p, s2.batch))({k: xf[k] for k in s2.reals})
            v = tab(p)
            if not close(F(float(v)), want, tol, abs(float(want))):
                raise CaseFail("C12.sub-eval-ne-quadratic", expected=str(want), got=str(F(float(v))), point=p,
                               x={k: a.tolist() for k, a in x.items()})
        counts("rules:sub")
        n += 1
    except Declined as e:
        counts(f"rules:declined:{e}")
    except CaseFail as cf:
        cf.kw["witness"] = dict(case_seed=case_seed, stream="rules", tier=tier, history=history)
        raise
    return n, (case_seed, "rules"), dict(case_seed=case_seed, ops=["compress_gaussians", "sub"])


def triangular_ops_stream(ctx, n):
    """The linear-algebra primitives the Gaussian constructor relies on, called as the Gaussian code calls them (with
    genuinely triangular Cholesky-like factors): triangular_solve (plain / transpose / upper), triangular_inv,
    cholesky_solve, against exact Fraction inverses (rtol 1e-9)."""
    rng = ctx.rng
    for _ in range(n):
        dim = rng.choice([1, 2, 3])
        L = gen_tril(rng, dim, ())
        x = dy_array(rng, (dim, rng.choice([1, 2])))
        Lf = [[F(float(v)) for v in row] for row in L]
        Li = np.array([[float(v) for v in row] for row in mat_inv(Lf)])
        want = {
            "solve": (lambda: ops.triangular_solve(x, L), Li @ x),
            "solve-transpose": (lambda: ops.triangular_solve(x, L, transpose=True), Li.T @ x),
            "solve-upper": (lambda: ops.triangular_solve(x, L.T.copy(), upper=True), Li.T @ x),
            "inv": (lambda: ops.triangular_inv(L), Li),
            "inv-upper": (lambda: ops.triangular_inv(L.T.copy(), upper=True), Li.T),
            "cholesky_solve": (lambda: ops.cholesky_solve(x, L), Li.T @ Li @ x),
        }
        for name, (thunk, exp) in want.items():
            try:
                got = np.asarray(thunk())
            except DECLINE_ERRORS as e:
                ctx.count(f"triangular-ops:{name}:declined:{type(e).__name__}")
                continue
            if got.shape != exp.shape or not np.allclose(got, exp, rtol=1e-9, atol=1e-9):
                ctx.fail("input", f"C12.ops-{name}", witness=dict(L=L.tolist(), x=x.tolist()), expected=str(exp.tolist()),
                         got=str(got.tolist()),
                         python=("import numpy as np\nimport funsor\nfunsor.set_backend('numpy')\nimport funsor.ops as ops\n"
                                 f"L = np.array({L.tolist()!r}); x = np.array({x.tolist()!r})\n"
                                 "Li = np.linalg.inv(L)\n"
                                 "FAILS = not (np.allclose(ops.triangular_solve(x, L), Li @ x) and "
                                 "np.allclose(ops.triangular_solve(x, L, transpose=True), Li.T @ x) and "
                                 "np.allclose(ops.triangular_inv(L), Li) and "
                                 "np.allclose(ops.cholesky_solve(x, L), Li.T @ Li @ x))\n"))
        ctx.case(nontrivial_key=("triangular-ops", L.tobytes(), x.tobytes()) if dim > 1 else None)
    ctx.count("triangular-ops:cases", n)


KF_AFFINE_UNION = "KF-affine-inputs-union"
WHAT[ "affine-nonaffine-sum"] = ("affine.affine_inputs unions both sides of + / -, so x := u*u + a*u + b is classified affine in "
                                 "u and Gaussian._eager_subs_affine linearises it by probing (x ~ (1+a) u + b): g(x=u*u+u) is "
                                 "a Gaussian in u with wrong values instead of a lazy substitution")


def nonaffine_sum_case(env, case_seed, tier, counts):
    """A sum whose one side is NON-affine in a variable the other side is affine in (u*u + a*u + b, a*u - u*u, …),
    substituted for a real input of a Gaussian: decline-or-right.  Whatever comes back (a lazy Subs after commit
    30afbee, a Gaussian before it) is evaluated at a point of u and must equal g at the substituted value."""
    rng = random.Random(case_seed)
    order = [("r", "x", ())] + ([("r", "z", rng.choice(SHAPES))] if rng.random() < 0.5 else []) \
        + ([("b", "i", 2)] if rng.random() < 0.5 else [])
    rng.shuffle(order)
    dim = sum(numel(sh) for kind, _, sh in order if kind == "r")
    g, spec, exact, desc = make_gaussian(rng, order, rank=rng.randint(1, 2 * dim))
    a_, b_ = rng.choice([-1, 0.5, 1, 2]), rng.choice([-1, 0, 0.5, 1])
    u = Variable("u", Real)
    expr = rng.choice([lambda: u * u + u * a_ + b_, lambda: u * a_ - u * u, lambda: (u * u + b_) + u])()
    history = [desc, dict(op="subs-nonaffine-sum", a=a_, b=b_, expr=str(expr))]
    res = g(x=expr)
    counts("nonaffine-sum:" + ("eager-gaussian" if decompose(res) is not None else "lazy-subs"))
    uv = rng.choice([-1.5, -0.5, 0.5, 2.0])
    pt = {k: dy_array(rng, sh) for k, sh in spec.reals.items() if k != "x"}
    xv = float(expr(u=Tensor(np.array(uv))).data)
    try:
        got = value_table(res(u=Tensor(np.array(uv)), **{k: Tensor(v) for k, v in pt.items()}), spec.batch)
    except Declined:
        counts("nonaffine-sum:lazy")
        return 1, None, None
    full = {k: [F(float(t)) for t in np.asarray(v).reshape(-1)] for k, v in pt.items()}
    full["x"] = [F(xv)]
    for p in batch_points(spec.batch, rng):
        want = spec.at(p)(full)
        if not close(F(float(got(p))), want, 0 if exact else RTOL, abs(float(want))):
            cf = CaseFail("C12.affine-nonaffine-sum-wrong-value", expected=str(want), got=str(F(float(got(p)))), point=p, u=uv)
            cf.kw["witness"] = dict(case_seed=case_seed, stream="affine-nonaffine-sum", tier=tier, history=history)
            raise cf
    counts("op:nonaffine-sum-correct")
    return 1, None, None


def affine_purity_stream(ctx, n):
    """affine.affine_inputs on sums / differences: a real variable is affine in a +- b iff it is affine-or-absent in
    both sides and affine in at least one (model computed on the generated expression tree)."""
    from funsor.affine import affine_inputs
    rng = ctx.rng
    names = ["u", "v", "w"]

    def leaf():
        k = rng.choice(names)
        V = Variable(k, Real)
        kind = rng.choice(["var", "scaled", "square", "const", "product", "neg"])
        if kind == "var":
            return V, {k}, {k}, k
        if kind == "scaled":
            return V * 2.0, {k}, {k}, f"2{k}"
        if kind == "neg":
            return -V, {k}, {k}, f"-{k}"
        if kind == "square":
            return V * V, set(), {k}, f"{k}^2"
        if kind == "product":
            k2 = rng.choice([n_ for n_ in names if n_ != k])
            return V * Variable(k2, Real), set(), {k, k2}, f"{k}{k2}"
        return Tensor(np.array(1.5)), set(), set(), "c"

    def tree(depth):
        if depth == 0 or rng.random() < 0.3:
            return leaf()
        a, aa, ai, at = tree(depth - 1)
        b, ba, bi, bt = tree(depth - 1)
        op = rng.choice(["+", "-"])
        e = a + b if op == "+" else a - b
        non = (ai - aa) | (bi - ba)
        return e, (aa | ba) - non, ai | bi, f"({at}{op}{bt})"
    for _ in range(n):
        e, aff, inp, text = tree(rng.choice([1, 2, 2, 3]))
        if not isinstance(e, Funsor):
            continue
        got = set(affine_inputs(e))
        ctx.case(nontrivial_key=("affine-purity", text) if len(inp) > 1 else None)
        if got != aff:
            ctx.fail("input", "C12.affine-inputs-of-sum", witness=dict(expr=text), expected=str(sorted(aff)),
                     got=str(sorted(got)),
                     python=("from funsor.terms import Variable\nfrom funsor.domains import Real\n"
                             "from funsor.affine import affine_inputs\nimport funsor\nfunsor.set_backend('numpy')\n"
                             "u = Variable('u', Real)\nFAILS = 'u' in affine_inputs(u * u + u)\n"))
    ctx.count("affine-purity:cases", n)


def history_stream(ctx, env, n):
    """History-independence: a chain A, then a sibling chain B over the same ordered input names with the block
    sizes rotated, then A again — every step checked against its spec as usual, and the second run of A must
    reproduce the first run's results bit for bit (results are a pure function of the arguments)."""
    for _ in range(n):
        seed = ctx.rng.getrandbits(48)
        traces = []
        try:
            for sib in (False, True, False):
                env.trace = []
                try:
                    run_case(env, seed, ctx.tier, ctx.count if sib else (lambda *a, **k: None), sibling=sib)
                finally:
                    traces.append(env.trace)
                    env.trace = None
        except CaseFail as cf:
            if isinstance(cf.kw.get("witness"), dict):
                cf.kw["witness"]["stream"] = "aba"
            report(ctx, cf, "aba")
            continue
        ctx.count("history:A-B-A")
        if traces[0] != traces[2]:
            ctx.fail("input", "C12.history-dependent-result",
                     witness=dict(case_seed=seed, stream="clean", tier=ctx.tier, history="A, sibling(A), A"),
                     expected="bitwise identical results when the chain is re-run after its sibling",
                     got=f"{sum(a != b for a, b in zip(traces[0], traces[2]))} of {len(traces[0])} step results differ",
                     python=PY_TEMPLATE.format(verif=str(__import__('fv.common').common.VERIF), case_seed=seed,
                                               tier=ctx.tier, stream="aba"))
        ctx.case(nontrivial_key=("aba", seed) if len(traces[0]) >= 2 else None)


def finding_stream(ctx, env, key, n):
    """Dedicated stream of an open finding (region kept out of the clean stream, see AVOID)."""
    fid = AVOID[key]
    reproduced, correct, first = 0, 0, None
    for _ in range(n):
        seed = ctx.rng.getrandbits(48)
        cnt = {}
        try:
            run_case(env, seed, ctx.tier, lambda k, n_=1: cnt.__setitem__(k, cnt.get(k, 0) + n_), stream=key)
        except CaseFail as cf:
            if cf.name.startswith("C12."):
                reproduced += 1
                first = first or cf
            else:
                report(ctx, cf, key)
            continue
        if any(k.startswith("op:") for k in cnt):
            correct += 1
    ctx.count(f"{key}:reproduced", reproduced)
    ctx.count(f"{key}:correct-or-declined", n - reproduced)
    if reproduced == 0:
        if ctx.is_open(fid):
            ctx.known(fid, reproduced=False, what=WHAT[key])
        return
    if not ctx.known(fid, reproduced=True, what=WHAT[key]):
        report(ctx, first, key)


class RuleMonitor:
    """Run-time census of the pattern rules whose signatures mention Gaussian / GaussianMixture (registries of every
    DispatchedInterpretation, rules defined in cnf / joint / gaussian / integrate), and which of them the streams
    actually fire (wrapper around each interpretation's `dispatch` instance attribute; no change to /repo)."""
    MODULES = ("funsor.cnf", "funsor.joint", "funsor.gaussian", "funsor.integrate")

    def __init__(self):
        import funsor.interpretations as I
        self.interps = {n: o for n, o in vars(I).items() if isinstance(o, I.DispatchedInterpretation)}
        self.rules = {}
        self.fired = {}
        self._orig = {}
        for iname, interp in self.interps.items():
            for cls, disp in interp.registry.registry.items():
                for sig, fn in getattr(disp, "funcs", {}).items():
                    mod = getattr(fn, "__module__", "")
                    if mod in self.MODULES and ("Gaussian" in repr(sig) or getattr(cls, "__name__", "") == "Gaussian"):
                        self.rules[id(fn)] = f"{iname}:{mod.split('.')[-1]}.{fn.__name__}@{fn.__code__.co_firstlineno}"

    def __enter__(self):
        for iname, interp in self.interps.items():
            orig = interp.dispatch
            self._orig[iname] = orig

            def wrapped(*args, _orig=orig):
                fn = _orig(*args)
                k = id(fn)
                if k in self.rules:
                    self.fired[k] = self.fired.get(k, 0) + 1
                return fn
            interp.dispatch = wrapped
        return self

    def __exit__(self, *exc):
        for iname, interp in self.interps.items():
            interp.dispatch = self._orig[iname]

    def report(self):
        names = sorted(set(self.rules.values()))
        fired = sorted({self.rules[k] for k in self.fired})
        return dict(registered=len(names), fired=fired, never_fired=[n for n in names if n not in fired],
                    firings={self.rules[k]: v for k, v in sorted(self.fired.items(), key=lambda kv: self.rules[kv[0]])})


def correspond(ctx, use_driver=True, volume=None):
    with RuleMonitor() as mon:
        try:
            _correspond(ctx, use_driver, volume)
        finally:
            ctx.extra["gaussian_rules"] = mon.report()


def _correspond(ctx, use_driver=True, volume=None):
    ctx.rule = ("chains of depth 1-3 over random Gaussians: 1-3 real inputs of shapes () (1,) (2,) (3,) (1,2) (2,2), "
                "0-2 batch inputs of sizes 1-3 in interleaved order, rank 0..2*dim+1 (duplicate columns / zero rows "
                "for rank deficiency), dyadic parameters; constructors from (mean|info_vec|white_vec) x "
                "(precision|covariance|scale_tril|prec_sqrt); operations add, real substitution (partial/full, "
                "batch-dependent values), integer indexing (int, slice, index tensor, rename), real renaming/swaps, "
                "align, affine substitution (15 expression forms, shared/new variables), Cat along a batch input "
                "(rank padding), plate fusion; plus a stream of real substitutions into Gaussians with 3-4 real inputs "
                "(>= 2 grounded, >= 1 free) given as kwargs, as Subs(g, pairs) in every permutation of the pairs, and "
                "chained through a lazy first step; plus a multi-index stream: ONE call substituting 2..all of 2-4 batch "
                "inputs (equal and mixed sizes, every real/batch layout) with ints / Numbers / Slices / renamings / index "
                "Tensors, as kwargs, Subs in every pair order, one at a time and split, incl. an enumerated grid of all "
                "integer index tuples over 3 equal-size batch inputs.  Non-trivial = at least one operation checked after construction; "
                "distinct by seed and operation sequence.")
    env = Env(ctx, use_driver)
    n = volume or (600 if ctx.tier == "quick" else 10000)
    if env.use_driver:
        offsets_stream(ctx, 60 if ctx.tier == "quick" else 600)
    for _ in range(n):
        seed = ctx.rng.getrandbits(48)
        try:
            nsteps, key, sample = run_case(env, seed, ctx.tier, ctx.count)
        except CaseFail as cf:
            report(ctx, cf, "clean")
            continue
        if nsteps:
            ctx.case(sample=sample, nontrivial_key=key)
            ctx.count(f"chain-length:{nsteps}")
    for _ in range(60 if ctx.tier == "quick" else 800):
        seed = ctx.rng.getrandbits(48)
        try:
            nsteps, key, sample = run_case(env, seed, ctx.tier, ctx.count, stream="subs-order")
        except CaseFail as cf:
            report(ctx, cf, "subs-order")
            continue
        if nsteps:
            ctx.case(sample=sample, nontrivial_key=key)
    multi_index_stream(ctx, env, 80 if ctx.tier == "quick" else 1200)
    triangular_ops_stream(ctx, 30 if ctx.tier == "quick" else 300)
    history_stream(ctx, env, 40 if ctx.tier == "quick" else 800)
    for _ in range(30 if ctx.tier == "quick" else 500):
        seed = ctx.rng.getrandbits(48)
        try:
            nsteps, key, sample = run_case(env, seed, ctx.tier, ctx.count, stream="rules")
        except CaseFail as cf:
            report(ctx, cf, "rules")
            continue
        if nsteps:
            ctx.case(sample=sample, nontrivial_key=key)
    for _ in range(40 if ctx.tier == "quick" else 500):
        seed = ctx.rng.getrandbits(48)
        try:
            nsteps, key, sample = run_case(env, seed, ctx.tier, ctx.count, stream="affine-reuse")
        except CaseFail as cf:
            report(ctx, cf, "affine-reuse")
            continue
        if nsteps:
            ctx.case(sample=sample, nontrivial_key=key)
    for _ in range(30 if ctx.tier == "quick" else 300):
        seed = ctx.rng.getrandbits(48)
        try:
            run_case(env, seed, ctx.tier, ctx.count, stream="affine-nonaffine-sum")
        except CaseFail as cf:
            report(ctx, cf, "affine-nonaffine-sum")
            continue
        ctx.case(nontrivial_key=("nonaffine-sum", seed))
    affine_purity_stream(ctx, 60 if ctx.tier == "quick" else 600)
    for key in AVOID:
        finding_stream(ctx, env, key, 12 if ctx.tier == "quick" else 60)
    float_decline_stream(ctx)
    ctx.assumptions.append("np.linalg.qr / cholesky / triangular solves are parameters satisfying their defining "
                           "equations (compress_rank, constructor conversions are compared at rtol 1e-9 on the dense triple)")
    ctx.assumptions.append("float64 arithmetic on small dyadic rationals is exact (sqrt-free paths compared exactly)")


def float_decline_stream(ctx):
    """A bare Python float for a Real input must not produce a wrong number (it raises AttributeError)."""
    w = np.array([1.0, 2.0])
    P = np.array([[1.0, 0.5]])
    g = Gaussian(w, P, OrderedDict(x=Real))
    try:
        r = g(x=0.5)
    except DECLINE_ERRORS as e:
        ctx.count("python-float-subs:declined:" + type(e).__name__)
        return
    if isinstance(r, (Tensor, Number)):
        want = -0.5 * ((0.5 * 1.0 - 1.0) ** 2 + (0.5 * 0.5 - 2.0) ** 2)
        if float(r.data) != want:
            ctx.fail("input", "C12.python-float-subs", witness=dict(x=0.5), expected=str(want), got=str(r.data),
                     python="FAILS = True")
        ctx.count("python-float-subs:value")
    else:
        ctx.count("python-float-subs:lazy")


def search(ctx, broken):
    """A proof / the build / the correspondence broke: hunt for a wrong value against the Python oracle."""
    env = Env(ctx, use_driver=False)
    before = len([f for f in ctx.failures if f.witness is not None])
    for _ in range(2600 if ctx.tier == "quick" else 6000):
        seed = ctx.rng.getrandbits(48)
        try:
            run_case(env, seed, ctx.tier, lambda *a, **k: None)
        except CaseFail as cf:
            report(ctx, cf, "clean")
        if len([f for f in ctx.failures if f.witness is not None]) > before:
            return
