"""
C13 — Gaussian marginals, normalisers and integrals are exact.

The real funsor (Gaussian.eager_reduce for logaddexp / add, log_normalizer, Integrate rules, mixture
reductions, moment matching) is run on generated Gaussians of C12's family restricted to rank >= dim of
the integrated block (plus a stream of too-little-information cases that must raise) and compared with

  * the Python oracle: dense closed forms computed with exact Fractions from the generated parameters
    (Schur complement, eta_a - Lab Lbb^-1 eta_b, c + 1/2 eta_b' Lbb^-1 eta_b, dim_b/2 log 2pi - 1/2 log det Lbb),
  * the Lean model FV.C13 (the code's square-root algorithm with B^-1 supplied and checked, and the dense
    Schur closed form), both exact over Rat; the transcendental part (log 2pi, log det) is added in float.

Cholesky / triangular solves are involved in every operation here, so implementation values are compared
at rtol 1e-9 (relative to the largest entry of the dense triple).
"""
import itertools
import math
import random
from collections import OrderedDict
from fractions import Fraction as F

import numpy as np

from ..common import sx, parse_sx, Q, VERIF
from ..futil import funsor, Tensor, Number, Variable, Bint, Real, Reals, ops
from . import c12
from .c12 import (Obs, Fn, Declined, CaseFail, DECLINE_ERRORS, numel, dom, inputs_of, dy_array, gen_signature,
                  dense_from_sqrt, dense_equal, dense_str, mat_inv, mat_det, g_sexp, parse_g, batch_points,
                  sub_point, fn_of_obs, SHAPES, REAL_NAMES, BATCH_NAMES)

from funsor.gaussian import Gaussian
from funsor.integrate import Integrate
from funsor.interpretations import moment_matching

RTOL = 1e-9
LOG2PI = math.log(2 * math.pi)


# ----------------------------------------------------------------------------------------------
# oracle: dense closed forms (exact part as Fractions, transcendental part as float)
# ----------------------------------------------------------------------------------------------

def dense_layout(layout, w, P):
    """dense triple in the GIVEN layout order (not sorted): (lam, eta, c)"""
    r = len(w)
    n = len(P)
    lam = [[sum((P[a][j] * P[b][j] for j in range(r)), F(0)) for b in range(n)] for a in range(n)]
    eta = [sum((P[a][j] * w[j] for j in range(r)), F(0)) for a in range(n)]
    c = -sum((x * x for x in w), F(0)) / 2
    return lam, eta, c


def positions(layout, names):
    pos, o = [], 0
    for k, n in layout:
        if k in names:
            pos.extend(range(o, o + n))
        o += n
    return pos


def schur(layout, lam, eta, c, bnames):
    """Integrate out the inputs in `bnames`.  -> (layout_a, lam', eta', c_exact, dim_b, det_bb) or None if singular."""
    ib = positions(layout, bnames)
    ia = [i for i in range(len(lam)) if i not in ib]
    lbb = [[lam[i][j] for j in ib] for i in ib]
    inv = mat_inv(lbb)
    det = mat_det(lbb)
    if inv is None or det <= 0:
        return None
    nb = len(ib)
    lab = [[lam[i][j] for j in ib] for i in ia]
    K = [[sum((lab[i][k] * inv[k][j] for k in range(nb)), F(0)) for j in range(nb)] for i in range(len(ia))]
    lam2 = [[lam[ia[i]][ia[j]] - sum((K[i][k] * lab[j][k] for k in range(nb)), F(0)) for j in range(len(ia))]
            for i in range(len(ia))]
    eb = [eta[i] for i in ib]
    eta2 = [eta[ia[i]] - sum((K[i][k] * eb[k] for k in range(nb)), F(0)) for i in range(len(ia))]
    c2 = c + sum((eb[i] * inv[i][j] * eb[j] for i in range(nb) for j in range(nb)), F(0)) / 2
    lay_a = [(k, n) for k, n in layout if k not in bnames]
    return lay_a, lam2, eta2, c2, nb, det


def canon(layout, lam, eta):
    """permute a dense (lam, eta) in `layout` order to the canonical sorted-by-name layout"""
    offs, o = {}, 0
    for k, n in layout:
        offs[k] = o
        o += n
    names = sorted(layout)
    perm = [i for k, n in names for i in range(offs[k], offs[k] + n)]
    return names, [[lam[a][b] for b in perm] for a in perm], [eta[a] for a in perm]


def logconst(nb, det):
    return 0.5 * nb * LOG2PI - 0.5 * math.log(float(det))


def fclose(a, b, scale=1.0, tol=RTOL):
    if isinstance(a, float) and (a != a or abs(a) == float("inf")):
        return False
    return abs(float(a) - float(b)) <= tol * max(1.0, abs(float(b)), scale)


def dense_close(d_impl, names, lam, eta, cval, tol=RTOL):
    """d_impl: canonical dense from c12.dense_from_sqrt (Fractions of floats); expected exact lam/eta, float cval."""
    n1, l1, e1, c1 = d_impl
    if n1 != names:
        return False
    sc = max([1.0] + [abs(float(v)) for row in lam for v in row] + [abs(float(v)) for v in eta] + [abs(cval)])
    return (all(fclose(a, b, sc, tol) for ra, rb in zip(l1, lam) for a, b in zip(ra, rb))
            and all(fclose(a, b, sc, tol) for a, b in zip(e1, eta)) and fclose(c1, cval, sc, tol))


# ----------------------------------------------------------------------------------------------
# generator: Gaussians with exact parameters, full rank in chosen blocks
# ----------------------------------------------------------------------------------------------

def gen_case(rng, min_rank_for=None, too_little=False):
    """-> dict(order, w, P arrays, rank, dim).  `min_rank_for`: rank >= that many (dim of integrated block)."""
    order = gen_signature(rng, max_dim=6)
    dim = sum(numel(s) for kind, _, s in order if kind == "r")
    bshape = tuple(s for kind, _, s in order if kind == "b")
    return order, dim, bshape


def gen_data(rng, order, rank):
    dim = sum(numel(s) for kind, _, s in order if kind == "r")
    bshape = tuple(s for kind, _, s in order if kind == "b")
    w = dy_array(rng, bshape + (rank,))
    P = dy_array(rng, bshape + (dim, rank), pool=[-2, -1, -1, -0.5, 0, 0.5, 1, 1, 2])
    return w, P


class Case:
    """A generated Gaussian with exact data; observations by batch point."""

    def __init__(self, rng, order, rank, w=None, P=None):
        self.order = order
        self.layout = [(k, numel(s)) for kind, k, s in order if kind == "r"]
        self.shapes = OrderedDict((k, s) for kind, k, s in order if kind == "r")
        self.batch = OrderedDict((k, s) for kind, k, s in order if kind == "b")
        self.dim = sum(n for _, n in self.layout)
        self.rank = rank
        if w is None:
            w, P = gen_data(rng, order, rank)
        self.w, self.P = w, P
        self.inputs = inputs_of(order)
        self.share = False      # True: build() wraps the very same array objects (shared-array histories)

    def build(self):
        # keep the representation exactly as generated (no QR at construction): rank <= 2*dim by construction
        if self.share:
            g = Gaussian(white_vec=self.w, prec_sqrt=self.P, inputs=self.inputs)
            assert g.prec_sqrt is self.P and g.white_vec is self.w, "constructor copied the arrays"
            return g
        return Gaussian(self.w.copy(), self.P.copy(), self.inputs)

    def at(self, p):
        idx = tuple(p[k] for k in self.batch)
        return [F(v) for v in self.w[idx]], [[F(v) for v in row] for row in self.P[idx]]

    def points(self):
        return [dict(zip(self.batch, idx)) for idx in itertools.product(*[range(s) for s in self.batch.values()])]

    def block_ok(self, bnames):
        """B = Pb Pb' nonsingular and reasonably conditioned at every batch point."""
        for p in self.points():
            w, P = self.at(p)
            ib = positions(self.layout, bnames)
            Pb = [P[i] for i in ib]
            B = [[sum((a * b for a, b in zip(ra, rb)), F(0)) for rb in Pb] for ra in Pb]
            det = mat_det(B)
            if det <= 0 or det < F(1, 64):
                return False
        return True

    def describe(self):
        return dict(order=[list(map(str, o)) for o in self.order], rank=self.rank, white_vec=self.w.tolist(),
                    prec_sqrt=self.P.tolist())


def gen_full_case(rng, want_rank=None, max_dim=6, tries=30, nb_choices=None):
    for _ in range(tries):
        order = gen_signature(rng, max_dim=max_dim, **(dict(nb_choices=nb_choices) if nb_choices else {}))
        dim = sum(numel(s) for kind, _, s in order if kind == "r")
        rank = want_rank(dim, rng) if want_rank else rng.choice([dim, dim, dim + 1, min(2 * dim, dim + 2)])
        if rank > 2 * dim:
            continue
        c = Case(rng, order, rank)
        return c
    return None


# ----------------------------------------------------------------------------------------------
# streams
# ----------------------------------------------------------------------------------------------

class Env(c12.Env):
    pass


def expect_value(counts, label, thunk, must_complete, witness):
    """Run an implementation call that must complete (full-rank clause) -> result or raises CaseFail/Declined."""
    try:
        return thunk()
    except DECLINE_ERRORS as e:
        counts(f"{label}:declined:{type(e).__name__}")
        if must_complete:
            raise CaseFail(f"C13.{label}-does-not-complete", expected="a value (full-rank block)",
                           got=f"{type(e).__name__}: {e}")
        raise Declined(type(e).__name__)
    except np.linalg.LinAlgError as e:
        counts(f"{label}:declined:LinAlgError")
        if must_complete:
            raise CaseFail(f"C13.{label}-does-not-complete", expected="a value (full-rank block)",
                           got=f"LinAlgError: {e}")
        raise Declined("LinAlgError")


def stream_marginal(env, rng, counts):
    """g.reduce(logaddexp, subset of reals [+ ints]) vs the Schur closed form; sequential marginals commute."""
    c = gen_full_case(rng)
    names = [k for k, _ in c.layout]
    nb = rng.randint(1, len(names))
    bnames = rng.sample(names, nb)
    dim_b = sum(n for k, n in c.layout if k in bnames)
    # ranks: exactly dim_b, between dim_b and dim, dim, above dim
    rank = rng.choice(sorted({dim_b, min(c.dim, dim_b + 1), c.dim, min(2 * c.dim, c.dim + 1)}))
    c = Case(rng, c.order, rank)
    for _ in range(30):
        if c.block_ok(bnames):
            break
        c = Case(rng, c.order, rank)
    else:
        counts("marginal:gen-failed")
        return None
    hist = [dict(op="gaussian", **c.describe()), dict(op="marginal", vars=bnames)]
    try:
        return _marginal_checks(env, rng, counts, c, bnames, dim_b, hist)
    except CaseFail as cf:
        cf.kw.setdefault("witness_history", hist)
        raise


def _marginal_checks(env, rng, counts, c, bnames, dim_b, hist):
    g = c.build()
    full = len(bnames) == len(c.layout)
    counts("marginal:" + ("all-reals" if full else "subset"))
    counts("marginal:rank-" + ("eq-dimb" if c.rank == dim_b else "lt-dim" if c.rank < c.dim else "ge-dim"))
    inter = [kind for kind, _, _ in c.order]
    counts("marginal:order-" + ("interleaved" if "b" in inter and inter != sorted(inter) else "ints-first-or-none"))
    contiguous = _contiguous(c.layout, bnames)
    counts("marginal:block-" + ("contiguous" if contiguous else "interleaved"))
    res = expect_value(counts, "marginal", lambda: g.reduce(ops.logaddexp, frozenset(bnames)), True, hist)
    obs = Obs(res)
    want_reals = {k: s for k, s in c.shapes.items() if k not in bnames}
    got_inputs = {k: (("real", tuple(d.shape)) if d.dtype == "real" else ("bint", d.size)) for k, d in res.inputs.items()}
    want_inputs = {k: ("real", tuple(s)) for k, s in want_reals.items()}
    want_inputs.update({k: ("bint", n) for k, n in c.batch.items()})
    if got_inputs != want_inputs:
        raise CaseFail("C13.marginal-result-inputs", expected=str(sorted(want_inputs.items())),
                       got=str(sorted(got_inputs.items())))
    reqs, meta = [], []
    for p in c.points():
        w, P = c.at(p)
        lam, eta, cc = dense_layout(c.layout, w, P)
        sch = schur(c.layout, lam, eta, cc, bnames)
        lay_a, lam2, eta2, c2, nb, det = sch
        names_c, lam_c, eta_c = canon(lay_a, lam2, eta2)
        cval = float(c2) + logconst(nb, det)
        iw, iP, it = obs.at(p)
        d_impl = dense_from_sqrt(obs.layout, iw, iP, it)
        if not dense_close(d_impl, names_c, lam_c, eta_c, cval):
            raise CaseFail("C13.marginal-ne-schur", point=p, got=dense_str(d_impl),
                           expected=str(dict(layout=names_c, precision=[[str(v) for v in r] for r in lam_c],
                                             info_vec=[str(v) for v in eta_c], const=cval)))
        if env.use_driver:
            if full:
                reqs.append(f"C13 lognorm {sx(g_sexp(c.layout, w, P))}")
            else:
                reqs.append(f"C13 marginal {sx(g_sexp(c.layout, w, P))} {sx([Q(k) for k in bnames])}")
            meta.append((p, names_c, lam_c, eta_c, c2, nb, det))
    if reqs:
        for ans, (p, names_c, lam_c, eta_c, c2, nb, det) in zip(env.driver.ask(reqs), meta):
            if not ans.startswith("ok "):
                env.infra(f"driver: {ans} for {reqs[0][:300]}")
                return
            s = parse_sx(ans[3:])
            if full:
                r, mdet, mdim = F(s[0]), F(s[1]), int(s[2])
                w, P = c.at(p)
                if (mdet, mdim) != (det, nb) or r != c2:
                    raise CaseFail("model-ne-spec", expected=f"{c2} {det} {nb}", got=ans, request=reqs[0][:1500])
                counts("model:lognorm-equal")
            else:
                marg, dense = s
                lay, mw, mP = parse_g(marg[1])
                d_model = dense_from_sqrt(lay, mw, mP, F(0))
                d_spec = (names_c, lam_c, eta_c, c2)
                # model of the code's square-root algorithm == Schur closed form (both exact)
                if not dense_equal(d_model, d_spec, 0) or int(marg[2]) != nb or F(marg[3]) != det:
                    raise CaseFail("model-ne-spec", expected=dense_str(d_spec), got=dense_str(d_model), point=p,
                                   request=reqs[0][:1500])
                # Lean's own dense Schur closed form (layout order of the kept inputs)
                lam_l = [[F(v) for v in row] for row in dense[1]]
                eta_l = [F(v) for v in dense[2]]
                nm, lam_lc, eta_lc = canon(lay, lam_l, eta_l)
                if (nm, lam_lc, eta_lc, F(dense[3])) != d_spec:
                    raise CaseFail("model-ne-spec", expected=dense_str(d_spec), got=str(dense), point=p,
                                   request=reqs[0][:1500])
                counts("model:marginal-equal")
    # ---- marginalisation commutes with itself and with evaluation of the remaining inputs -----------
    if len(bnames) >= 2:
        b1 = bnames[: len(bnames) // 2]
        b2 = [k for k in bnames if k not in b1]
        try:
            seq = g.reduce(ops.logaddexp, frozenset(b1)).reduce(ops.logaddexp, frozenset(b2))
            so = Obs(seq)
            for p in c.points():
                a = dense_from_sqrt(so.layout, *so.at(p))
                b = dense_from_sqrt(obs.layout, *obs.at(p))
                if not dense_equal(a, b, 1e-8):
                    raise CaseFail("C13.marginal-not-commuting", point=p, got=dense_str(a), expected=dense_str(b),
                                   order=[b1, b2])
            counts("marginal:sequential-commutes")
        except Declined as e:
            counts("marginal:sequential-lazy")
        except DECLINE_ERRORS + (np.linalg.LinAlgError,) as e:
            counts("marginal:sequential-declined:" + type(e).__name__)
    if not full:
        x = {k: dy_array(rng, s, pool=[-1, -0.5, 0, 0.5, 1, 2]) for k, s in want_reals.items()}
        kw = {k: Tensor(v) for k, v in x.items()}
        try:
            v1 = c12.value_table(res(**kw), c.batch)
            v2 = c12.value_table(g(**kw).reduce(ops.logaddexp, frozenset(bnames)), c.batch)
            for p in c.points():
                w, P = c.at(p)
                lam, eta, cc = dense_layout(c.layout, w, P)
                lay_a, lam2, eta2, c2, nb, det = schur(c.layout, lam, eta, cc, bnames)
                flat = [F(float(t)) for k, _ in lay_a for t in np.asarray(x[k]).reshape(-1)]
                want = (-sum((flat[i] * lam2[i][j] * flat[j] for i in range(len(flat)) for j in range(len(flat))), F(0)) / 2
                        + sum((flat[i] * eta2[i] for i in range(len(flat))), F(0)) + c2)
                want = float(want) + logconst(nb, det)
                if not fclose(float(v1(p)), want, 1.0, 1e-8) or not fclose(float(v2(p)), want, 1.0, 1e-8):
                    raise CaseFail("C13.marginal-eval-not-commuting", point=p, expected=str(want),
                                   got=f"marginal then evaluate: {v1(p)}, evaluate then integrate: {v2(p)}")
            counts("marginal:eval-commutes")
        except Declined:
            counts("marginal:eval-lazy")
    return ("marginal", tuple(bnames), c.rank, str(c.order))


def _contiguous(layout, bnames):
    flags = [k in bnames for k, _ in layout]
    s = "".join("b" if f else "a" for f in flags).strip("a")
    return "a" not in s


def stream_too_little(env, rng, counts):
    """rank < dim of the integrated block: must raise, never return a number."""
    c = gen_full_case(rng)
    names = [k for k, _ in c.layout]
    bnames = rng.sample(names, rng.randint(1, len(names)))
    dim_b = sum(n for k, n in c.layout if k in bnames)
    if dim_b == 0:
        return None
    rank = rng.randrange(0, dim_b)
    c = Case(rng, c.order, rank)
    g = c.build()
    hist = [dict(op="gaussian", **c.describe()), dict(op="marginal-too-little", vars=bnames)]
    try:
        res = g.reduce(ops.logaddexp, frozenset(bnames))
    except DECLINE_ERRORS + (np.linalg.LinAlgError,) as e:
        counts("too-little:raised:" + type(e).__name__)
        if env.use_driver and len(bnames) < len(names):
            w, P = c.at(c.points()[0])
            ans = env.driver.ask([f"C13 marginal {sx(g_sexp(c.layout, w, P))} {sx([Q(k) for k in bnames])}"])[0]
            counts("too-little:model:" + ans[:40])
            if ans != "ok (err too-little-information)":
                env.infra(f"model does not report too-little-information: {ans}")
        return ("too-little", tuple(bnames), rank, str(c.order))
    dec = c12.decompose(res)
    if dec is None:
        counts("too-little:lazy")
        return None
    cf = CaseFail("C13.too-little-information-returned-a-number", expected="an error (rank < dim of the integrated block)",
                  got=str(res)[:300])
    cf.kw["witness_history"] = hist
    raise cf


def _integrate_var_checks(env, rng, counts, c):
    """Integrate(g, x, {x} + some ints) for a Gaussian over the single real input x vs mean * mass."""
    order = c.order
    shape = c.shapes["x"]
    dim = c.dim
    g = c.build()
    red_ints = [k for k in c.batch if rng.random() < 0.4]
    hist = [dict(op="gaussian", **c.describe()), dict(op="integrate-variable", reduced=["x"] + red_ints)]
    x = Variable("x", dom(shape))
    rv = frozenset([x] + [Variable(k, Bint[c.batch[k]]) for k in red_ints])
    try:
        res = expect_value(counts, "integrate-var", lambda: Integrate(g, x, rv), True, hist)
        if not isinstance(res, (Tensor, Number)):
            counts("integrate-var:lazy")
            return None
        tab = c12.table_of(res, [k for k in c.batch if k not in red_ints], c.batch)
        want = {}
        reqs = []
        for p in c.points():
            w, P = c.at(p)
            lam, eta, cc = dense_layout(c.layout, w, P)
            inv = mat_inv(lam)
            mean = [sum((inv[i][j] * eta[j] for j in range(dim)), F(0)) for i in range(dim)]
            c2 = cc + sum((eta[i] * inv[i][j] * eta[j] for i in range(dim) for j in range(dim)), F(0)) / 2
            norm = math.exp(float(c2) + logconst(dim, mat_det(lam)))
            key = tuple(p[k] for k in c.batch if k not in red_ints)
            want[key] = want.get(key, np.zeros(dim)) + np.array([float(m) for m in mean]) * norm
            reqs.append((f"C13 meancov {sx(g_sexp(c.layout, w, P))}", mean, inv))
        for key, v in want.items():
            got = np.asarray(tab[key]).reshape(-1)
            sc = max(1.0, float(np.max(np.abs(v))))
            if not all(fclose(float(a), float(b), sc, 1e-8) for a, b in zip(got, v)):
                raise CaseFail("C13.integrate-variable-ne-mean-times-mass", point=key, expected=str(v.tolist()),
                               got=str(got.tolist()))
        if env.use_driver:
            for ans, (rq, mean, inv) in zip(env.driver.ask([r[0] for r in reqs]), reqs):
                s = parse_sx(ans[3:]) if ans.startswith("ok ((") else None
                if s is None or [F(v) for v in s[0]] != mean or [[F(v) for v in r] for r in s[1]] != inv:
                    raise CaseFail("model-ne-spec", expected=str(mean), got=ans, request=rq[:1500])
                counts("model:meancov-equal")
    except CaseFail as cf:
        cf.kw.setdefault("witness_history", hist)
        raise
    counts("integrate:variable")
    return ("integrate-var", str(order), c.rank)


def stream_integrate(env, rng, counts, force=None):
    """Integrate(g, x, {x}) and Integrate(g, h, reals) vs mean / Matrix-Cookbook-380 closed forms.
    `force` (grid stream): dict(measure=square|wide|factor-sum, shape=+a|-a|a-b, a=…, b=…)."""
    force = force or {}
    kind = "gauss" if force else rng.choice(["var", "gauss", "gauss"])
    if kind == "var":
        shape = rng.choice(SHAPES)
        nb = rng.choice([0, 1, 1, 2])
        order = [("r", "x", shape)] + [("b", k, rng.choice([1, 2, 3])) for k in rng.sample(BATCH_NAMES, nb)]
        rng.shuffle(order)
        dim = numel(shape)
        c = Case(rng, order, rng.choice([dim, dim + 1]))
        for _ in range(30):
            if c.block_ok(["x"]):
                break
            c = Case(rng, order, c.rank)
        else:
            return None
        return _integrate_var_checks(env, rng, counts, c)
    # ---- Gaussian against Gaussian ---------------------------------------------------------------
    fm = force.get("measure")
    c = gen_full_case(rng, want_rank=(lambda dim, r: dim) if fm == "square" else (lambda dim, r: dim + 1) if fm == "wide"
                      else (lambda dim, r: r.choice([dim, dim + 1, min(2 * dim, dim + 2)])), max_dim=3 if force else 5)
    for _ in range(30):
        if c.block_ok([k for k, _ in c.layout]):
            break
        c = Case(rng, c.order, c.rank)
    else:
        return None
    names = [k for k, _ in c.layout]
    hreals = [("r", k, c.shapes[k]) for k in names if rng.random() < 0.7] or [("r", names[0], c.shapes[names[0]])]
    hb = [("b", k, n) for k, n in c.batch.items() if rng.random() < 0.6]
    free = [b for b in BATCH_NAMES if b not in c.batch]
    if free and rng.random() < 0.3 and not force:
        hb.append(("b", free[0], 2))
    horder = hreals + hb
    rng.shuffle(horder)
    hdim = sum(numel(s) for kind, _, s in horder if kind == "r")
    h = Case(rng, horder, rng.choice(list(range(0, 2 * hdim + 1))))
    h2 = Case(rng, horder, rng.choice(list(range(0, 2 * hdim + 1))))
    g = c.build()
    factor_sum = False
    if (fm == "factor-sum") or (fm is None and rng.random() < 0.45):
        # measure built as a SUM OF FACTORS q1(all inputs) + q2(some inputs): rank in (dim, 2 dim], not compressed
        sub = [o for o in c.order if rng.random() < (0.7 if o[0] == "b" else 0.6)]
        if not any(o[0] == "r" for o in sub):
            sub.append(next(o for o in c.order if o[0] == "r"))
        rng.shuffle(sub)
        sdim = sum(numel(s_) for kind, _, s_ in sub if kind == "r")
        for _ in range(20):
            ca = Case(rng, c.order, c.dim)
            cb = Case(rng, sub, rng.randint(1, max(1, min(sdim, c.dim))))
            gsum = ca.build() + cb.build()
            if not isinstance(gsum, Gaussian):
                break
            order2 = [("r", k, tuple(d.shape)) if d.dtype == "real" else ("b", k, d.size) for k, d in gsum.inputs.items()]
            cand = Case(rng, order2, gsum.white_vec.shape[-1], w=np.asarray(gsum.white_vec), P=np.asarray(gsum.prec_sqrt))
            if cand.block_ok([k for k, _ in cand.layout]):
                c, g, factor_sum = cand, gsum, True
                names = [k for k, _ in c.layout]
                break
    hg = h.build()
    # integrand: h, -h, h - h2 (distribute / neg rules), and the ELBO patterns h - q with q the measure OBJECT itself,
    # an equal but distinct copy of it, q - h, and q alone
    # The integrand is a signed combination of 1-2 terms; each term is independently the measure OBJECT q itself, an
    # equal-but-distinct copy of it, or another Gaussian (h, h2) — crossed with square / wide / factor-sum measures.
    h2g = h2.build()
    gcopy = Gaussian(np.array(c.w), np.array(c.P), c.inputs)
    sources = {"q": g, "qcopy": gcopy, "h": hg, "h2": h2g}
    pick = lambda: rng.choice(["q", "q", "qcopy", "h", "h", "h2"])
    shape_ = force.get("shape") or rng.choice(["+a", "+a", "-a", "-a", "a-b", "a-b", "a-b"])
    a_src = force.get("a") or pick()
    b_src = force.get("b") or pick()
    if shape_ == "a-b" and b_src == a_src and a_src in ("h", "h2"):
        b_src = "q"
    terms = {"+a": [(1, a_src)], "-a": [(-1, a_src)], "a-b": [(1, a_src), (-1, b_src)]}[shape_]
    ikind = shape_.replace("a", a_src).replace("b", b_src)
    mkind = rng.choice(["gaussian", "gaussian", "mixture"])  # measure: g or t + g (eager_integrate_gaussianmixture)
    route = rng.choice(["Integrate", "Integrate", "exp-mul-reduce"])   # (g.exp() * h).reduce(add, reals)
    if force:
        mkind, route = "gaussian", "Integrate"
    if ikind == "h-q" and mkind == "gaussian" and rng.random() < 0.5:
        route = "elbo"                                         # funsor.elbo.Elbo(guide, vars): model.reduce(logaddexp)
    if shape_ == "+a":
        integ = sources[a_src]
    elif shape_ == "-a":
        integ = -sources[a_src]
    else:
        integ = sources[a_src] - sources[b_src]
    tb = [(k, n) for k, n in c.batch.items() if rng.random() < 0.7] if mkind == "mixture" else []
    tdata = dy_array(rng, tuple(n for _, n in tb), pool=[-1, -0.5, 0, 0.5, 1])
    meas = (Tensor(tdata, OrderedDict((k, Bint[n]) for k, n in tb)) + g) if mkind == "mixture" else g
    hist = [dict(op="gaussian", **c.describe()),
            dict(op="integrate-gaussian", integrand=h.describe(), integrand2=h2.describe(), terms=terms,
                 integrand_kind=ikind, measure=mkind, tensor=dict(inputs=tb, data=tdata.tolist()), route=route,
                 measure_is_sum_of_factors=factor_sum, measure_rank=c.rank, measure_dim=c.dim)]
    rv = frozenset(Variable(k, dom(c.shapes[k])) for k in names)

    def expect_of(hc, p, mean, inv):
        hw, hP = hc.at(sub_point(p, hc.batch))
        hl, he, hcst = dense_layout(hc.layout, hw, hP)
        offs, o = {}, 0
        for k, n in c.layout:
            offs[k] = o
            o += n
        emb = [offs[k] + e for k, n in hc.layout for e in range(n)]
        mh = [mean[i] for i in emb]
        covh = [[inv[i][j] for j in emb] for i in emb]
        nh = len(emb)
        e_quad = sum((hl[i][j] * (covh[i][j] + mh[i] * mh[j]) for i in range(nh) for j in range(nh)), F(0))
        return -e_quad / 2 + sum((mh[i] * he[i] for i in range(nh)), F(0)) + hcst, hw, hP
    try:
        # an integrand with a batch input the measure lacks is declined (AssertionError in align without
        # expand): not a question of input order, so it is outside the completion clause
        must = set(h.batch) <= set(c.batch) and (ikind, mkind, route) == ("+h", "gaussian", "Integrate")

        def run():
            if route == "Integrate":
                return Integrate(meas, integ, rv)
            if route == "elbo":
                from funsor.elbo import Elbo
                with Elbo(g, rv):
                    return hg.reduce(ops.logaddexp, rv)
            return (meas.exp() * integ).reduce(ops.add, rv)
        res = expect_value(counts, "integrate-gauss", run, must, hist)
        if not isinstance(res, (Tensor, Number)):
            counts(f"integrate-gauss:lazy:{ikind}:{mkind}:{route}")
            return None
        allb = OrderedDict(c.batch)
        allb.update(h.batch)
        tab = c12.table_of(res, list(allb), allb)
        reqs = []
        for idx in itertools.product(*[range(s) for s in allb.values()]):
            p = dict(zip(allb, idx))
            w, P = c.at(sub_point(p, c.batch))
            lam, eta, cc = dense_layout(c.layout, w, P)
            inv = mat_inv(lam)
            dim = c.dim
            mean = [sum((inv[i][j] * eta[j] for j in range(dim)), F(0)) for i in range(dim)]
            c2 = cc + sum((eta[i] * inv[i][j] * eta[j] for i in range(dim) for j in range(dim)), F(0)) / 2
            norm = math.exp(float(c2) + logconst(dim, mat_det(lam)))
            if mkind == "mixture":
                norm *= math.exp(float(tdata[tuple(p[k] for k, _ in tb)]))
            # E[h(x)], x ~ N(mean, inv): h(x) = -1/2 x'Hx + x'e + ch  (h embedded into g's layout)
            expect, hw, hP = expect_of(h, p, mean, inv)
            esrc = {"h": expect, "h2": expect_of(h2, p, mean, inv)[0]}
            esrc["q"] = esrc["qcopy"] = expect_of(c, p, mean, inv)[0]       # E_q[q] from q's own dense parameters
            total = sum((sg * esrc[src] for sg, src in terms), F(0))
            want = float(total) * norm
            got = float(tab[idx])
            if not fclose(got, want, max(1.0, abs(want)), 1e-8):
                raise CaseFail("C13.integrate-gaussian-ne-expectation", point=p, expected=str(want), got=str(got))
            if (ikind, mkind) == ("+h", "gaussian"):
                # model request: h aligned to g's layout (zero rows for inputs h lacks)
                hrow = {}
                o = 0
                for k, n in h.layout:
                    for e in range(n):
                        hrow[(k, e)] = hP[o + e]
                    o += n
                hal = [hrow.get((k, e), [F(0)] * len(hw)) for k, n in c.layout for e in range(n)]
                reqs.append((f"C13 integrate {sx(g_sexp(c.layout, w, P))} {sx(g_sexp(c.layout, hw, hal))}", expect))
        # cross-consistency: Integrate(q, -a) = -Integrate(q, a), Integrate(q, a - b) = Integrate(q, a) - Integrate(q, b)
        if shape_ != "+a" and route == "Integrate":
            try:
                parts = [(sg, Integrate(meas, sources[src], rv)) for sg, src in terms]
                if all(isinstance(pt, (Tensor, Number)) for _, pt in parts):
                    tabs = [(sg, c12.table_of(pt, list(allb), allb)) for sg, pt in parts]
                    for idx in itertools.product(*[range(s_) for s_ in allb.values()]):
                        lin = sum(sg * float(tb_[idx]) for sg, tb_ in tabs)
                        if not fclose(float(tab[idx]), lin, max(1.0, abs(lin)), 1e-8):
                            raise CaseFail("C13.integrate-not-linear-in-integrand", point=dict(zip(allb, idx)),
                                           expected=f"{lin} (signed sum of the integrals of the terms)",
                                           got=str(float(tab[idx])))
                    counts("integrate:linearity-ok")
            except DECLINE_ERRORS:
                counts("integrate:linearity-declined")
        if env.use_driver and reqs:
            for ans, (rq, expect) in zip(env.driver.ask([r[0] for r in reqs]), reqs):
                if not ans.startswith("ok ") or ans.startswith("ok (") or F(ans[3:]) != expect:
                    raise CaseFail("model-ne-spec", expected=str(expect), got=ans, request=rq[:1500])
                counts("model:integrate-equal")
    except CaseFail as cf:
        cf.kw.setdefault("witness_history", hist)
        raise
    counts(f"integrate:{ikind}:{mkind}:{route}")
    counts("integrate:measure-" + ("factor-sum" if factor_sum else "single") + ("-wide" if c.rank > c.dim else "-square"))
    counts("integrate:gaussian")
    return ("integrate-gauss", str(c.order), str(horder), c.rank, h.rank)


def stream_mixture(env, rng, counts):
    """(g + t).reduce(logaddexp, reals + some ints) and log_normalizer of mixtures; plate sums complete."""
    c = gen_full_case(rng, want_rank=lambda dim, r: r.choice([dim, dim + 1]), max_dim=4,
                      nb_choices=(1, 1, 2, 2, 3, 3))
    names = [k for k, _ in c.layout]
    for _ in range(30):
        if c.block_ok(names):
            break
        c = Case(rng, c.order, c.rank)
    else:
        return None
    return _mixture_checks(env, rng, counts, c)


def _mixture_checks(env, rng, counts, c):
    names = [k for k, _ in c.layout]
    g = c.build()
    tb = [(k, n) for k, n in c.batch.items() if rng.random() < 0.7]
    tdata = dy_array(rng, tuple(n for _, n in tb))
    t = Tensor(tdata, OrderedDict((k, Bint[n]) for k, n in tb))
    mix = g + t if rng.random() < 0.5 else t + g
    red_ints = [k for k in c.batch if rng.random() < 0.6]
    hist = [dict(op="gaussian", **c.describe()), dict(op="mixture", tensor_inputs=tb, tensor=tdata.tolist(),
                                                      reduced=names + red_ints)]
    try:
        res = expect_value(counts, "mixture-reduce",
                           lambda: mix.reduce(ops.logaddexp, frozenset(names + red_ints)), True, hist)
        if not isinstance(res, (Tensor, Number)):
            counts("mixture:lazy")
            return None
        kept = [k for k in c.batch if k not in red_ints]
        tab = c12.table_of(res, kept, c.batch)
        acc = {}
        for p in c.points():
            w, P = c.at(p)
            lam, eta, cc = dense_layout(c.layout, w, P)
            lay_a, lam2, eta2, c2, nb, det = schur(c.layout, lam, eta, cc, names)
            v = float(c2) + logconst(nb, det) + float(tdata[tuple(p[k] for k, _ in tb)])
            key = tuple(p[k] for k in kept)
            acc.setdefault(key, []).append(v)
        for key, vs in acc.items():
            m = max(vs)
            want = m + math.log(sum(math.exp(v - m) for v in vs))
            got = float(tab[key])
            if not fclose(got, want, 1.0, 1e-8):
                raise CaseFail("C13.mixture-reduce-ne-logsumexp", point=key, expected=str(want), got=str(got))
        # joint vs sequential: reals first, then the integer inputs one at a time
        if red_ints:
            seq = mix.reduce(ops.logaddexp, frozenset(names))
            ints_order = list(red_ints)
            rng.shuffle(ints_order)
            for k in ints_order:
                seq = seq.reduce(ops.logaddexp, k)
            if isinstance(seq, (Tensor, Number)):
                tab2 = c12.table_of(seq, kept, c.batch)
                for key in acc:
                    if not fclose(float(tab2[key]), float(tab[key]), 1.0, 1e-8):
                        raise CaseFail("C13.mixture-joint-ne-sequential", point=key, expected=str(float(tab[key])),
                                       got=str(float(tab2[key])), order=ints_order)
                counts("mixture:joint-vs-sequential")
        # log_normalizer attribute
        # (g may be Gaussian + shift Tensor when the constructor compressed: no attribute then)
        ln = c12.table_of(g.log_normalizer, list(c.batch), c.batch) if isinstance(g, Gaussian) else None
        for p in (c.points() if ln is not None else []):
            w, P = c.at(p)
            lam, eta, cc = dense_layout(c.layout, w, P)
            _, _, _, c2, nb, det = schur(c.layout, lam, eta, cc, names)
            want = float(c2) + logconst(nb, det)
            if not fclose(float(ln[tuple(p[k] for k in c.batch)]), want, 1.0, 1e-8):
                raise CaseFail("C13.log-normalizer-ne-formula", point=p, expected=str(want),
                               got=str(float(ln[tuple(p[k] for k in c.batch)])))
    except CaseFail as cf:
        cf.kw.setdefault("witness_history", hist)
        raise
    counts("mixture:reduce")
    return ("mixture", str(c.order), tuple(red_ints), c.rank)


def _plate_case(env, rng, counts, c, subsets, mixture):
    """Plate sums over each subset of the integer inputs in ONE call and one input at a time (random order): both
    must complete and equal the pointwise sum (dense triple, value at a point, Lean `fuse` model for the joint call)."""
    g = c.build()
    cur = g
    tdesc = None
    if mixture:
        tb = [(k, n) for k, n in c.batch.items() if rng.random() < 0.5]
        tdata = dy_array(rng, tuple(n for _, n in tb))
        cur = g + Tensor(tdata, OrderedDict((k, Bint[n]) for k, n in tb))
        tdesc = dict(inputs=tb, data=tdata.tolist())
    obs = Obs(cur)
    spec = fn_of_obs(obs)
    spec = Fn(spec.batch, OrderedDict(obs.reals), spec.at)
    for red in subsets:
        step = c12.op_plate(rng, cur, obs, spec, red=list(red))
        if step is None:
            continue
        hist = [dict(op="gaussian", **c.describe()), dict(op="add_tensor", tensor=tdesc), step["desc"]]
        try:
            rdim = sum(numel(sh) for sh in step["spec"].reals.values())
            exact = not (rdim and step["rank"] > 2 * rdim)
            res = expect_value(counts, "plate", step["run"], True, hist)
            c12.check_step(env, rng, res, step, exact, counts)
            if len(red) > 1:
                seq_order = list(red)
                rng.shuffle(seq_order)
                hist[-1] = dict(step["desc"], sequential=seq_order)

                def run_seq():
                    r = cur
                    for k in seq_order:
                        r = r.reduce(ops.add, k)
                    return r
                res2 = expect_value(counts, "plate-sequential", run_seq, True, hist)
                c12.check_step(env, rng, res2, dict(step, model=None), exact, counts)
                counts("plate:joint-vs-sequential")
        except CaseFail as cf:
            if cf.name.startswith("C12."):
                cf.name = "C13." + cf.name[4:]
            cf.kw.setdefault("witness_history", hist)
            raise
        kinds = "".join(("R" if k in red else "K") for k in c.batch)
        counts("plate:layout:" + kinds)
    inter = [kind for kind, _, _ in c.order]
    counts("plate:order-" + ("interleaved" if inter != sorted(inter) else "ints-first"))
    counts("plate:" + ("mixture" if mixture else "gaussian"))


def _all_subsets(names):
    return [list(sub) for r in range(1, len(names) + 1) for sub in itertools.combinations(names, r)]


def stream_plate(env, rng, counts):
    """Plate sums of Gaussians / mixtures with 1-4 integer inputs in any interleaving with the real inputs."""
    c = gen_full_case(rng, want_rank=lambda dim, r: r.choice([0, 1, dim, dim]), max_dim=4,
                      nb_choices=(1, 2, 2, 3, 3, 3, 4))
    subs = _all_subsets(list(c.batch))
    if len(subs) > 3:
        subs = rng.sample(subs, 3)
    mixture = rng.random() < 0.4
    _plate_case(env, rng, counts, c, subs, mixture)
    return ("plate", str(c.order), str(subs), mixture)


def plate_exhaustive(ctx, env):
    """Every layout of 1-3 plates around one real input x every non-empty subset of plates summed in one call and
    sequentially (Gaussian and mixture alternating)."""
    rng = ctx.rng
    n = 0
    for nb in (1, 2, 3):
        plates = BATCH_NAMES[:nb]
        for pos in range(nb + 1):
            sizes = [rng.choice([2, 3]) for _ in plates]
            order = [("b", k, sz) for k, sz in zip(plates, sizes)]
            order.insert(pos, ("r", "x", rng.choice([(), (2,)])))
            dim = numel(order[pos][2])
            for mixture in (False, True):
                seed = rng.getrandbits(48)
                r2 = random.Random(seed)
                c = Case(r2, order, r2.choice([1, dim]))
                try:
                    _plate_case(env, r2, ctx.count, c, _all_subsets(plates), mixture)
                except Declined as e:
                    ctx.count(f"plate-exhaustive:declined:{e}")
                    continue
                except CaseFail as cf:
                    cf.kw["witness"] = dict(case_seed=seed, stream="plate-exhaustive",
                                            order_raw=[[o[0], o[1], list(o[2]) if o[0] == "r" else o[2]] for o in order],
                                            mixture=mixture, history=cf.kw.pop("witness_history", None))
                    report(ctx, cf)
                    continue
                n += 1
                ctx.case(nontrivial_key=("plate-exhaustive", str(order), mixture))
    ctx.count("plate-exhaustive:cases", n)


def _moment_check(c, dim, obs, approx, tb, tdata):
    kept = [k for k in c.batch if k not in approx]
    groups = {}
    for p in c.points():
        w, P = c.at(p)
        lam, eta, cc = dense_layout(c.layout, w, P)
        inv = mat_inv(lam)
        mean = np.array([float(sum((inv[i][j] * eta[j] for j in range(dim)), F(0))) for i in range(dim)])
        cov = np.array([[float(v) for v in r] for r in inv])
        c2 = cc + sum((eta[i] * inv[i][j] * eta[j] for i in range(dim) for j in range(dim)), F(0)) / 2
        logm = float(c2) + logconst(dim, mat_det(lam)) + float(tdata[tuple(p[k] for k, _ in tb)])
        groups.setdefault(tuple(p[k] for k in kept), []).append((logm, mean, cov))
    for key, comps in groups.items():
        p = dict(zip(kept, key))
        mass = sum(math.exp(l) for l, _, _ in comps)
        ws = [math.exp(l) / mass for l, _, _ in comps]
        mu = sum(w_ * m for w_, (_, m, _) in zip(ws, comps))
        second = sum(w_ * (cv + np.outer(m, m)) for w_, (_, m, cv) in zip(ws, comps))
        cov = second - np.outer(mu, mu)
        iw, iP, it = obs.at(p)
        ilam, ieta, icc = dense_layout(obs.layout, iw, iP)
        # result layout may order the reals differently: permute to c.layout order
        offs, o = {}, 0
        for k, n in obs.layout:
            offs[k] = o
            o += n
        perm = [offs[k] + e for k, n in c.layout for e in range(n)]
        il = np.array([[float(ilam[a][b]) for b in perm] for a in perm])
        ie = np.array([float(ieta[a]) for a in perm])
        icov = np.linalg.inv(il)
        imu = icov @ ie
        ilogm = float(icc) + float(it) + 0.5 * float(ie @ icov @ ie) + 0.5 * dim * LOG2PI - 0.5 * math.log(np.linalg.det(il))
        sc = max(1.0, float(np.max(np.abs(cov))), float(np.max(np.abs(mu))))
        if not fclose(math.exp(ilogm), mass, mass, 1e-7):
            raise CaseFail("C13.moment-matching-mass", point=p, expected=str(mass), got=str(math.exp(ilogm)))
        if not np.allclose(imu, mu, rtol=0, atol=1e-7 * sc):
            raise CaseFail("C13.moment-matching-mean", point=p, expected=str(mu.tolist()), got=str(imu.tolist()))
        if not np.allclose(icov, cov, rtol=0, atol=1e-7 * sc):
            raise CaseFail("C13.moment-matching-covariance", point=p, expected=str(cov.tolist()),
                           got=str(icov.tolist()))


def stream_moment(env, rng, counts):
    """moment_matching of a mixture over integer inputs preserves total mass, mean and covariance — applied
    REPEATEDLY to the same mixture object: one Tensor + Gaussian mixture is collapsed over {i}, {j}, {i,j}, {i}
    again, … (random order); every result is gated on log-mass, mean and covariance against the textbook mixture
    moments of the dense parameters, and a repeated reduction must reproduce its first answer bit for bit."""
    nreal = rng.choice([1, 1, 2])
    reals = [("r", k, rng.choice([(), (), (2,)])) for k in rng.sample(REAL_NAMES, nreal)]
    ints = [("b", k, rng.choice([1, 2, 2, 3])) for k in rng.sample(BATCH_NAMES, rng.choice([1, 2, 2, 3]))]
    order = ints + reals
    if rng.random() < 0.5:
        rng.shuffle(order)
    dim = sum(numel(s) for _, _, s in reals)
    c = Case(rng, order, rng.choice([dim, dim + 1]))
    names = [k for k, _ in c.layout]
    for _ in range(30):
        if c.block_ok(names):
            break
        c = Case(rng, order, c.rank)
    else:
        return None
    g = c.build()
    tb = [(k, n) for k, n in c.batch.items() if rng.random() < 0.8]
    tdata = dy_array(rng, tuple(n for _, n in tb), pool=[-1, -0.5, 0, 0, 0.5, 1])
    t = Tensor(tdata, OrderedDict((k, Bint[n]) for k, n in tb))
    bn = list(c.batch)
    subsets = _all_subsets(bn)
    rng.shuffle(subsets)
    subsets = subsets[:4]
    sequence = subsets + [subsets[0]] + [rng.choice(subsets) for _ in range(2)]
    mix = t + g if rng.random() < 0.5 else None      # one long-lived mixture object (and one Gaussian object)
    snaps = {}
    hist = None
    try:
        for approx in sequence:
            hist = [dict(op="gaussian", **c.describe()),
                    dict(op="moment-matching-sequence", tensor_inputs=tb, tensor=tdata.tolist(),
                         sequence=sequence, failing=approx)]
            with moment_matching:
                res = expect_value(counts, "moment-matching",
                                   lambda: (mix if mix is not None else t + g).reduce(ops.logaddexp, frozenset(approx)),
                                   True, hist)
            obs = Obs(res)
            if obs.g is None:
                counts("moment:no-gaussian")
                return None
            _moment_check(c, dim, obs, approx, tb, tdata)
            snap = _snapshot(res)
            key = tuple(sorted(approx))
            counts("moment:repeat" if key in snaps else "moment:first")
            if key in snaps and snaps[key] != snap:
                raise CaseFail("C13.history-dependent-result", expected="the same arrays as the first time",
                               got="a different moment-matched Gaussian when the same reduction is repeated", vars=approx)
            snaps.setdefault(key, snap)
            counts("moment:matched")
    except Declined as e:
        counts("moment:lazy:" + str(e))
        return None
    except CaseFail as cf:
        cf.kw.setdefault("witness_history", hist)
        raise
    counts("moment:sequences")
    return ("moment", str(order), str(sequence), c.rank)


def stream_shared(env, rng, counts):
    """Shared-array histories: several Gaussians constructed around the SAME prec_sqrt array object (square and wide,
    rank in [dim, 2 dim]) with different white_vec, and around the same white_vec with different prec_sqrt; on each in
    turn (random order, with repeats) log-normaliser (attribute and reduce over all reals), a partial marginal and
    Integrate, each against the dense closed form of ITS OWN parameters."""
    c0 = gen_full_case(rng, want_rank=lambda dim, r: r.choice([dim, dim + 1, dim + 1, 2 * dim]), max_dim=4,
                       nb_choices=(0, 0, 1, 1, 2))
    names = [k for k, _ in c0.layout]
    for _ in range(30):
        if c0.block_ok(names) and all(c0.block_ok([k]) for k in names):
            break
        c0 = Case(rng, c0.order, c0.rank)
    else:
        return None
    mode = rng.choice(["share-prec_sqrt", "share-prec_sqrt", "share-white_vec"])
    cases = [c0]
    for _ in range(rng.choice([2, 3])):
        w2, P2 = gen_data(rng, c0.order, c0.rank)
        if mode == "share-prec_sqrt":
            c = Case(rng, c0.order, c0.rank, w=w2, P=c0.P)
        else:
            c = Case(rng, c0.order, c0.rank, w=c0.w, P=P2)
            if not (c.block_ok(names) and all(c.block_ok([k]) for k in names)):
                continue
        cases.append(c)
    if len(cases) < 2:
        return None
    for c in cases:
        c.share = True
    sequence = list(range(len(cases))) + [0] + [rng.randrange(len(cases)) for _ in range(2)]
    if rng.random() < 0.5:
        rng.shuffle(sequence)
    base = [dict(op="shared-arrays", mode=mode, sequence=sequence)] + [dict(op="gaussian", **c.describe()) for c in cases]
    for idx in sequence:
        c = cases[idx]
        hist = base + [dict(op="log_normalizer+marginals", gaussian_index=idx)]
        try:
            g = c.build()
            ln = c12.table_of(g.log_normalizer, list(c.batch), c.batch)
            for p in c.points():
                w, P = c.at(p)
                lam, eta, cc = dense_layout(c.layout, w, P)
                _, _, _, c2, nb, det = schur(c.layout, lam, eta, cc, names)
                want = float(c2) + logconst(nb, det)
                got = float(ln[tuple(p[k] for k in c.batch)])
                if not fclose(got, want, 1.0, 1e-8):
                    raise CaseFail("C13.log-normalizer-ne-formula", point=p, expected=str(want), got=str(got))
            _marginal_checks(env, rng, counts, c, list(names), c.dim, hist)
            if len(names) > 1:
                bn = [rng.choice(names)]
                _marginal_checks(env, rng, counts, c, bn, sum(n for k, n in c.layout if k in bn), hist)
            if len(names) == 1:
                x = Variable(names[0], dom(c.shapes[names[0]]))
                res = Integrate(c.build(), x, frozenset([x]))
                if isinstance(res, (Tensor, Number)):
                    tab = c12.table_of(res, list(c.batch), c.batch)
                    for p in c.points():
                        w, P = c.at(p)
                        lam, eta, cc = dense_layout(c.layout, w, P)
                        inv = mat_inv(lam)
                        mean = [sum((inv[i][j] * eta[j] for j in range(c.dim)), F(0)) for i in range(c.dim)]
                        c2 = cc + sum((eta[i] * inv[i][j] * eta[j] for i in range(c.dim) for j in range(c.dim)), F(0)) / 2
                        norm = math.exp(float(c2) + logconst(c.dim, mat_det(lam)))
                        got = np.asarray(tab[tuple(p[k] for k in c.batch)]).reshape(-1)
                        wantv = [float(m) * norm for m in mean]
                        sc = max([1.0] + [abs(v) for v in wantv])
                        if not all(fclose(float(a), b, sc, 1e-8) for a, b in zip(got, wantv)):
                            raise CaseFail("C13.integrate-variable-ne-mean-times-mass", point=p, expected=str(wantv),
                                           got=str(got.tolist()))
        except CaseFail as cf:
            cf.kw.setdefault("witness_history", hist)
            raise
        counts("shared:step")
    counts("shared:" + mode)
    counts("shared:rank-" + ("square" if c0.rank == c0.dim else "wide"))
    return ("shared", mode, str(c0.order), c0.rank, str(sequence))


def _embed(layout_u, layout, lam, eta):
    """embed a dense (lam, eta) over `layout` into the union layout by names"""
    offs, o = {}, 0
    for k, n in layout_u:
        offs[k] = o
        o += n
    tot = o
    pos = [offs[k] + e for k, n in layout for e in range(n)]
    L = [[F(0)] * tot for _ in range(tot)]
    E = [F(0)] * tot
    for a, ia in enumerate(pos):
        E[ia] += eta[a]
        for b, ib in enumerate(pos):
            L[ia][ib] += lam[a][b]
    return L, E


def stream_contraction(env, rng, counts):
    """The eager rule Contraction(logaddexp, add, vars, GaussianMixture, GaussianMixture) (cnf.py "mixture
    contraction") called DIRECTLY — Contraction(...) and funsor.einsum.naive_contract_einsum — with
    m1 = t1 + g1, m2 = t2 + g2 over shared / distinct integer inputs and shared / disjoint real inputs, for
    subsets `vars` of all inputs; against the dense closed form of the pointwise sum, and against
    (m1 + m2).reduce where that completes."""
    from funsor.cnf import Contraction
    from funsor.einsum import naive_contract_einsum
    share_int = rng.random() < 0.7
    share_real = rng.random() < 0.4
    ni = rng.choice([2, 2, 3])
    b1 = [("b", "i", ni)] + ([("b", "k", 2)] if rng.random() < 0.3 else [])
    b2 = [("b", "i" if share_int else "j", ni if share_int else rng.choice([2, 3]))]
    sh = lambda: rng.choice([(), (), (2,)])
    r1 = [("r", "x", sh())]
    r2 = [("r", "y", sh())] + ([("r", "x", r1[0][2])] if share_real else [])
    o1, o2 = r1 + b1, r2 + b2
    rng.shuffle(o1)
    rng.shuffle(o2)
    cs = []
    for o in (o1, o2):
        dim = sum(numel(s_) for kind, _, s_ in o if kind == "r")
        c = None
        for _ in range(40):
            cand = Case(rng, o, rng.choice([dim, dim + 1]))
            if cand.block_ok([k for k, _ in cand.layout]):
                c = cand
                break
        if c is None:
            return None
        cs.append(c)
    c1, c2 = cs
    ts, ms = [], []
    for c in cs:
        tb = [(k, n) for k, n in c.batch.items() if rng.random() < 0.8]
        tdata = dy_array(rng, tuple(n for _, n in tb), pool=[-1, -0.5, 0, 0.5, 1])
        ts.append((tb, tdata))
        ms.append(Tensor(tdata, OrderedDict((k, Bint[n]) for k, n in tb)) + c.build())
    m1, m2 = ms
    batch = OrderedDict(c1.batch)
    batch.update(c2.batch)
    layout_u = list(c1.layout) + [p_ for p_ in c2.layout if p_[0] not in dict(c1.layout)]
    rnames = [k for k, _ in layout_u]
    # full joint block must be positive definite at every point to integrate everything
    red_r = [k for k in rnames if rng.random() < 0.6]
    all_reals = set(red_r) == set(rnames)
    red_i = [k for k in batch if rng.random() < 0.6] if all_reals else []
    if not red_r and not red_i:
        red_r = [rnames[0]]
        all_reals = set(red_r) == set(rnames)
    shapes = dict(c1.shapes)
    shapes.update(c2.shapes)
    rv = frozenset([Variable(k, dom(shapes[k])) for k in red_r] + [Variable(k, Bint[batch[k]]) for k in red_i])
    hist = [dict(op="gaussian", **c1.describe()), dict(op="gaussian", **c2.describe()),
            dict(op="mixture-contraction", tensors=[dict(inputs=tb, data=td.tolist()) for tb, td in ts],
                 reduced=red_r + red_i)]
    how = rng.choice(["Contraction", "Contraction", "einsum"])
    names_all = list(batch) + rnames
    try:
        def run():
            if how == "einsum" and all(len(k) == 1 for k in names_all):
                kept = "".join(k for k in names_all if k not in red_r + red_i)
                eqn = "".join(m1.inputs) + "," + "".join(m2.inputs) + "->" + kept
                return naive_contract_einsum(eqn, m1, m2, backend="pyro.ops.einsum.torch_log")
            return Contraction(ops.logaddexp, ops.add, rv, m1, m2)
        res = expect_value(counts, "mixture-contraction", run, False, hist)
        # expected, per batch point
        kept_b = [k for k in batch if k not in red_i]
        kept_r = [(k, n) for k, n in layout_u if k not in red_r]
        acc = {}
        for idx in itertools.product(*[range(n) for n in batch.values()]):
            p = dict(zip(batch, idx))
            tot_c = F(0)
            Lu = Eu = None
            for c, (tb, td) in zip(cs, ts):
                w, P = c.at(sub_point(p, c.batch))
                lam, eta, cc = dense_layout(c.layout, w, P)
                L, E = _embed(layout_u, c.layout, lam, eta)
                Lu = L if Lu is None else [[a + b for a, b in zip(ra, rb)] for ra, rb in zip(Lu, L)]
                Eu = E if Eu is None else [a + b for a, b in zip(Eu, E)]
                tot_c += cc + F(float(td[tuple(p[k] for k, _ in tb)]))
            if red_r:
                sch = schur(layout_u, Lu, Eu, tot_c, red_r)
                if sch is None:
                    raise Declined("joint-block-singular")
                lay_a, lam2, eta2, c2_, nb, det = sch
                cval = float(c2_) + logconst(nb, det)
            else:
                lay_a, lam2, eta2, cval = layout_u, Lu, Eu, float(tot_c)
            acc.setdefault(tuple(p[k] for k in kept_b), []).append((p, lay_a, lam2, eta2, cval))
        if kept_r:
            obs = Obs(res)
            for key, items in acc.items():
                p, lay_a, lam2, eta2, cval = items[0]
                names_c, lam_c, eta_c = canon(lay_a, lam2, eta2)
                iw, iP, it = obs.at(p)
                d_impl = dense_from_sqrt(obs.layout, iw, iP, it)
                if not dense_close(d_impl, names_c, lam_c, eta_c, cval, 1e-8):
                    raise CaseFail("C13.mixture-contraction-ne-dense", point=p, got=dense_str(d_impl),
                                   expected=str(dict(layout=names_c, precision=[[str(v) for v in r] for r in lam_c],
                                                     info_vec=[str(v) for v in eta_c], const=cval)))
        else:
            if not isinstance(res, (Tensor, Number)):
                counts("mixture-contraction:lazy")
                return None
            tab = c12.table_of(res, kept_b, batch)
            for key, items in acc.items():
                vs = [it_[4] for it_ in items]
                m = max(vs)
                want = m + math.log(sum(math.exp(v - m) for v in vs))
                if not fclose(float(tab[key]), want, 1.0, 1e-8):
                    raise CaseFail("C13.mixture-contraction-ne-logsumexp", point=key, expected=str(want),
                                   got=str(float(tab[key])))
        # against the ordinary route
        try:
            ref = (m1 + m2).reduce(ops.logaddexp, rv)
            if c12.decompose(ref) is not None and c12.decompose(res) is not None:
                o1_, o2_ = Obs(res), Obs(ref)
                for key, items in acc.items():
                    p = items[0][0]
                    a = dense_from_sqrt(o1_.layout, *o1_.at(p))
                    b = dense_from_sqrt(o2_.layout, *o2_.at(p))
                    if not dense_equal(a, b, 1e-8):
                        raise CaseFail("C13.mixture-contraction-ne-add-then-reduce", point=p, got=dense_str(a),
                                       expected=dense_str(b))
                counts("mixture-contraction:agrees-with-reduce")
        except DECLINE_ERRORS + (np.linalg.LinAlgError,):
            counts("mixture-contraction:reduce-declined")
    except CaseFail as cf:
        cf.kw.setdefault("witness_history", hist)
        raise
    counts("mixture-contraction:" + how)
    counts("mixture-contraction:" + ("shared-int" if share_int else "distinct-int") + ("+shared-real" if share_real else ""))
    counts("mixture-contraction:reduces-" + ("ints+reals" if red_i else "reals"))
    return ("contraction", str(o1), str(o2), tuple(red_r + red_i), how)


def integrate_grid(ctx, env):
    """"h IS the measure" and "the measure is over-complete" as independent axes crossed with every integrand kind:
    measures {square, wide, sum of factors} x integrands {+a, -a, a-b} x a, b in {q (the measure object), qcopy
    (equal but distinct), h, h2}, each against the expectation closed form and the linearity / sign gate."""
    n = 0
    srcs = ["q", "qcopy", "h", "h2"]
    combos = [("+a", a, None) for a in srcs] + [("-a", a, None) for a in srcs] + \
             [("a-b", a, b) for a in srcs for b in srcs if not (a == b and a in ("h", "h2"))]
    for measure in ("square", "wide", "factor-sum"):
        for shape_, a, b in combos:
            seed = ctx.rng.getrandbits(48)
            force = dict(measure=measure, shape=shape_, a=a, b=b or "h")
            try:
                key = stream_integrate(env, random.Random(seed), ctx.count, force=force)
            except Declined as e:
                ctx.count(f"integrate-grid:declined:{e}")
                continue
            except CaseFail as cf:
                cf.kw["witness"] = dict(case_seed=seed, stream="integrate-grid", force=force,
                                        history=cf.kw.pop("witness_history", None))
                report(ctx, cf)
                continue
            if key is not None:
                n += 1
                ctx.case(nontrivial_key=("integrate-grid", measure, shape_, a, b))
    ctx.count("integrate-grid:cases", n)


def underdetermined_stream(ctx, env):
    """The error clause with VECTOR / MATRIX-valued real inputs and generic (non-dyadic) float data: rank from 0 to
    dim_b - 1 (in particular rank >= number of reduced VARIABLES but < number of flattened ELEMENTS) for partial and
    full marginalisation, log_normalizer and Integrate: the call must raise; a returned value is a violation
    (20 random draws per shape and operation so that rounding-noise pivots of a singular Cholesky are hit)."""
    rng = ctx.rng
    n = 0
    for shape in [(2,), (3,), (2, 2)]:
        for op in ["partial", "partial-two-vars", "full", "log_normalizer", "integrate-variable", "integrate-gaussian"]:
            for draw in range(20):
                red = [("x", shape)] + ([("z", (2,))] if op == "partial-two-vars" else [])
                kept = [("y", rng.choice([(), (2,)]))] if op.startswith("partial") else []
                batch = [("i", 2)] if rng.random() < 0.3 else []
                order = [("r", k, sh) for k, sh in red + kept] + [("b", k, m) for k, m in batch]
                rng.shuffle(order)
                dim_b = sum(numel(sh) for _, sh in red)
                dim = dim_b + sum(numel(sh) for _, sh in kept)
                lo = len(red) if rng.random() < 0.8 else 0
                rank = rng.randint(min(lo, dim_b - 1), dim_b - 1)
                bshape = tuple(m for _, m in batch)
                w = np.array([rng.gauss(0, 1) for _ in range(int(np.prod(bshape + (rank,))))]).reshape(bshape + (rank,))
                P = np.array([rng.gauss(0, 1) for _ in range(int(np.prod(bshape + (dim, rank))))]).reshape(bshape + (dim, rank))
                inputs = inputs_of(order)
                g = Gaussian(w, P, inputs)
                rnames = [k for k, _ in red]
                xvar = Variable("x", dom(shape))

                def call():
                    if op.startswith("partial") or op == "full":
                        return g.reduce(ops.logaddexp, frozenset(rnames))
                    if op == "log_normalizer":
                        return g.log_normalizer
                    if op == "integrate-variable":
                        return Integrate(g, xvar, frozenset([xvar]))
                    h = Gaussian(np.ones(bshape + (1,)), np.ones(bshape + (dim, 1)), inputs)
                    return Integrate(g, h, frozenset([xvar]))
                try:
                    res = call()
                except Exception as e:      # any error is what the property asks for
                    ctx.count(f"underdetermined:{op}:raised:{type(e).__name__}")
                    n += 1
                    ctx.case(nontrivial_key=("underdetermined", shape, op, draw, rank))
                    continue
                if c12.decompose(res) is None:
                    ctx.count(f"underdetermined:{op}:lazy")
                    continue
                wit = dict(stream="underdetermined", op=op, order=[[o[0], o[1], list(o[2]) if o[0] == "r" else o[2]] for o in order],
                           rank=rank, dim_b=dim_b, white_vec=w.tolist(), prec_sqrt=P.tolist())
                py = ("import numpy as np\nfrom collections import OrderedDict\nimport funsor\nfunsor.set_backend('numpy')\n"
                      "import funsor.ops as ops\nfrom funsor.domains import Bint, Real, Reals\nfrom funsor.gaussian import Gaussian\n"
                      "from funsor.terms import Variable\nfrom funsor.integrate import Integrate\n"
                      f"order = {wit['order']!r}\n"
                      "inputs = OrderedDict((k, (Reals[tuple(s)] if s else Real) if kind == 'r' else Bint[s]) for kind, k, s in order)\n"
                      f"g = Gaussian(np.array({w.tolist()!r}).reshape({w.shape!r}), np.array({P.tolist()!r}).reshape({P.shape!r}), inputs)\n"
                      f"op = {op!r}; rnames = {rnames!r}; shape = {tuple(shape)!r}\n"
                      "x = Variable('x', Reals[shape])\n"
                      "try:\n"
                      "    if op.startswith('partial') or op == 'full':\n        r = g.reduce(ops.logaddexp, frozenset(rnames))\n"
                      "    elif op == 'log_normalizer':\n        r = g.log_normalizer\n"
                      "    elif op == 'integrate-variable':\n        r = Integrate(g, x, frozenset([x]))\n"
                      "    else:\n        r = Integrate(g, Gaussian(np.ones(g.white_vec.shape[:-1] + (1,)), "
                      "np.ones(g.prec_sqrt.shape[:-1] + (1,)), inputs), frozenset([x]))\n"
                      "    print('returned', r)\n    FAILS = True\n"
                      "except Exception as e:\n    print('raised', type(e).__name__)\n    FAILS = False\n")
                ctx.fail("input", "C13.underdetermined-returns-value", witness=wit,
                         expected=f"an error: rank {rank} < {dim_b} elements of the integrated block",
                         got=str(res)[:300], python=py)
    ctx.count("underdetermined:cases", n)


def _snapshot(f):
    """bitwise image of a result (for the history-independence gate)"""
    obs = Obs(f)
    parts = [tuple(f.inputs)]
    if obs.g is not None:
        parts += [np.asarray(obs.g.white_vec).tobytes(), np.asarray(obs.g.prec_sqrt).tobytes()]
    for t in obs.ts:
        parts.append(np.asarray(t.data).tobytes())
    return parts


def stream_history(env, rng, counts):
    """Multi-step history inside one process: several Gaussians over the SAME ordered input names but with the
    block sizes permuted (same total size) — and one with a different total — are marginalised over the same
    (preferably interleaved) subsets of names, substituted, log-normalised, interleaved with each other; every
    step is checked against the closed form as in the single-step streams, and re-running the first Gaussian's
    steps after the others (A, B, …, A) must reproduce its first answers bit for bit (results are a pure
    function of the arguments: no state may be carried between operations)."""
    nreal = rng.choice([3, 3, 4])
    rnames = rng.sample(REAL_NAMES, nreal)
    shapes = [rng.choice([(), (2,), (1, 2), (2,), ()]) for _ in rnames]
    if len(set(numel(sh) for sh in shapes)) == 1:
        shapes[0] = (2,) if numel(shapes[0]) == 1 else ()
    while sum(numel(sh) for sh in shapes) > 6:
        i = max(range(nreal), key=lambda i: numel(shapes[i]))
        shapes[i] = ()
        if len(set(numel(sh) for sh in shapes)) == 1:
            shapes[(i + 1) % nreal] = (2,)
    batch = [("b", k, rng.choice([1, 2])) for k in rng.sample(BATCH_NAMES, rng.choice([0, 0, 1]))]
    slots = ["r"] * nreal + ["b"] * len(batch)
    rng.shuffle(slots)

    def order_for(shs):
        it_r, it_b = iter(zip(rnames, shs)), iter(batch)
        out = []
        for sl in slots:
            if sl == "r":
                k, sh = next(it_r)
                out.append(("r", k, sh))
            else:
                out.append(next(it_b))
        return out
    variants = [list(shapes)]
    for _ in range(8):
        pshapes = list(shapes)
        rng.shuffle(pshapes)
        if all([numel(a) for a in pshapes] != [numel(b) for b in v] for v in variants):
            variants.append(pshapes)
        if len(variants) >= 3:
            break
    other = list(shapes)
    other[rng.randrange(nreal)] = (3,)
    variants.append(other)                       # same names, different total size
    # subsets of names to integrate: interleaved ones first (first and last real input, ...)
    subsets = [[rnames[0], rnames[-1]]]
    if nreal == 4:
        subsets.append([rnames[0], rnames[2]])
        subsets.append([rnames[1], rnames[3]])
    subsets.append(rng.sample(rnames, rng.randint(1, nreal - 1)))
    subsets.append(list(rnames))
    cases = []
    for shs in variants:
        order = order_for(shs)
        dim = sum(numel(sh) for sh in shs)
        c = None
        for _ in range(40):
            cand = Case(rng, order, rng.choice([dim, dim + 1]))
            if all(cand.block_ok(bn) for bn in subsets):
                c = cand
                break
        if c is not None:
            cases.append(c)
    if len(cases) < 2:
        counts("history:gen-failed")
        return None
    first = cases[0]
    sequence = cases + [first]                    # A, B, C, …, A
    hist = [dict(op="history", names=rnames, subsets=subsets)] + [dict(op="gaussian", **c.describe()) for c in cases]
    snaps = {}
    try:
        for pos, c in enumerate(sequence):
            for bn in subsets:
                dim_b = sum(n for k, n in c.layout if k in bn)
                step_hist = hist + [dict(op="marginal", gaussian_index=min(pos, len(cases)) % len(cases), vars=bn)]
                try:
                    _marginal_checks(env, rng, counts, c, bn, dim_b, step_hist)
                except CaseFail as cf:
                    cf.kw.setdefault("witness_history", step_hist)
                    raise
                if c is first:
                    g = c.build()
                    snap = _snapshot(g.reduce(ops.logaddexp, frozenset(bn)))
                    key = tuple(bn)
                    if key in snaps and snaps[key] != snap:
                        raise CaseFail("C13.history-dependent-result", expected="the same arrays as the first time",
                                       got="different arrays when the same marginal is recomputed after other "
                                           "Gaussians with the same input names were processed", vars=bn,
                                       witness_history=step_hist)
                    snaps.setdefault(key, snap)
            # a substitution followed by a marginal, and the log-normaliser, interleaved as well
            kept = [k for k in rnames if k not in subsets[0]]
            kw = {kept[0]: Tensor(dy_array(rng, c.shapes[kept[0]]))}
            rest = [k for k in rnames if k != kept[0]]
            sub = c.build()(**kw)
            if isinstance(sub, Gaussian) or c12.decompose(sub) is not None:
                sub.reduce(ops.logaddexp, frozenset(rest[:1]))
            counts("history:step")
    except CaseFail:
        raise
    counts("history:sequences")
    counts(f"history:variants:{len(cases)}")
    return ("history", tuple(rnames), str(slots), str(variants))


# ----------------------------------------------------------------------------------------------
# compression-threshold histories: Gaussians whose square-root factor is WIDER than the default constructor
# would ever leave it (rank > 2*dim), or narrower than usual (threshold 1 / 1.5), because they were built while
# the documented knob Gaussian.set_compression_threshold(t) was active — and are consumed after the context
# exited (threshold back to 2) or still inside it.  Oracle: the same dense closed forms; a sum of quadratics
# -1/2|x P_i - w_i|^2 is the quadratic of the column-concatenated factor [P_1 .. P_n], [w_1 .. w_n].
# ----------------------------------------------------------------------------------------------

THRESHOLDS = [math.inf, math.inf, 8, 4, 3, 2.5, 1.5, 1]
VIAS = ["direct", "plate", "add"]
PLATE_NAME = "p"          # not in BATCH_NAMES / REAL_NAMES


class WideCase(Case):
    """Case whose build() creates the Gaussian under set_compression_threshold(thr), either directly from the wide
    factor, by plate fusion (reduce(ops.add, plate) of `parts` narrower factors living along an extra integer input
    placed at batch position `ppos` / input position `ipos`), or as a sum of `parts` Gaussians."""

    def __init__(self, rng, order, rank, thr, via, parts=2, ppos=0, ipos=0):
        super().__init__(rng, order, rank)
        self.thr, self.via, self.parts, self.ppos, self.ipos = thr, via, parts, ppos, ipos
        assert via == "direct" or rank % parts == 0

    def regen(self, rng):
        return WideCase(rng, self.order, self.rank, self.thr, self.via, self.parts, self.ppos, self.ipos)

    def context(self):
        return Gaussian.set_compression_threshold(self.thr)

    def build(self):
        with self.context():
            return self._build()

    def _build(self):
        w, P = self.w.copy(), self.P.copy()
        if self.via == "direct":
            return Gaussian(w, P, self.inputs)
        n, r0 = self.parts, self.rank // self.parts
        nbat = len(self.batch)
        ws = w.reshape(w.shape[:-1] + (n, r0))                       # (..., n, r0)
        Ps = P.reshape(P.shape[:-1] + (n, r0))                       # (..., dim, n, r0)
        if self.via == "add":
            gs = [Gaussian(np.ascontiguousarray(ws[..., i, :]), np.ascontiguousarray(Ps[..., i, :]), self.inputs)
                  for i in range(n)]
            out = gs[0]
            for h in gs[1:]:
                out = out + h
            return out
        # plate: extra integer input of size n at batch axis ppos, input position ipos
        ws = np.ascontiguousarray(np.moveaxis(ws, nbat, self.ppos))                    # (.., n, .., r0)
        Ps = np.ascontiguousarray(np.moveaxis(np.moveaxis(Ps, nbat + 1, nbat), nbat, self.ppos))   # (.., n, .., dim, r0)
        items = list(self.inputs.items())
        # position among the inputs consistent with batch axis ppos
        bpos = [i for i, (k, d) in enumerate(items) if d.dtype != "real"]
        lo = bpos[self.ppos - 1] + 1 if self.ppos > 0 else 0
        hi = bpos[self.ppos] if self.ppos < len(bpos) else len(items)
        at = lo + self.ipos % (hi - lo + 1)
        items.insert(at, (PLATE_NAME, Bint[n]))
        src = Gaussian(ws, Ps, OrderedDict(items))
        return src.reduce(ops.add, PLATE_NAME)

    def describe(self):
        d = super().describe()
        d.update(compression_threshold=str(self.thr), built_via=self.via, parts=self.parts,
                 plate_batch_axis=self.ppos, plate_input_offset=self.ipos,
                 note="white_vec/prec_sqrt are the column-concatenated factor of the summed parts")
        return d


def gen_wide_case(rng, force=None):
    force = force or {}
    thr = force.get("thr", None) or rng.choice(THRESHOLDS)
    via = force.get("via") or rng.choice(VIAS)
    nb = force.get("nb", rng.choice([0, 1, 1, 1, 2, 2]))
    if force.get("single_x"):
        shape = rng.choice([(), (2,), (3,), (1, 2)])
        order = [("r", "x", shape)] + [("b", k, rng.choice([1, 2, 2, 3])) for k in rng.sample(BATCH_NAMES, nb)]
        rng.shuffle(order)
    else:
        for _ in range(50):
            order = gen_signature(rng, max_dim=force.get("max_dim", 4), nb_choices=(nb,))
            if "dim" not in force or sum(numel(s) for kind, _, s in order if kind == "r") == force["dim"]:
                break
    dim = sum(numel(s) for kind, _, s in order if kind == "r")
    if thr > 2:
        # wider than the default constructor ever leaves it; also just below / at / above dim*thr for finite thr
        ranks = [2 * dim + 1, 2 * dim + 2, 3 * dim, 3 * dim + 1, 4 * dim + 1, 5 * dim]
        if thr != math.inf:
            ranks += [int(dim * thr), int(dim * thr) + 1]
        ranks = [r for r in ranks if r > 2 * dim and r <= 16] or [2 * dim + 1]
    else:
        ranks = [r for r in range(dim, 2 * dim + 1)]
    rank = rng.choice(ranks)
    parts = 1
    if via != "direct":
        divs = [n for n in (2, 3, 4, 5, 6) if rank % n == 0]
        if not divs:
            rank += (-rank) % rng.choice([2, 3])
            divs = [n for n in (2, 3, 4, 5, 6) if rank % n == 0]
        parts = rng.choice(divs)
    c = WideCase(rng, order, rank, thr, via, parts, ppos=rng.randint(0, nb), ipos=rng.randrange(4))
    names = [k for k, _ in c.layout]
    for _ in range(30):
        if c.block_ok(names):
            return c
        c = c.regen(rng)
    return None


def _wide_checks(env, rng, counts, c, consume, what):
    """build under the threshold; consume after the context exited or inside it."""
    import contextlib
    names = [k for k, _ in c.layout]
    hist0 = [dict(op="gaussian", **c.describe()), dict(op="consume", when=consume)]
    counts("threshold:thr-" + str(c.thr))
    counts("threshold:via-" + c.via)
    counts("threshold:batch-%d" % len(c.batch))
    counts("threshold:" + consume)
    counts("threshold:rank-" + ("gt-2dim" if c.rank > 2 * c.dim else "le-2dim"))
    g0 = c.build()
    counts("threshold:built-" + ("pure-gaussian-rank-" + ("kept" if g0.prec_sqrt.shape[-1] == c.rank else "compressed")
                                 if isinstance(g0, Gaussian) else type(g0).__name__))
    ctxm = c.context() if consume == "inside" else contextlib.nullcontext()
    try:
        with ctxm:
            if what in ("lognorm", "all"):
                _marginal_checks(env, rng, counts, c, list(names), c.dim, hist0 + [dict(op="marginal", vars=names)])
                # the attribute itself, on the object built under the threshold
                if isinstance(g0, Gaussian):
                    ln = c12.table_of(g0.log_normalizer, list(c.batch), c.batch)
                    for p in c.points():
                        w, P = c.at(p)
                        lam, eta, cc = dense_layout(c.layout, w, P)
                        _, _, _, c2, nb, det = schur(c.layout, lam, eta, cc, names)
                        want = float(c2) + logconst(nb, det)
                        got = float(ln[tuple(p[k] for k in c.batch)])
                        if not fclose(got, want, 1.0, 1e-8):
                            raise CaseFail("C13.log-normalizer-ne-formula", point=p, expected=str(want), got=str(got))
                    counts("threshold:log-normalizer-attr")
            if what in ("marginal", "all") and len(names) > 1:
                bn = rng.sample(names, rng.randint(1, len(names) - 1))
                if c.block_ok(bn):
                    dim_b = sum(n for k, n in c.layout if k in bn)
                    _marginal_checks(env, rng, counts, c, bn, dim_b, hist0 + [dict(op="marginal", vars=bn)])
            if what in ("mixture", "all") and c.batch:
                _mixture_checks(env, rng, counts, c)
            if what in ("integrate", "all") and names == ["x"]:
                _integrate_var_checks(env, rng, counts, c)
    except CaseFail as cf:
        if not cf.kw.get("witness_history") or cf.kw["witness_history"][0].get("compression_threshold") is None:
            cf.kw["witness_history"] = hist0 + (cf.kw.get("witness_history") or [])[1:]
        raise


def stream_threshold(env, rng, counts, force=None):
    """Gaussians built under a non-default compression threshold (directly / by plate fusion / as a sum), then
    log-normalised, marginalised, mixture-reduced and integrated after the context exited or inside it."""
    force = dict(force or {})
    if not force and rng.random() < 0.3:
        force["single_x"] = True
    c = gen_wide_case(rng, force)
    if c is None:
        counts("threshold:gen-failed")
        return None
    consume = force.get("consume") or rng.choice(["after-exit", "after-exit", "inside"])
    _wide_checks(env, rng, counts, c, consume, force.get("what", "all"))
    return ("threshold", str(c.thr), c.via, c.parts, consume, c.rank, str(c.order))


def threshold_grid(ctx, env):
    """Enumerated: threshold x construction route x number of integer inputs x consumption point x total dim."""
    rng = ctx.rng
    quick = ctx.tier == "quick"
    thrs = [math.inf, 4] if quick else [math.inf, 8, 4, 3, 1]
    dims = [1, 2] if quick else [1, 2, 3]
    n = 0
    for thr, via, nb, consume, dim in itertools.product(thrs, VIAS, (0, 1, 2), ("after-exit", "inside"), dims):
        seed = rng.getrandbits(48)
        force = dict(thr=thr, via=via, nb=nb, consume=consume, dim=dim)
        try:
            key = stream_threshold(env, random.Random(seed), ctx.count, force=force)
        except Declined as e:
            ctx.count(f"threshold-grid:declined:{e}")
            continue
        except CaseFail as cf:
            cf.kw["witness"] = dict(case_seed=seed, stream="threshold-grid", force={k: str(v) if k == "thr" else v
                                                                                    for k, v in force.items()},
                                    history=cf.kw.pop("witness_history", None))
            report(ctx, cf)
            continue
        if key is not None:
            n += 1
            ctx.case(sample=dict(case_seed=seed, stream="threshold-grid", key=str(key)[:200]),
                     nontrivial_key=("threshold-grid",) + tuple(str(v) for v in force.values()))
    ctx.count("threshold-grid:cases", n)


def replay_threshold_grid(case_seed, force):
    env = Env(c12._Quiet(), use_driver=False)
    force = dict(force, thr=float(force["thr"]))
    try:
        stream_threshold(env, random.Random(case_seed), lambda *a, **k: None, force=force)
    except CaseFail as cf:
        print("still fails:", cf.name, {k: v for k, v in cf.kw.items() if k != "witness"})
        return True
    except Declined:
        return False
    return False


STREAMS = [("marginal", stream_marginal, 8), ("too-little", stream_too_little, 1), ("integrate", stream_integrate, 3),
           ("mixture", stream_mixture, 2), ("plate", stream_plate, 2), ("moment", stream_moment, 2),
           ("shared", stream_shared, 2), ("contraction", stream_contraction, 2), ("threshold", stream_threshold, 3)]


def run_case(env, case_seed, counts, stream=None):
    rng = random.Random(case_seed)
    if stream == "history":
        name, f = "history", stream_history
    else:
        name, f = rng.choice([(n, f) for n, f, wgt in STREAMS for _ in range(wgt)])
    try:
        key = f(env, rng, counts)
    except Declined as e:
        counts(f"{name}:declined:{e}")
        return None, name
    except CaseFail as cf:
        cf.kw["witness"] = dict(case_seed=case_seed, stream=name, history=cf.kw.pop("witness_history", None))
        raise
    return key, name


PY_TEMPLATE = """
# replay for C13: re-runs the generated case (seeded) against the funsor under FUNSOR_REPO (default /repo);
# the Gaussian's exact parameters and the operation are in the replay document's "witness".
import sys
sys.path.insert(0, {verif!r})
from fv.harness import c13
FAILS = c13.replay_case({case_seed}, {stream!r})
"""


def replay_case(case_seed, stream=None):
    env = Env(c12._Quiet(), use_driver=False)
    try:
        run_case(env, case_seed, lambda *a, **k: None, stream)
    except CaseFail as cf:
        print("still fails:", cf.name, {k: v for k, v in cf.kw.items() if k != "witness"})
        return True
    return False


def replay_integrate_grid(case_seed, force):
    env = Env(c12._Quiet(), use_driver=False)
    try:
        stream_integrate(env, random.Random(case_seed), lambda *a, **k: None, force=force)
    except CaseFail as cf:
        print("still fails:", cf.name)
        return True
    except Declined:
        return False
    return False


def replay_plate_exhaustive(case_seed, order_raw, mixture):
    env = Env(c12._Quiet(), use_driver=False)
    order = [(o[0], o[1], tuple(o[2]) if o[0] == "r" else o[2]) for o in order_raw]
    r2 = random.Random(case_seed)
    dim = sum(numel(o[2]) for o in order if o[0] == "r")
    c = Case(r2, order, r2.choice([1, dim]))
    try:
        _plate_case(env, r2, lambda *a, **k: None, c, _all_subsets([o[1] for o in order if o[0] == "b"]), mixture)
    except CaseFail as cf:
        print("still fails:", cf.name)
        return True
    except Declined:
        return False
    return False


def replay(ctx, doc):
    w = doc.get("witness") or {}
    if w.get("stream") == "underdetermined":
        env_ = {}
        exec(doc["python"], env_)
        return bool(env_.get("FAILS"))
    if "case_seed" not in w:
        return True
    if w.get("stream") == "plate-exhaustive":
        return replay_plate_exhaustive(w["case_seed"], w["order_raw"], w["mixture"])
    if w.get("stream") == "integrate-grid":
        return replay_integrate_grid(w["case_seed"], w["force"])
    if w.get("stream") == "threshold-grid":
        return replay_threshold_grid(w["case_seed"], w["force"])
    if w.get("stream") == "underdetermined":
        env_ = {}
        exec(doc["python"], env_)
        return bool(env_.get("FAILS"))
    return replay_case(w["case_seed"], "history" if w.get("stream") == "history" else None)


def report(ctx, cf):
    w = cf.kw.pop("witness", None)
    if cf.name in ("model-ne-spec",):
        ctx.infra_errors.append(f"Lean model disagrees with the oracle: {cf.kw} {w}")
        return
    if w.get("stream") == "integrate-grid":
        py = (f"import sys\nsys.path.insert(0, {str(VERIF)!r})\nfrom fv.harness import c13\n"
              f"FAILS = c13.replay_integrate_grid({w['case_seed']}, {w['force']!r})\n")
    elif w.get("stream") == "threshold-grid":
        py = (f"import sys\nsys.path.insert(0, {str(VERIF)!r})\nfrom fv.harness import c13\n"
              f"FAILS = c13.replay_threshold_grid({w['case_seed']}, {w['force']!r})\n")
    elif w.get("stream") == "plate-exhaustive":
        py = (f"import sys\nsys.path.insert(0, {str(VERIF)!r})\nfrom fv.harness import c13\n"
              f"FAILS = c13.replay_plate_exhaustive({w['case_seed']}, {w['order_raw']!r}, {w['mixture']!r})\n")
    else:
        py = PY_TEMPLATE.format(verif=str(VERIF), case_seed=w["case_seed"],
                                stream="history" if w.get("stream") == "history" else None)
    ctx.fail("input", cf.name, witness=w, expected=cf.kw.get("expected"), got=cf.kw.get("got"),
             detail={k: str(v) for k, v in cf.kw.items() if k not in ("expected", "got")}, python=py)


def inverse_stream(ctx, n):
    """The model's Gauss-Jordan inverse/determinant vs numpy and the Python oracle (exact)."""
    rng = ctx.rng
    reqs, cases = [], []
    for _ in range(n):
        k = rng.choice([1, 2, 2, 3, 3, 4])
        A = [[F(rng.choice([-2, -1, 0, 0, 1, 1, 2, 3])) / rng.choice([1, 1, 2]) for _ in range(k)] for _ in range(k)]
        reqs.append(f"C13 inverse {k} {sx(A)}")
        cases.append(A)
    for A, ans in zip(cases, ctx.driver.ask(reqs)):
        inv, det = mat_inv(A), mat_det(A)
        if ans == "ok singular":
            ok = inv is None and det == 0
        elif ans.startswith("ok "):
            s = parse_sx(ans[3:])
            ok = inv is not None and [[F(v) for v in r] for r in s[0]] == inv and F(s[1]) == det
        else:
            ok = False
        if not ok:
            ctx.infra_errors.append(f"Lean inverse? disagrees with the oracle on {A}: {ans}")
            return
    ctx.count("inverse-cases", n)


def correspond(ctx, use_driver=True, volume=None):
    with c12.RuleMonitor() as mon:
        try:
            _correspond(ctx, use_driver, volume)
        finally:
            ctx.extra["gaussian_rules"] = mon.report()


def _correspond(ctx, use_driver=True, volume=None):
    ctx.rule = ("Gaussians of C12's family (1-3 real inputs of shapes ()..(2,2), 0-2 batch inputs, interleaved input "
                "orders, dyadic parameters) with rank in {dim_b, dim_b+1, dim, dim+1} and nonsingular integrated "
                "block; streams: marginal over every kind of subset of the reals (contiguous / interleaved blocks, "
                "all reals = log-normaliser) incl. sequential-vs-joint and evaluate-vs-integrate commutation; "
                "too-little-information (rank < dim_b) must raise; Integrate against a Variable / another Gaussian; "
                "mixture reduce over reals + integer inputs; plate sums of Gaussians / mixtures (completion gate); "
                "moment matching (mass, mean, covariance); shared-array histories (several Gaussians around the same "
                "prec_sqrt / white_vec array object); history stream: sequences A, B, C, A of Gaussians over the same "
                "ordered input names with permuted block sizes (and one different total size), marginalised over the "
                "same interleaved subsets, each step checked, and A's answers must be bitwise reproduced after B, C; "
                "compression-threshold histories: Gaussians built under Gaussian.set_compression_threshold(t), t in "
                "{inf, 8, 4, 3, 2.5, 1.5, 1}, directly from a wide factor (rank up to 5*dim > 2*dim), by plate fusion "
                "of 2-6 parts or as a sum of 2-6 Gaussians, with 0-2 integer inputs, then log-normalised / "
                "marginalised / mixture-reduced / integrated after the context exited or inside it (enumerated grid "
                "threshold x route x #ints x consumption point x dim, plus a random stream).  Non-trivial = the implementation returned a value that "
                "was compared; distinct by stream, signature, reduced set and rank.")
    env = Env(ctx, use_driver)
    if env.use_driver:
        inverse_stream(ctx, 80 if ctx.tier == "quick" else 800)
    plate_exhaustive(ctx, env)
    integrate_grid(ctx, env)
    underdetermined_stream(ctx, env)
    threshold_grid(ctx, env)
    n = volume or (900 if ctx.tier == "quick" else 16000)
    for _ in range(n):
        seed = ctx.rng.getrandbits(48)
        try:
            key, name = run_case(env, seed, ctx.count)
        except CaseFail as cf:
            report(ctx, cf)
            continue
        ctx.count("stream:" + name)
        if key is not None:
            ctx.case(sample=dict(case_seed=seed, stream=name, key=str(key)[:200]), nontrivial_key=key)
    for _ in range(30 if ctx.tier == "quick" else 500):
        seed = ctx.rng.getrandbits(48)
        try:
            key, name = run_case(env, seed, ctx.count, stream="history")
        except CaseFail as cf:
            report(ctx, cf)
            continue
        ctx.count("stream:history")
        if key is not None:
            ctx.case(sample=dict(case_seed=seed, stream="history", key=str(key)[:200]), nontrivial_key=key)
    ctx.assumptions.append("np.linalg.cholesky / triangular solves / inv are parameters satisfying their defining "
                           "equations; the Lean model takes B^-1 and det B over Rat (checked B*B^-1 = 1 per request)")
    ctx.assumptions.append("the identification of the closed forms with Lebesgue integrals is not proved (the "
                           "property takes the closed form as oracle); log 2pi and log det are evaluated in float64")


def search(ctx, broken):
    env = Env(ctx, use_driver=False)
    before = len([f for f in ctx.failures if f.witness is not None])
    for it in range(3000 if ctx.tier == "quick" else 8000):
        seed = ctx.rng.getrandbits(48)
        try:
            run_case(env, seed, lambda *a, **k: None, "history" if it % 10 == 0 else None)
        except CaseFail as cf:
            report(ctx, cf)
        if len([f for f in ctx.failures if f.witness is not None]) > before:
            return
