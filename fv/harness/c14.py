"""
C14 — point masses and samples: Delta semantics and mass-preserving sampling.

Correspondence: the real funsor (Delta substitution / reduction / addition, Integrate against a Delta,
Tensor._sample on the numpy path, Gaussian._sample) against the Lean model FV.C14 (deltaEval, deltaLin,
sampleTensor = partition + align + row-major flatten + probs + cumsum + count(s < r) + the % / //
decode loop + normaliser) — the functions about which Props/C14.lean proves delta_eval, delta_add_reduce,
decode_encode / encode_decode, inverse_cdf_index, sample_row_support and sample_mass.

The random state is *chosen by the harness*: numpy.random.rand / randn are replaced, for the duration
of one call, by stubs that hand out prepared arrays and record the requested shapes.

Gates (what the property states):
  * Delta(v, p, ld)(v=x) = ld if x == p else -inf                       (exact)
  * (Delta + f).reduce(logaddexp | max, v) = f(p), Integrate(Delta, f, v) = f(p)   for a unit-mass Delta
  * x.sample(vars, sample_inputs): inputs = original + effective sample inputs, output Real; for every
    particle and batch element exactly one cell of the sampled variables carries mass, it lies in the
    support (for EVERY uniform in [0,1), including 0.0 and 1-2^-53), the mass equals the original's mass
    over the sampled variables; same uniforms -> same result; the measure of uniforms mapped to each cell
    equals its probability (grid over particles)
  * Gaussian samples are affine in the injected noise with the Gaussian's mean and covariance.
Counted, not gated (model fidelity): the exact cell index / normaliser per (particle, batch element)
predicted by the Lean model, and Deltas with log_density != 0 under reduce / Integrate.
"""
import itertools
import math
from collections import OrderedDict
from fractions import Fraction

import numpy as np

from ..common import sx, parse_sx, atom_to_num, Q
from .. import futil
from ..futil import funsor, Tensor, Number, Variable, Bint, Real, Reals, ops, table, exact, same_num

from funsor.delta import Delta
from funsor.integrate import Integrate
from funsor.gaussian import Gaussian
from funsor.montecarlo import extract_samples
from funsor.terms import Funsor

import ast
import os

from ..common import LEAN, REPO

DECLINE = (NotImplementedError, AssertionError, ValueError, TypeError, KeyError)
TINY = 2.0 ** -60
TOP = 1.0 - 2.0 ** -53
SAFE_TOP = 1.0 - 2.0 ** -20
WEIGHTS = [0.0, 0.0, 0.25, 0.5, 1.0, 1.0, 2.0, 3.0, 4.0]


# --------------------------------------------------------------------------------------
# Translator: the draw statement of Tensor._sample  ->  lean/FunsorVerif/Gen/C14Variant.lean
# --------------------------------------------------------------------------------------

VARIANT = dict(cmp="le", dropLast=True, clamp=True, recognised=True, source="(not extracted)")
LAST_TEMPLATE = "last = probs.shape[-1] - 1 - np.argmax((probs > 0)[..., ::-1], axis=-1)"


def _is_name(node, name):
    return isinstance(node, ast.Name) and node.id == name


def _is_np_call(node, fn):
    return (isinstance(node, ast.Call) and isinstance(node.func, ast.Attribute) and node.func.attr == fn
            and _is_name(node.func.value, "np"))


def _is_r_column(node):
    """np.expand_dims(r, -1)  or  r[..., None]"""
    if _is_np_call(node, "expand_dims") and len(node.args) == 2 and _is_name(node.args[0], "r"):
        return ast.unparse(node.args[1]) == "-1"
    return ast.unparse(node) in ("r[..., None]",)


def read_variant(repo=None):
    """AST of funsor/tensor.py: every assignment to `flat_sample` in the numpy branch of Tensor._sample."""
    repo = repo or REPO
    src = (repo / "funsor" / "tensor.py").read_text()
    tree = ast.parse(src)
    fn = None
    for node in ast.walk(tree):
        if isinstance(node, ast.ClassDef) and node.name == "Tensor":
            for sub in node.body:
                if isinstance(sub, ast.FunctionDef) and sub.name == "_sample":
                    fn = sub
    v = dict(cmp="lt", dropLast=False, clamp=False, recognised=False, source="")
    if fn is None:
        v["source"] = "Tensor._sample not found"
        return v
    branch = None
    for node in ast.walk(fn):
        if isinstance(node, ast.If) and "backend != 'numpy'" in ast.unparse(node.test).replace('"', "'"):
            branch = node.orelse
    if branch is None:
        v["source"] = "numpy branch not found"
        return v
    assigns = [n for stmt in branch for n in ast.walk(stmt)
               if isinstance(n, ast.Assign) and any(_is_name(t, "flat_sample") for t in n.targets)]
    last_defs = [n for stmt in branch for n in ast.walk(stmt)
                 if isinstance(n, ast.Assign) and any(_is_name(t, "last") for t in n.targets)]
    v["source"] = " ; ".join(ast.unparse(a) for a in assigns)
    if not assigns:
        return v
    ok = True
    first = assigns[0].value
    if (_is_np_call(first, "sum") and len(first.args) == 1 and isinstance(first.args[0], ast.Compare)
            and len(first.args[0].ops) == 1 and [ast.unparse(k) for k in first.keywords] == ["axis=-1"]):
        cmpn = first.args[0]
        left, right, op = cmpn.left, cmpn.comparators[0], cmpn.ops[0]
        if isinstance(op, ast.Lt):
            v["cmp"] = "lt"
        elif isinstance(op, ast.LtE):
            v["cmp"] = "le"
        else:
            ok = False
        if _is_name(left, "s"):
            v["dropLast"] = False
        elif ast.unparse(left) == "s[..., :-1]":
            v["dropLast"] = True
        else:
            ok = False
        if not _is_r_column(right):
            ok = False
    else:
        ok = False
    rest = assigns[1:]
    if len(rest) == 1 and ast.unparse(rest[0].value) == "np.minimum(flat_sample, last)" \
            and len(last_defs) == 1 and ast.unparse(last_defs[0]) == LAST_TEMPLATE:
        v["clamp"] = True
    elif rest:
        ok = False
    # the statements the model takes as given around the draw
    text = ast.unparse(ast.Module(body=branch, type_ignores=[]))
    for needed in ("logit_max = np.amax(flat_logits, -1, keepdims=True)", "probs = np.exp(flat_logits - logit_max)",
                   "probs = probs / np.sum(probs, -1, keepdims=True)", "s = np.cumsum(probs, -1)",
                   "r = np.random.rand(*shape)", "shape = sample_shape + flat_logits.shape[:-1]"):
        if needed not in text:
            ok = False
            v["source"] += f" ; missing: {needed}"
    v["recognised"] = ok
    return v


def variant_pick(variant, probs, r):
    """Exact-arithmetic reading of the recognised statement (Fractions)."""
    acc, s = Fraction(0), []
    for q in probs:
        acc += q
        s.append(acc)
    if variant["dropLast"]:
        s = s[:-1]
    k = sum(1 for x in s if (x < r if variant["cmp"] == "lt" else x <= r))
    if variant["clamp"]:
        pos = [i for i, q in enumerate(probs) if q > 0]
        k = min(k, pos[-1] if pos else len(probs) - 1)
    return k


def live_crosscheck(variant):
    """Cross-check the AST reading against the live function on diagnostic draws (exact rows, r on a
    boundary / 0; and one row whose float cumsum ends below 1-2^-53 to see the rounding guard)."""
    diag = [([1.0, 1.0], 0.5), ([0.0, 1.0], 0.0), ([1.0, 1.0, 1.0, 1.0], 0.75), ([1.0, 0.0, 1.0], 0.5)]
    for W, r in diag:
        got = _draw_1d(W, r)
        tot = sum(Fraction(w) for w in W)
        want = variant_pick(variant, [Fraction(w) / tot for w in W], Fraction(r))
        if got != want:
            return False, f"W={W} r={r}: live {got}, AST reading {want}"
    got = _draw_1d([0.25, 7.0, 0.25, 0.0], TOP)
    want = 2 if variant["clamp"] else 3
    if variant["cmp"] == "le" and variant["dropLast"] and got != want:
        return False, f"rounding guard: live {got}, AST reading {want}"
    return True, ""


def _draw_1d(W, r):
    f = Tensor(log_of(W), OrderedDict(a=Bint[len(W)]))
    with RandStub(rand_fn=lambda shape: np.full(shape, r)), np.errstate(all="ignore"):
        smp = f.sample(frozenset(["a"]))
    return int(np.asarray(extract_samples(smp)["a"].data))


def extract(ctx):
    global VARIANT
    v = read_variant()
    if v["recognised"]:
        try:
            ok, why = live_crosscheck(v)
        except Exception as e:   # the live function does not even run on the diagnostics
            ok, why = False, f"{type(e).__name__}: {e}"
        if not ok:
            v["recognised"] = False
            v["source"] += " ; live cross-check failed: " + why
    VARIANT = v
    ctx.extra["sample_variant"] = dict(v)
    b = lambda x: "true" if x else "false"
    text = (
        "/- GENERATED by fv/harness/c14.py extract() from funsor/tensor.py (Tensor._sample, numpy branch). Do not edit. -/\n"
        "import FunsorVerif.Model.C14\nnamespace FV.Gen.C14\nopen FV.C14\n\n"
        f"/-- source: {v['source'].replace('-/', '- /')} -/\n"
        f"def variant : Variant := {{ cmp := Cmp.{v['cmp']}, dropLast := {b(v['dropLast'])}, "
        f"clamp := {b(v['clamp'])}, recognised := {b(v['recognised'])} }}\n\nend FV.Gen.C14\n")
    path = LEAN / "FunsorVerif" / "Gen" / "C14Variant.lean"
    if not path.exists() or path.read_text() != text:
        path.write_text(text)


def guarded(ctx, label, fn, *args, **kw):
    """Run one case.  An exception raised INSIDE funsor (innermost frame under the funsor package, or numpy called from
    it) on one case is a decline: counted, the run continues.  An exception whose innermost frame is in this harness
    is a harness bug and propagates (infrastructure error)."""
    import traceback
    try:
        return fn(*args, **kw)
    except Exception as e:  # noqa: BLE001
        frames = traceback.extract_tb(e.__traceback__)
        here = os.path.abspath(__file__)
        inner_funsor = False
        for fr in reversed(frames):
            fnm = os.path.abspath(fr.filename)
            if fnm == here:
                break
            if os.sep + "funsor" + os.sep in fnm:
                inner_funsor = True
                break
        if not inner_funsor:
            raise
        ctx.count(f"{label}:funsor-exception:{type(e).__name__}")
        ex = ctx.extra.setdefault("funsor_exceptions", [])
        if len(ex) < 5:
            ex.append(f"{label}: {type(e).__name__}: {str(e)[:200]} at {frames[-1].filename}:{frames[-1].lineno}")
        return None


# --------------------------------------------------------------------------------------
# RNG stub
# --------------------------------------------------------------------------------------

class RandStub:
    """Replace numpy.random.rand / randn while active.  `rand_fn(shape)` / `randn_fn(shape)` produce the
    arrays; every call is recorded in .calls as (kind, shape, array)."""

    def __init__(self, rand_fn=None, randn_fn=None):
        self.rand_fn = rand_fn
        self.randn_fn = randn_fn
        self.calls = []

    def __enter__(self):
        self._rand, self._randn = np.random.rand, np.random.randn

        def rand(*shape):
            if self.rand_fn is None:
                raise RuntimeError("unexpected np.random.rand call")
            a = np.asarray(self.rand_fn(tuple(shape)), dtype=np.float64).reshape(shape)
            self.calls.append(("rand", tuple(shape), a.copy()))
            return a

        def randn(*shape):
            if self.randn_fn is None:
                raise RuntimeError("unexpected np.random.randn call")
            a = np.asarray(self.randn_fn(tuple(shape)), dtype=np.float64).reshape(shape)
            self.calls.append(("randn", tuple(shape), a.copy()))
            return a
        np.random.rand, np.random.randn = rand, randn
        return self

    def __exit__(self, *exc):
        np.random.rand, np.random.randn = self._rand, self._randn
        return False


def tscalar(v, size):
    """A ground integer value as a Tensor (Number == Number goes through ops.astype(bool) which the
    numpy backend does not implement: a decline, exercised separately)."""
    return Tensor(np.array(v), OrderedDict(), size)


def log_of(w):
    with np.errstate(divide="ignore"):
        return np.log(np.asarray(w, dtype=np.float64))


# --------------------------------------------------------------------------------------
# Joint reductions of a sample: over its sampled variables AND particle / batch inputs in ONE reduce call
# --------------------------------------------------------------------------------------

def lse(a, axes):
    a = np.asarray(a, dtype=np.float64)
    if not axes:
        return a
    with np.errstate(all="ignore"):
        mx = np.max(a, axis=axes, keepdims=True)
        mx = np.where(np.isfinite(mx), mx, 0.0)
        return np.log(np.sum(np.exp(a - mx), axis=axes)) + np.squeeze(mx, axes)


def joint_reductions(ctx, label, smp, base, extras, tm, fail, post=None, gate_max=False, max_subsets=5):
    """`tm` = log mass of `smp` over `base`, as an array over `extras` = [(integer input, size)…] (already gated
    against the oracle).  For subsets X of those inputs, smp.reduce(op, base | X) in ONE call must equal the
    brute-force reduction of `tm` over X (which is also what reducing in two steps gives): logaddexp -> the
    masses add up (n particles of mass Z have mass n Z), max -> the largest one.
    `fail(name, problem, expected, got)` reports.  Returns False after a failure."""
    names = [n for n, _ in extras]
    present = [n for n in names if n in smp.inputs]
    subsets = [X for m in range(1, len(present) + 1) for X in itertools.combinations(present, m)]
    if len(subsets) > max_subsets:
        keep = [tuple(present)] + [(n,) for n in present[:2]]
        rest = [X for X in subsets if X not in keep]
        ctx.rng.shuffle(rest)
        subsets = (keep + rest)[:max_subsets]
    for X in subsets:
        rest_order = [(n, k) for n, k in extras if n not in X]
        axes = tuple(i for i, n in enumerate(names) if n in X)
        todo = [(ops.logaddexp, "logaddexp", lse(tm, axes))]
        if X == subsets[0]:
            todo.append((ops.max, "max", np.max(tm, axis=axes)))
        for op, opname, brute in todo:
            try:
                with np.errstate(all="ignore"):
                    r = smp.reduce(op, frozenset(base) | frozenset(X))
                    if post is not None:
                        r = post(r)
                    t = table(r, rest_order)
            except DECLINE + (KeyError,) as e:
                ctx.count(f"joint:{label}:{opname}-declined:{type(e).__name__}")
                continue
            if t is None:
                ctx.count(f"joint:{label}:{opname}-lazy")
                continue
            with np.errstate(all="ignore"):
                ok = t.shape == np.shape(brute) and np.allclose(np.exp(t), np.exp(brute), rtol=1e-7, atol=1e-300)
            if ok:
                ctx.count(f"joint:{label}:{opname}-ok")
                continue
            if opname == "max" and not gate_max:
                ctx.count(f"joint:{label}:max-differs")
                continue
            fail(f"C14.joint-reduce-{opname}",
                 f"{label}: sample.reduce({opname}, {sorted(base)} + {list(X)}) in one call differs from reducing the "
                 f"per-slice masses over {list(X)} (n particles of mass Z must have total mass n Z)",
                 str(np.asarray(brute).tolist()), str(t.tolist()))
            return False
    return True


def joint_integrals(ctx, label, smp, base, extras, f, per_slice, fail, max_subsets=3):
    """`per_slice` = brute-force value of  sum_{base} exp(smp) * f  per value of `extras` (= mass x f at the point).
    For subsets X of the particle / batch inputs (the empty one included), Integrate(smp, f, base | X) in ONE call,
    and Integrate(smp, f, base).reduce(add, X) in two steps, must both equal  sum_X per_slice  (each slice's f is
    weighted by that slice's mass BEFORE the sum over the slices)."""
    names = [n for n, _ in extras]
    present = [n for n in names if n in smp.inputs or n in f.inputs]
    subsets = [X for m in range(1, len(present) + 1) for X in itertools.combinations(present, m)]
    if len(subsets) > max_subsets:
        keep = [tuple(present)] + [(n,) for n in present[:1]]
        rest = [X for X in subsets if X not in keep]
        ctx.rng.shuffle(rest)
        subsets = (keep + rest)[:max_subsets]
    try:
        with np.errstate(all="ignore"):
            r_base = Integrate(smp, f, frozenset(base))
    except DECLINE + (KeyError,) as e:
        ctx.count(f"jointint:{label}:base-declined:{type(e).__name__}")
        return True
    for X in [()] + subsets:
        rest_order = [(n, k) for n, k in extras if n not in X]
        axes = tuple(i for i, n in enumerate(names) if n in X)
        brute = np.sum(per_slice, axis=axes) if axes else np.asarray(per_slice)
        for how in ("one-call", "two-steps"):
            try:
                with np.errstate(all="ignore"):
                    if how == "one-call":
                        r = Integrate(smp, f, frozenset(base) | frozenset(X)) if X else r_base
                    else:
                        if not X:
                            continue
                        r = r_base.reduce(ops.add, frozenset(X) & frozenset(r_base.inputs))
                        # inputs in X the first step no longer has are summed as a multiplicity
                        mult = int(np.prod([k for n, k in extras if n in X and n not in r_base.inputs]))
                        if mult != 1:
                            r = r * mult
                    t = table(r, rest_order)
            except DECLINE + (KeyError,) as e:
                ctx.count(f"jointint:{label}:{how}-declined:{type(e).__name__}")
                continue
            if t is None:
                ctx.count(f"jointint:{label}:{how}-lazy")
                continue
            if t.shape == np.shape(brute) and np.allclose(t, brute, rtol=1e-7, atol=1e-9):
                ctx.count(f"jointint:{label}:{how}-ok")
                continue
            fail("C14.joint-integrate-" + how,
                 f"{label}: Integrate(sample, f, {sorted(base)} + {list(X)}) ({how}) differs from the brute force "
                 f"sum over {list(X)} of  mass(slice) * f(slice, point(slice))",
                 str(np.asarray(brute).tolist()), str(t.tolist()))
            return False
    return True


def delta_joint_case(ctx):
    """Direct constructions: a Delta binding 2-3 integer variables whose points share batch inputs (a particle
    input `p`, maybe `b`), unit mass; reduced over all its names AND a subset of the batch inputs in one call."""
    rng = ctx.rng
    k = rng.choice([2, 2, 3])
    names = ["x", "y", "z"][:k]
    sizes = {n: rng.choice([1, 2, 3]) for n in names}
    bsz = {"p": rng.choice([2, 3, 4])}
    if rng.random() < 0.5:
        bsz["b"] = rng.choice([2, 3])
    bnames = list(bsz)
    pb = {}
    for idx, n in enumerate(names):
        pb[n] = [b for b in bnames if (b == "p" and idx < 2) or rng.random() < 0.6]
    pdata = {n: np.array([rng.randrange(sizes[n]) for _ in range(int(np.prod([bsz[b] for b in pb[n]])) if pb[n] else 1)]
                         ).reshape([bsz[b] for b in pb[n]]) for n in names}
    f_b = [b for b in bnames if rng.random() < 0.5]
    f_inputs = [(n, sizes[n]) for n in names] + [(b, bsz[b]) for b in f_b]
    rng.shuffle(f_inputs)
    lin = np.array([rng.choice([0.0, 0.25, 0.5, 1.0, 2.0, 3.0]) for _ in range(int(np.prod([v for _, v in f_inputs])))]
                   ).reshape([v for _, v in f_inputs])
    fdata = log_of(lin)
    build = rng.choice(["joint", "sum"])
    wit = dict(names=names, sizes=sizes, bsz=bsz, pb=pb, pdata={n: v.tolist() for n, v in pdata.items()},
               f_inputs=f_inputs, lin=lin.tolist(), build=build)
    ctx.count(f"delta-joint:k={k}:batch={len(bnames)}")
    py = DELTA_JOINT_PY.format(wit=wit)
    try:
        pts = {n: Tensor(pdata[n], OrderedDict((b, Bint[bsz[b]]) for b in pb[n]), sizes[n]) for n in names}
        if build == "joint":
            d = Delta(tuple((n, (pts[n], Number(0.0))) for n in names))
        else:
            d = Delta(names[0], pts[names[0]])
            for n in names[1:]:
                d = d + Delta(n, pts[n])
        f = Tensor(fdata, OrderedDict((n, Bint[v]) for n, v in f_inputs))
    except DECLINE as e:
        ctx.count(f"delta-joint:build-declined:{type(e).__name__}")
        return
    extras = [(b, bsz[b]) for b in bnames]
    # per batch element: mass of the Delta is 1 (log 0); (Delta + f) reduced over the names is f at the point
    tm_d = np.zeros([bsz[b] for b in bnames])
    tm_f = np.empty([bsz[b] for b in bnames])
    for idx in itertools.product(*[range(bsz[b]) for b in bnames]):
        env = dict(zip(bnames, idx))
        for n in names:
            env[n] = int(pdata[n][tuple(env[b] for b in pb[n])])
        tm_f[idx] = fdata[tuple(env[n] for n, _ in f_inputs)]

    def fail(name, problem, expected, got):
        w = dict(wit)
        w["problem"] = problem
        ctx.fail("input", name, witness=w, expected=expected, got=got, python=py)
    if not joint_reductions(ctx, "delta", d, names, extras, tm_d, fail, gate_max=True, max_subsets=4):
        return
    with np.errstate(all="ignore"):
        df = d + f
    if not joint_reductions(ctx, "delta+f", df, names, extras, tm_f, fail, gate_max=True, max_subsets=4):
        return
    # a hand-built sample: Delta with batched points + a table of log masses; integrand depends on names and batch
    logw = np.round(np.array([rng.gauss(0, 1) for _ in range(int(np.prod([bsz[b] for b in bnames])))]) * 4
                    ).reshape([bsz[b] for b in bnames]) / 4
    measure = d + Tensor(logw, OrderedDict((b, Bint[bsz[b]]) for b in bnames))
    fI = Tensor(np.where(np.isfinite(fdata), fdata, 0.0) + lin, OrderedDict((n, Bint[v]) for n, v in f_inputs))
    per = np.empty(logw.shape)
    for idx in itertools.product(*[range(bsz[b]) for b in bnames]):
        env = dict(zip(bnames, idx))
        for n in names:
            env[n] = int(pdata[n][tuple(env[b] for b in pb[n])])
        per[idx] = math.exp(logw[idx]) * float(np.asarray(fI.data)[tuple(env[n] for n, _ in f_inputs)])
    if not joint_integrals(ctx, "delta+w", measure, names, extras, fI, per, fail, max_subsets=3):
        return
    ctx.case(sample={kk: wit[kk] for kk in ("names", "sizes", "bsz", "pb", "build")},
             nontrivial_key=("delta-joint", str(wit)))


DELTA_JOINT_PY = """
# replay for C14: n unit-mass Deltas (one per batch element) have total mass n, in one reduce call
import itertools
import numpy as np
from collections import OrderedDict
from funsor.domains import Bint
from funsor.tensor import Tensor
from funsor.terms import Number
from funsor.delta import Delta
import funsor.ops as ops
W = {wit!r}
names, sizes, bsz, pb = W["names"], W["sizes"], W["bsz"], W["pb"]
pts = {{n: Tensor(np.array(W["pdata"][n]), OrderedDict((b, Bint[bsz[b]]) for b in pb[n]), sizes[n]) for n in names}}
if W["build"] == "joint":
    d = Delta(tuple((n, (pts[n], Number(0.0))) for n in names))
else:
    d = Delta(names[0], pts[names[0]])
    for n in names[1:]:
        d = d + Delta(n, pts[n])
with np.errstate(divide="ignore"):
    f = Tensor(np.log(np.array(W["lin"], dtype=np.float64)), OrderedDict((n, Bint[v]) for n, v in W["f_inputs"]))
problems = []
bn = list(bsz)
for m in range(1, len(bn) + 1):
    for X in itertools.combinations(bn, m):
        with np.errstate(all="ignore"):
            one = d.reduce(ops.logaddexp, frozenset(names) | frozenset(X))
            two = d.reduce(ops.logaddexp, frozenset(names)).reduce(ops.logaddexp, frozenset(X) & frozenset(
                d.reduce(ops.logaddexp, frozenset(names)).inputs))
            n = int(np.prod([bsz[b] for b in X]))
            got = np.exp(np.asarray(one.data, dtype=np.float64))
            if not np.allclose(got, n):
                problems.append("mass of %d unit Deltas over %s: %s" % (n, X, got.tolist()))
            a = (d + f).reduce(ops.logaddexp, frozenset(names) | frozenset(X))
            b = (d + f).reduce(ops.logaddexp, frozenset(names)).reduce(ops.logaddexp, frozenset(X))
            if not np.allclose(np.exp(np.asarray(a.data)), np.exp(np.asarray(b.align(tuple(a.inputs)).data
                               if a.inputs else b.data))):
                problems.append("(Delta+f) over %s: one call %s, two steps %s" % (X, a, b))
print("\\n".join(problems[:6]) or "joint reductions agree")
FAILS = bool(problems)
"""


# --------------------------------------------------------------------------------------
# Tensor.sample
# --------------------------------------------------------------------------------------

ROUNDING_ROWS = [[0.0, 0.25, 7.0, 0.25], [0.25, 7.0, 0.25, 0.0], [0.0, 0.25, 7.0, 0.0]]


def gen_weights(rng, shape, p_zero=None):
    n = int(np.prod(shape)) if shape else 1
    style = rng.random()
    if style < 0.12:      # rows whose float cumsum tends to end below 1; zeros at the ends / inside
        vals = [rng.choice([0.25, 0.5, 1.0, 2.0, 3.0, 5.0, 7.0]) for _ in range(n)]
        for pos in ([0], [n - 1], [0, n - 1], [n // 2], list(range(n // 2, n)))[rng.randrange(5)]:
            vals[pos] = 0.0
        if n == 4 and rng.random() < 0.5:
            vals = list(rng.choice(ROUNDING_ROWS))
        return np.array(vals, dtype=np.float64).reshape(shape)
    if style < 0.24:      # {0,1} weights: probabilities exactly representable when the count is 2^k
        vals = [rng.choice([0.0, 1.0, 1.0]) for _ in range(n)]
    elif style < 0.34:    # a whole row / column of zeros is likely
        vals = [rng.choice([0.0, 0.0, 0.0, 1.0, 2.0]) for _ in range(n)]
    else:
        vals = [rng.choice(WEIGHTS) for _ in range(n)]
    return np.array(vals, dtype=np.float64).reshape(shape)


def exact_rows(c):
    """Python oracle: for each batch point, (cells in row-major event order, exact weights)."""
    inputs = c["inputs"]
    names = [n for n, _ in inputs]
    sampled = [n for n in names if n in c["sampled"]]
    batch = [n for n in names if n not in c["sampled"]]
    size = dict(inputs)
    W = c["W"]
    rows = {}
    for b in itertools.product(*[range(size[n]) for n in batch]):
        cells = []
        for e in itertools.product(*[range(size[n]) for n in sampled]):
            env = dict(zip(batch, b))
            env.update(zip(sampled, e))
            cells.append((e, Fraction(float(W[tuple(env[n] for n in names)]))))
        rows[b] = cells
    return batch, sampled, rows


def boundaries(cells):
    tot = sum(w for _, w in cells)
    if tot == 0:
        return []
    acc = Fraction(0)
    out = []
    for _, w in cells:
        acc += w
        out.append(acc / tot)
    return out


def py_pick(cells, r):
    """Exact-arithmetic oracle of the draw as the source reads now (0 for an all-zero row)."""
    tot = sum(w for _, w in cells)
    if tot == 0:
        return 0
    return variant_pick(VARIANT, [w / tot for _, w in cells], Fraction(float(r)))


def make_uniforms(rng, mode, shape, c):
    """Uniforms in [0,1) — the range of numpy.random.rand — including exactly 0.0 and the top few ulps.
    Interior values stay 1e-9 away from exact CDF boundaries (so the exact model predicts the same cell)
    except in the 'exact' mode (dyadic probabilities: float arithmetic is exact, r sits on a boundary)."""
    n = int(np.prod(shape)) if shape else 1
    batch, sampled, rows = exact_rows(c)
    blist = list(rows)
    nb = max(1, len(blist))

    def dyadic_row(cells):
        ws = [w for _, w in cells]
        pos = [w for w in ws if w > 0]
        return bool(pos) and len(set(pos)) == 1 and (len(pos) & (len(pos) - 1)) == 0

    all_dyadic = all(dyadic_row(cells) or not any(w > 0 for _, w in cells) for cells in rows.values())
    out = []
    for k in range(n):
        cells = rows[blist[k % nb]]
        bs = boundaries(cells)
        if mode == "zero":
            out.append(0.0)
            continue
        if mode == "ulps":
            out.append(1.0 - rng.choice([1, 1, 2, 3, 5, 8]) * 2.0 ** -53)
            continue
        if mode == "edges":
            out.append(rng.choice([0.0, 0.0, TINY, TOP, TOP, 1.0 - 2.0 ** -52, 0.5]))
            continue
        if mode == "tiny":
            r = TINY
        elif mode == "half":
            r = 0.5
        elif mode == "top":
            out.append(TOP)
            continue
        elif mode == "grid":
            r = rng.choice([TINY, 0.125, 0.25, 0.5, 0.75, 0.875, SAFE_TOP])
            if r in (0.125, 0.25, 0.5, 0.75, 0.875) and not all_dyadic and any(abs(float(x) - r) < 1e-9 for x in bs):
                r = r + 1e-6
        elif mode == "boundary" and bs:
            s = float(rng.choice(bs))
            r = s + rng.choice([-1e-6, 1e-6, -1e-4, 1e-4])
        elif mode == "exact" and bs and all_dyadic:
            r = float(rng.choice(bs)) if rng.random() < 0.7 else rng.random()
        else:
            r = rng.random()
        r = min(max(r, TINY), TOP if all_dyadic else SAFE_TOP)
        if not (mode == "exact" and all_dyadic):
            # keep away from exact boundaries (float rounding of exp/cumsum is outside the model)
            tries = 0
            while any(abs(float(s) - r) < 1e-9 for s in bs) and tries < 20:
                r = min(max(rng.random(), TINY), SAFE_TOP)
                tries += 1
        out.append(r)
    return np.array(out, dtype=np.float64).reshape(shape)


def gen_sample_case(rng, sizes=None, sampled=None):
    if sizes is None:
        k = rng.choice([1, 2, 2, 3, 3])
        sizes = [rng.choice([1, 2, 3, 4]) for _ in range(k)]
    pool = ["a", "b", "c", "i", "j"]
    rng.shuffle(pool)
    names = pool[:len(sizes)]
    inputs = list(zip(names, sizes))
    if sampled is None:
        m = rng.randint(1, len(names))
        sampled = sorted(rng.sample(names, m))
    else:
        sampled = sorted(names[i] for i in sampled)
    W = gen_weights(rng, tuple(sizes))
    ns = rng.choice([0, 0, 1, 1, 1, 2])
    spool = ["p", "q"]
    sample_inputs = [(spool[i], rng.choice([1, 2, 3])) for i in range(ns)]
    if ns and rng.random() < 0.12:
        # a sample input named like an existing input is dropped by _sample
        sample_inputs[0] = (rng.choice(names), rng.choice([2, 3]))
    mode = rng.choice(["zero", "zero", "top", "top", "ulps", "edges", "tiny", "half", "grid", "boundary", "boundary",
                       "exact", "random", "random"])
    return dict(inputs=inputs, sampled=sampled, W=W, sample_inputs=sample_inputs, mode=mode)


def describe(c):
    return {k: (v.tolist() if isinstance(v, np.ndarray) else v) for k, v in c.items()}


SAMPLE_PY = """
# replay for C14: Tensor.sample with the uniforms chosen by the harness
import itertools
import numpy as np
from collections import OrderedDict
from funsor.domains import Bint, Real
from funsor.tensor import Tensor
W = np.array({W}, dtype=np.float64)
inputs = {inputs_plain}
sampled = {sampled}
sample_inputs = {sample_inputs_plain}
LAW = {law}
with np.errstate(divide="ignore"):
    f = Tensor(np.log(W), OrderedDict((n, Bint[k]) for n, k in inputs))
R = np.array({R}, dtype=np.float64)
_rand = np.random.rand
np.random.rand = lambda *shape: R.reshape(shape)
try:
    with np.errstate(all="ignore"):
        s = f.sample(frozenset(sampled), OrderedDict((n, Bint[k]) for n, k in sample_inputs))
finally:
    np.random.rand = _rand
size = dict(inputs)
eff = [(n, k) for n, k in sample_inputs if n not in size]
batch = [n for n, _ in inputs if n not in sampled]
event = [n for n, _ in inputs if n in sampled]
names = [n for n, _ in eff] + batch + event
sizes = [k for _, k in eff] + [size[n] for n in batch] + [size[n] for n in event]
problems = []
if {{k: int(v.size) for k, v in s.inputs.items()}} != dict(eff + inputs) or s.output != Real:
    problems.append("inputs/output: %s -> %s" % (dict(s.inputs), s.output))
else:
    D = np.zeros(sizes)
    for idx in itertools.product(*map(range, sizes)):
        with np.errstate(all="ignore"):
            D[idx] = np.exp(float(np.asarray(s(**dict(zip(names, idx))).data)))
    Wt = np.transpose(W, [[n for n, _ in inputs].index(n) for n in batch + event])
    ne = len(event)
    lead = D.shape[:len(D.shape) - ne]
    for idx in itertools.product(*map(range, lead)):
        b = idx[len(eff):]
        row, wrow = D[idx], Wt[b]
        if abs(row.sum() - wrow.sum()) > 1e-9 * max(1.0, wrow.sum()):
            problems.append("mass at %s: %r, original %r" % (idx, row.sum(), wrow.sum()))
        if wrow.sum() > 0 and ((row > 0).sum() != 1 or (wrow[row > 0] <= 0).any()):
            problems.append("point at %s: cells with mass %s, their original weights %s"
                            % (idx, np.argwhere(row > 0).tolist(), wrow[row > 0].tolist()))
    import funsor.ops as ops
    extra = [n for n, _ in eff] + batch
    for m in range(1, len(extra) + 1):
        for X in itertools.combinations(extra, m):
            with np.errstate(all="ignore"):
                one = s.reduce(ops.logaddexp, frozenset(event) | frozenset(X))
                keep = [n for n in extra if n not in X]
                got = np.exp(np.asarray(one.align(tuple(keep)).data if keep else one.data, dtype=np.float64))
            want = D.sum(axis=tuple(i for i, n in enumerate(names) if n in X or n in event))
            if not np.allclose(got, want, rtol=1e-7):
                problems.append("sample.reduce(logaddexp, sampled + %s) in one call: %s, sum of the per-slice masses %s"
                                % (list(X), got.tolist(), want.tolist()))
    from funsor.integrate import Integrate
    F = (np.indices(sizes) * (np.arange(len(sizes)) + 1).reshape((-1,) + (1,) * len(sizes))).sum(0) % 7 / 2.0 - 1.0
    fF = Tensor(F, OrderedDict((n, Bint[k]) for n, k in zip(names, sizes)))
    for m in range(0, len(extra) + 1):
        for X in itertools.combinations(extra, m):
            with np.errstate(all="ignore"):
                one = Integrate(s, fF, frozenset(event) | frozenset(X))
                keep = [n for n in extra if n not in X]
                got = np.asarray(one.align(tuple(keep)).data if keep else one.data, dtype=np.float64)
            want = (D * F).sum(axis=tuple(i for i, n in enumerate(names) if n in X or n in event))
            if not np.allclose(got, want, rtol=1e-7, atol=1e-9):
                problems.append("Integrate(sample, f, sampled + %s) in one call: %s, brute force sum mass*f(point) %s"
                                % (list(X), got.tolist(), want.tolist()))
    if LAW and len(eff) == 1:
        M = eff[0][1]
        freq = (D > 0).sum(0)
        for b in itertools.product(*[range(size[n]) for n in batch]):
            if Wt[b].sum() > 0 and (abs(freq[b] - M * Wt[b] / Wt[b].sum()) > 1 + 1e-6).any():
                problems.append("law at batch %s: counts %s for probabilities %s"
                                % (b, freq[b].tolist(), (Wt[b] / Wt[b].sum()).tolist()))
print("\\n".join(problems[:10]) or "sample satisfies C14")
FAILS = bool(problems)
"""


def sample_py(c, R, law=False):
    return SAMPLE_PY.format(W=c["W"].tolist(), inputs_plain=[(n, k) for n, k in c["inputs"]],
                            sampled=sorted(c["sampled"]),
                            sample_inputs_plain=[(n, k) for n, k in c["sample_inputs"]],
                            R=np.asarray(R).tolist(), law=law)


def run_sample(c, R=None, rng=None):
    """Run the real funsor.  Returns dict(status, s, R, shape, f)."""
    inputs = c["inputs"]
    f = Tensor(log_of(c["W"]), OrderedDict((n, Bint[s]) for n, s in inputs))
    si = OrderedDict((n, Bint[s]) for n, s in c["sample_inputs"])
    holder = {}

    def rand_fn(shape):
        if R is not None:
            a = np.asarray(R, dtype=np.float64)
            if a.size != int(np.prod(shape)):
                raise RuntimeError(f"rand shape {shape} does not match prepared uniforms {a.shape}")
            return a.reshape(shape)
        return make_uniforms(rng, c["mode"], shape, c)
    with RandStub(rand_fn=rand_fn) as st, np.errstate(all="ignore"):
        try:
            s = f.sample(frozenset(c["sampled"]), si)
        except DECLINE as e:
            return dict(status="declined", err=type(e).__name__, f=f)
    if len(st.calls) != 1:
        return dict(status="norand", s=s, f=f, ncalls=len(st.calls))
    _, shape, arr = st.calls[0]
    return dict(status="value", s=s, R=arr, shape=shape, f=f)


def dense_sample(c, s):
    """Dense log-values of the sample funsor: array [sample inputs..., batch..., event...] plus the
    name order used.  Returns None if some cell did not evaluate to a Tensor/Number (lazy)."""
    size = dict(c["inputs"])
    names = [n for n, _ in c["inputs"]]
    sampled = [n for n in names if n in c["sampled"]]
    batch = [n for n in names if n not in c["sampled"]]
    eff_si = [(n, k) for n, k in c["sample_inputs"] if n not in size]
    order = eff_si + [(n, size[n]) for n in batch]
    esz = [size[n] for n in sampled]
    out = np.full(tuple(k for _, k in order) + tuple(esz), np.nan)
    for e in itertools.product(*[range(k) for k in esz]):
        v = s(**dict(zip(sampled, e)))
        t = table(v, order)
        if t is None:
            return None
        out[(Ellipsis,) + tuple(e)] = t
    return dict(order=order, eff_si=eff_si, batch=batch, sampled=sampled, esz=esz, D=out)


def check_sample_case(ctx, c, use_driver=True, gate_model=False):
    rng = ctx.rng
    res = run_sample(c, rng=rng)
    ctx.count(f"sample:mode:{c['mode']}")
    ctx.count(f"sample:ninputs:{len(c['inputs'])}")
    ctx.count(f"sample:nsampled:{len(c['sampled'])}")
    ctx.count(f"sample:nsample_inputs:{len(c['sample_inputs'])}")
    if res["status"] == "declined":
        ctx.count(f"sample:declined:{res['err']}")
        return
    wit = describe(c)
    if res["status"] == "norand":
        ctx.fail("input", "C14.sample-random-state", witness=wit,
                 expected="exactly one np.random.rand call", got=f"{res['ncalls']} calls")
        return
    s, R, f = res["s"], res["R"], res["f"]
    wit["R"] = R.tolist()
    py = sample_py(c, R)

    def bad(name, problem, expected=None, got=None):
        w = dict(wit)
        w["problem"] = problem
        ctx.fail("input", name, witness=w, expected=expected, got=got, python=py)

    # 1. inputs / output
    size = dict(c["inputs"])
    want_inputs = dict(c["inputs"])
    for n, k in c["sample_inputs"]:
        if n not in size:
            want_inputs[n] = k
    try:
        got_inputs = {k: int(v.size) for k, v in s.inputs.items()}
    except Exception as e:  # non-integer input appeared
        got_inputs = {k: str(v) for k, v in s.inputs.items()}
    if got_inputs != want_inputs or s.output != Real:
        bad("C14.sample-inputs", "inputs/output of the sample", expected=str(sorted(want_inputs.items())),
            got=str(sorted(got_inputs.items())) + f" -> {s.output}")
        return
    # 2. dense values
    try:
        with np.errstate(all="ignore"):
            d = dense_sample(c, s)
    except DECLINE + (RuntimeError,) as e:
        bad("C14.sample-eval", f"evaluating the sample at a cell raised {type(e).__name__}: {e}")
        return
    if d is None:
        ctx.count("sample:lazy-eval")
        return
    D = d["D"]
    batch, sampled, rows = exact_rows(c)
    nsi = len(d["eff_si"])
    sshape = tuple(k for _, k in d["eff_si"])
    bshape = tuple(size[n] for n in batch)
    if tuple(R.shape) != sshape + bshape:
        ctx.count("sample:rand-shape-differs")
    Rb = None
    if R.size == int(np.prod(sshape + bshape)):
        Rb = R.reshape(sshape + bshape)
    ne = len(d["esz"])
    lin = np.exp(D)
    points = {}
    for sp in itertools.product(*[range(k) for k in sshape]):
        for b in itertools.product(*[range(k) for k in bshape]):
            cells = rows[b]
            tot = sum(w for _, w in cells)
            row = lin[sp + b]
            if np.isnan(row).any():
                bad("C14.sample-nan", f"NaN value in the sample at particle {sp}, batch {b}")
                return
            nz = [e for e in itertools.product(*[range(k) for k in d["esz"]]) if row[e] > 0]
            mass = float(row.sum())
            if abs(mass - float(tot)) > 1e-9 * max(1.0, float(tot)):
                bad("C14.sample-mass", f"total mass over the sampled variables at particle {sp}, batch {b}",
                    expected=str(float(tot)), got=str(mass))
                return
            if tot > 0:
                if len(nz) != 1:
                    bad("C14.sample-point", f"sample at particle {sp}, batch {b} is not a single point",
                        expected="one cell with mass", got=str(nz))
                    return
                wcell = dict(cells)[nz[0]]
                if wcell <= 0:
                    bad("C14.sample-support", f"sampled point {dict(zip(sampled, nz[0]))} at particle {sp}, "
                        f"batch {dict(zip(batch, b))} has probability 0", expected="a cell of the support",
                        got=str(nz[0]))
                    return
                points[sp + b] = nz[0]
    # 3. mass through the implementation's own reduction (what a user computes)
    try:
        with np.errstate(all="ignore"):
            m1 = s.reduce(ops.logaddexp, frozenset(c["sampled"]))
            m0 = f.reduce(ops.logaddexp, frozenset(c["sampled"]))
        t1, t0 = table(m1, d["order"]), table(m0, d["order"])
    except DECLINE as e:
        t1 = t0 = None
        ctx.count(f"sample:reduce-declined:{type(e).__name__}")
    if t1 is not None and t0 is not None:
        if not np.allclose(np.exp(t1), np.exp(t0), rtol=1e-9, atol=0):
            bad("C14.sample-mass-reduce", "sample.reduce(logaddexp, vars) != original.reduce(logaddexp, vars)",
                expected=str(np.exp(t0).tolist()), got=str(np.exp(t1).tolist()))
            return
        if d["order"] and not joint_reductions(
                ctx, "tensor", s, c["sampled"], d["order"], t1,
                lambda nm, prob, exp_, got_: bad(nm, prob, expected=exp_, got=got_), gate_max=True, max_subsets=2):
            return
        if d["order"] and rng.random() < (0.3 if ctx.tier == "quick" else 0.5):
            onames = [n for n, _ in d["order"]]
            dep = [n for n in onames if rng.random() < 0.7] or onames[:1]
            fin = [(n, k) for n, k in d["order"] if n in dep] + [(n, size[n]) for n in d["sampled"]]
            F = np.array([rng.choice(DYAD) for _ in range(int(np.prod([k for _, k in fin])))]).reshape([k for _, k in fin])
            fT = Tensor(F, OrderedDict((n, Bint[k]) for n, k in fin))
            Fb = F.reshape([k if n in dep else 1 for n, k in d["order"]] + list(d["esz"]))
            per = (lin * Fb).reshape(lin.shape[:len(onames)] + (-1,)).sum(-1)
            if not joint_integrals(ctx, "tensor", s, c["sampled"], d["order"], fT, per,
                                   lambda nm, prob, exp_, got_: bad(nm, prob, expected=exp_, got=got_)):
                return
    else:
        ctx.count("sample:reduce-lazy")
    # 4. deterministic function of the random state
    np.random.seed(rng.randrange(2 ** 31))
    res2 = run_sample(c, R=R)
    same = res2["status"] == "value"
    if same:
        with np.errstate(all="ignore"):
            d2 = dense_sample(c, res2["s"])
        same = d2 is not None and np.array_equal(d2["D"], D, equal_nan=True)
    if not same:
        bad("C14.sample-deterministic", "same uniforms, different sample")
        return
    # 5. model fidelity (and the Python oracle of the draw)
    fidelity_ok = True
    if Rb is not None:
        for key, e in points.items():
            sp, b = key[:nsi], key[nsi:]
            cells = rows[b]
            m = py_pick(cells, Rb[key])
            if m >= len(cells) or cells[m][0] != e:
                fidelity_ok = False
        if use_driver:
            req = "C14 sample {} {} {} {} {}".format(
                sx([[Q(n), k] for n, k in c["inputs"]]),
                sx([Fraction(float(x)) for x in c["W"].reshape(-1)]),
                sx([Q(n) for n in c["sampled"]]),
                int(np.prod(sshape)) if sshape else 1,
                sx([Fraction(float(x)) for x in Rb.reshape(-1)]))
            ans = ctx.driver.ask([req])[0]
            if not ans.startswith("ok "):
                ctx.infra_errors.append(f"driver: {ans} for {req[:300]}")
                return
            body = parse_sx("(" + ans[3:] + ")")
            bn, en, parts = body
            if [str(x) for x in bn] != batch or [str(x) for x in en] != sampled:
                ctx.infra_errors.append(f"driver partition {bn} {en} != {batch} {sampled}")
                return
            flat_particles = list(itertools.product(*[range(k) for k in sshape]))
            for sp, rowsm in zip(flat_particles, parts):
                for rowm in rowsm:
                    b = tuple(int(x) for x in rowm[0])
                    pt = tuple(int(x) for x in rowm[1])
                    z, ms, mo = (atom_to_num(x) for x in rowm[2:5])
                    if ms != mo or z != sum(w for _, w in rows[b]):
                        ctx.infra_errors.append(f"Lean model violates its own sample_mass theorem on {req[:300]}")
                        return
                    if z > 0:
                        # model vs python oracle of the same algorithm
                        m = py_pick(rows[b], Rb[sp + b])
                        if m < len(rows[b]) and rows[b][m][0] != pt:
                            ctx.infra_errors.append(f"Lean model != python oracle on {req[:300]}")
                            return
                        if points.get(sp + b) != pt:
                            fidelity_ok = False
    ctx.count("sample:fidelity-ok" if fidelity_ok else "sample:fidelity-differs")
    if gate_model and not fidelity_ok:
        bad("C14.sample-index", "drawn cell differs from inverse-CDF over the row-major flattening")
        return
    nontrivial = (len(rows) * max(1, int(np.prod(sshape))) >= 1 and any(
        sum(1 for _, w in cells if w > 0) >= 2 for cells in rows.values()))
    ctx.case(sample={k: wit[k] for k in ("inputs", "sampled", "sample_inputs", "mode")},
             nontrivial_key=("sample", tuple(c["inputs"]), tuple(c["sampled"]), tuple(c["sample_inputs"]),
                             c["W"].tobytes(), R.tobytes()) if nontrivial else None)


def law_case(ctx, c, M=64):
    """Measure of uniforms mapped to each cell = its probability: one particle per midpoint of an
    M-grid of [0,1).  Independent of which order the implementation enumerates cells in."""
    c = dict(c)
    c["sample_inputs"] = [("p", M)]
    size = dict(c["inputs"])
    batch, sampled, rows = exact_rows(c)
    bshape = tuple(size[n] for n in batch)
    nb = int(np.prod(bshape)) if bshape else 1
    grid = (np.arange(M) + 0.5) / M
    R = np.repeat(grid[:, None], nb, axis=1).reshape((M,) + bshape)
    res = run_sample(c, R=R)
    ctx.count("law:cases")
    if res["status"] != "value":
        ctx.count("law:declined")
        return
    wit = describe(c)
    wit["R"] = "midpoints (k+0.5)/%d for every batch element" % M
    try:
        pts = extract_samples(res["s"])
        tabs = {n: table(pts[n], [("p", M)] + [(bn, size[bn]) for bn in batch]) for n in sampled}
    except DECLINE + (RuntimeError,) as e:
        ctx.count(f"law:extract-failed:{type(e).__name__}")
        return
    if any(t is None for t in tabs.values()):
        ctx.count("law:lazy")
        return
    for b in itertools.product(*[range(k) for k in bshape]):
        cells = rows[b]
        tot = sum(w for _, w in cells)
        if tot == 0:
            continue
        counts = {}
        for k in range(M):
            e = tuple(int(tabs[n][(k,) + b]) for n in sampled)
            counts[e] = counts.get(e, 0) + 1
        for e, w in cells:
            want = float(w / tot) * M
            got = counts.get(e, 0)
            if abs(got - want) > 1.0 + 1e-6:
                w2 = dict(wit)
                w2["problem"] = (f"batch {dict(zip(batch, b))}: cell {dict(zip(sampled, e))} has probability "
                                 f"{float(w / tot)} but receives {got}/{M} of an even grid of uniforms")
                ctx.fail("input", "C14.sample-law", witness=w2, expected=f"{want} +- 1", got=str(got),
                         python=sample_py(c, R, law=True))
                return
    ctx.case(nontrivial_key=("law", tuple(c["inputs"]), tuple(c["sampled"]), c["W"].tobytes()))


def rounding_stream(ctx, use_driver=True):
    """Rows whose float cumsum ends below 1 (up to 64 cells, zeros at the ends), joint draw over all
    inputs, uniforms exactly 0.0 and in the top ulps of [0,1): out-of-range index / wrap-around /
    trailing zero cell must not be selected."""
    rng = ctx.rng
    n = 40 if ctx.tier == "quick" else 800
    for _ in range(n):
        sizes = rng.choice([[4], [4], [3, 4], [4, 4], [4, 4, 3], [4, 4, 4], [2, 4]])
        k = len(sizes)
        sub = list(range(k)) if rng.random() < 0.7 else sorted(rng.sample(range(k), rng.randint(1, k)))
        c = gen_sample_case(rng, sizes=list(sizes), sampled=sub)
        tot = int(np.prod(sizes))
        if tot == 4 and rng.random() < 0.6:
            W = np.array(rng.choice(ROUNDING_ROWS), dtype=np.float64).reshape(sizes)
        else:
            W = np.array([rng.choice([0.25, 0.5, 1.0, 2.0, 3.0, 5.0, 7.0]) for _ in range(tot)],
                         dtype=np.float64).reshape(sizes)
            z = rng.choice(["lead", "trail", "both", "inner"])
            flat = W.reshape(-1)
            if z in ("lead", "both"):
                flat[:rng.randint(1, max(1, tot // 4))] = 0.0
            if z in ("trail", "both"):
                flat[tot - rng.randint(1, max(1, tot // 4)):] = 0.0
            if z == "inner":
                flat[tot // 2] = 0.0
            if not (flat > 0).any():
                flat[tot // 2] = 1.0
        c["W"] = W
        c["mode"] = rng.choice(["zero", "top", "ulps", "edges"])
        if rng.random() < 0.5:
            c["sample_inputs"] = []
        ctx.count("sample:rounding-stream")
        guarded(ctx, "rounding", check_sample_case, ctx, c, use_driver=use_driver)


def sample_streams(ctx, use_driver=True):
    rng = ctx.rng
    reps = 1 if ctx.tier == "quick" else 5
    # every shape over 1-3 inputs of sizes 1-4, every non-empty subset of sampled variables
    for k in (1, 2, 3):
        for sizes in itertools.product([1, 2, 3, 4], repeat=k):
            for m in range(1, k + 1):
                for sub in itertools.combinations(range(k), m):
                    for _ in range(reps):
                        if ctx.tier == "quick" and k == 3 and rng.random() < 0.5:
                            continue        # quick tier: every 1-2 input shape, half of the 3-input ones
                        c = gen_sample_case(rng, sizes=list(sizes), sampled=list(sub))
                        guarded(ctx, "sample", check_sample_case, ctx, c, use_driver=use_driver)
    n = 100 if ctx.tier == "quick" else 2000
    for _ in range(n):
        guarded(ctx, "sample", check_sample_case, ctx, gen_sample_case(rng), use_driver=use_driver)
    n = 90 if ctx.tier == "quick" else 1500
    for _ in range(n):
        c = gen_sample_case(rng)
        guarded(ctx, "law", law_case, ctx, c, M=64)


# --------------------------------------------------------------------------------------
# Delta
# --------------------------------------------------------------------------------------

DYAD = [-2.0, -1.0, -0.5, 0.0, 0.25, 0.5, 1.0, 1.5, 2.0, 3.0]


def val_as_list(x):
    return [Fraction(float(v)) for v in np.asarray(x, dtype=np.float64).reshape(-1)]


def ld_atom(x):
    x = float(x)
    if x == float("-inf"):
        return "-inf"
    return sx(Fraction(x))


def gen_delta_case(rng):
    kind = rng.choice(["int", "int", "real", "vec"])
    nb = rng.choice([0, 1, 1, 2])
    bnames = ["b", "c"][:nb]
    bsizes = [rng.choice([1, 2, 3]) for _ in range(nb)]
    bshape = tuple(bsizes)
    n = rng.choice([1, 2, 3, 4])
    if kind == "int":
        pdata = np.array([rng.randrange(n) for _ in range(int(np.prod(bshape)) if bshape else 1)]).reshape(bshape)
        ev = ()
    elif kind == "real":
        pdata = np.array([rng.choice(DYAD) for _ in range(int(np.prod(bshape)) if bshape else 1)]).reshape(bshape)
        ev = ()
    else:
        ev = (rng.choice([1, 2, 3]),)
        pdata = np.array([rng.choice([0.0, 0.5, 1.0]) for _ in range((int(np.prod(bshape)) if bshape else 1) * ev[0])]
                         ).reshape(bshape + ev)
    ldkind = rng.choice(["zero", "zero", "number", "tensor", "ninf"])
    if ldkind == "zero":
        ld = np.zeros(())
    elif ldkind == "number":
        ld = np.array(rng.choice(DYAD))
    elif ldkind == "ninf":
        ld = np.array(float("-inf"))
    else:
        ld = np.array([rng.choice(DYAD) for _ in range(int(np.prod(bshape)) if bshape else 1)]).reshape(bshape)
    point_form = rng.choice(["tensor", "tensor", "number", "lazy"]) if (kind == "int" and nb == 0) else \
        rng.choice(["tensor", "tensor", "tensor", "lazy"])
    return dict(kind=kind, bnames=bnames, bsizes=bsizes, n=n, ev=ev, pdata=pdata, ld=ld, ldkind=ldkind,
                point_form=point_form)


def build_delta(c):
    binputs = OrderedDict((nm, Bint[k]) for nm, k in zip(c["bnames"], c["bsizes"]))
    dtype = c["n"] if c["kind"] == "int" else "real"
    form = c["point_form"]
    lazy_env = None
    if form == "number":
        point = Number(int(c["pdata"]), c["n"])
    elif form == "lazy":
        # the point is a free variable; it is bound to the intended tensor afterwards
        dom = Bint[c["n"]] if c["kind"] == "int" else (Real if not c["ev"] else Reals[c["ev"]])
        point = Variable("y", dom)
        lazy_env = Tensor(c["pdata"], binputs, dtype)
    else:
        point = Tensor(c["pdata"], binputs, dtype)
    if c["ldkind"] == "tensor":
        ld = Tensor(np.asarray(c["ld"], dtype=np.float64), binputs)
    else:
        ld = Number(float(c["ld"]))
    return Delta("x", point, ld), lazy_env, binputs


DELTA_PY = """
# replay for C14: Delta(x, point, log_density)(x=value) at one batch element
import numpy as np
from collections import OrderedDict
from funsor.domains import Bint, Real, Reals
from funsor.tensor import Tensor
from funsor.terms import Number, Variable
from funsor.delta import Delta
binputs = OrderedDict((n, Bint[k]) for n, k in {binputs})
dtype, form, ev = {dtype!r}, {form!r}, {ev}
pdata = np.array({pdata}); ld = np.array({ld}, dtype=np.float64); value = np.array({value}); b = {batch}
full = Tensor(pdata, binputs, dtype)
if form == "number":
    point = Number(int(pdata), dtype)
elif form == "lazy":
    point = Variable("y", Bint[dtype] if dtype != "real" else (Reals[ev] if ev else Real))
else:
    point = full
ldf = Tensor(ld, binputs) if ld.ndim else Number(float(ld))
with np.errstate(all="ignore"):
    got = Delta("x", point, ldf)(x=Tensor(value, OrderedDict(), dtype))
    if form == "lazy":
        got = got(y=full)
got = np.broadcast_to(np.asarray(got.data, dtype=np.float64), pdata.shape[:len(binputs)])[b]
want = float(ld[b] if ld.ndim else ld) if np.array_equal(pdata[b], value) else -np.inf
print("got", got, "want", want)
FAILS = not (got == want)
"""


def delta_eval_case(ctx, c, use_driver=True):
    rng = ctx.rng
    try:
        d, lazy_env, binputs = build_delta(c)
    except DECLINE as e:
        ctx.count(f"delta:build-declined:{type(e).__name__}")
        return
    ctx.count(f"delta:eval:{c['kind']}:{c['point_form']}:ld={c['ldkind']}")
    border = list(zip(c["bnames"], c["bsizes"]))
    bshape = tuple(c["bsizes"])
    # candidate values: every value of the domain (int) / the points themselves and near misses (real)
    if c["kind"] == "int":
        values = [np.array(v) for v in range(c["n"])]
    else:
        pool = [np.asarray(c["pdata"][idx]) for idx in itertools.product(*[range(k) for k in bshape])]
        near = [p + rng.choice([0.5, -0.25]) * (np.arange(p.size).reshape(p.shape) == rng.randrange(max(1, p.size)))
                for p in pool[:2]]
        values = pool[:3] + near
    wit = describe(c)
    reqs, meta = [], []
    for v in values:
        forms = ["tensor"]
        if c["kind"] == "int" and rng.random() < 0.3:
            forms.append("pyint")
        for vf in forms:
            try:
                with np.errstate(all="ignore"):
                    if vf == "pyint":
                        r = d(x=int(v))
                    else:
                        r = d(x=Tensor(np.asarray(v), OrderedDict(), c["n"] if c["kind"] == "int" else "real"))
                    if lazy_env is not None:
                        r = r(y=lazy_env)
                t = table(r, border)
            except DECLINE as e:
                ctx.count(f"delta:eval-declined:{type(e).__name__}")
                continue
            if t is None:
                ctx.count("delta:eval-lazy")
                continue
            ctx.count("delta:eval-value")
            for b in itertools.product(*[range(k) for k in bshape]):
                p = c["pdata"][b] if bshape else c["pdata"]
                ld = c["ld"][b] if (c["ldkind"] == "tensor" and bshape) else c["ld"]
                ld = float(np.asarray(ld))
                eq = bool(np.array_equal(np.asarray(p, dtype=np.float64), np.asarray(v, dtype=np.float64)))
                want = ld if eq else float("-inf")
                got = float(t[b])
                if not same_num(exact(np.float64(got)), exact(np.float64(want))):
                    w = dict(wit)
                    w.update(value=np.asarray(v).tolist(), batch=b, problem="Delta evaluated at a value")
                    ctx.fail("input", "C14.delta-eval", witness=w, expected=str(want), got=str(got),
                             python=DELTA_PY.format(
                                 binputs=border, dtype=c["n"] if c["kind"] == "int" else "real",
                                 form=c["point_form"], ev=tuple(c["ev"]), pdata=c["pdata"].tolist(),
                                 ld=np.asarray(c["ld"]).tolist() if np.isfinite(np.asarray(c["ld"])).all()
                                 else "-np.inf", value=np.asarray(v).tolist(), batch=tuple(b)))
                    return
                reqs.append(f"C14 delta-eval {sx(val_as_list(p))} {ld_atom(ld)} {sx(val_as_list(v))}")
                meta.append(want)
    if use_driver and reqs:
        for a, want in zip(ctx.driver.ask(reqs), meta):
            if not a.startswith("ok ") or not same_num(atom_to_num(a[3:]), exact(np.float64(want))):
                ctx.infra_errors.append(f"Lean deltaEval disagrees with the python oracle: {a} vs {want}")
                return
    ctx.case(sample={k: wit[k] for k in ("kind", "bsizes", "n", "point_form", "ldkind")},
             nontrivial_key=("delta-eval", c["kind"], tuple(c["bsizes"]), c["n"], c["point_form"], c["ldkind"],
                             c["pdata"].tobytes(), np.asarray(c["ld"]).tobytes()) if meta else None)


DELTA_RED_PY = """
# replay for C14: (Delta + f).reduce(op, x) / Integrate(Delta, f, x) for a unit-mass Delta
import numpy as np
from collections import OrderedDict
from funsor.domains import Bint
from funsor.tensor import Tensor
from funsor.terms import Number, Variable
from funsor.delta import Delta
from funsor.integrate import Integrate
import funsor.ops as ops
n, which, side, form = {n}, {which!r}, {side!r}, {form!r}
binputs = OrderedDict((k, Bint[v]) for k, v in {binputs})
pdata = np.array({pdata})
f = Tensor(np.array({fdata}, dtype=np.float64), OrderedDict((k, Bint[v]) for k, v in {f_inputs}))
full = Tensor(pdata, binputs, n)
point = Number(int(pdata), n) if form == "number" else (Variable("y", Bint[n]) if form == "lazy" else full)
d = Delta("x", point, Number({ld}))
FAILS = False
try:
    with np.errstate(all="ignore"):
        if which == "integrate":
            r = Integrate(d, f, "x")
        else:
            op = ops.logaddexp if which == "reduce-logaddexp" else ops.max
            r = ((d + f) if side == "delta+f" else (f + d)).reduce(op, "x")
        if form == "lazy":
            r = r(y=full)
        want = f(x=full)          # the funsor evaluated at the point
        diff = ops.abs(r - want) if which == "integrate" else ops.abs(r.exp() - want.exp())   # exp(-inf) = 0
        worst = diff.reduce(ops.max)
    print("result", r, "expected", want)
    FAILS = not (float(np.nan_to_num(np.asarray(worst.data, dtype=np.float64), nan=np.inf)) <= 1e-9)
except (NotImplementedError, AssertionError, ValueError) as e:
    print("declined:", type(e).__name__)     # a decline is allowed by the property
"""


def delta_reduce_case(ctx, use_driver=True):
    """(Delta + f).reduce(op, x), (f + Delta).reduce(op, x), Integrate(Delta, f, x) with an integer x."""
    rng = ctx.rng
    n = rng.choice([1, 2, 3, 4])
    nb = rng.choice([0, 1, 1, 2])
    bnames = ["b", "c"][:nb]
    bsizes = [rng.choice([1, 2, 3]) for _ in range(nb)]
    bshape = tuple(bsizes)
    binputs = OrderedDict((nm, Bint[k]) for nm, k in zip(bnames, bsizes))
    nbc = int(np.prod(bshape)) if bshape else 1
    pdata = np.array([rng.randrange(n) for _ in range(nbc)]).reshape(bshape)
    point_form = rng.choice(["tensor", "tensor", "tensor", "lazy", "number"]) if nb == 0 else \
        rng.choice(["tensor", "tensor", "tensor", "lazy"])
    unit = rng.random() < 0.7
    ldv = 0.0 if unit else rng.choice([-1.0, 0.5, 1.0, 2.0])
    which = rng.choice(["reduce-logaddexp", "reduce-logaddexp", "reduce-max", "integrate", "integrate"])
    # f over x (+ some of the batch inputs, + maybe an extra input z)
    f_b = [nm for nm in bnames if rng.random() < 0.6]
    extra = rng.random() < 0.3
    f_inputs = [("x", n)] + [(nm, dict(zip(bnames, bsizes))[nm]) for nm in f_b] + ([("z", 2)] if extra else [])
    rng.shuffle(f_inputs)
    fshape = tuple(k for _, k in f_inputs)
    if which == "integrate":
        lin = np.array([rng.choice(DYAD) for _ in range(int(np.prod(fshape)))]).reshape(fshape)
        fdata = lin
    else:
        lin = np.array([rng.choice([0.0, 0.25, 0.5, 1.0, 2.0, 3.0]) for _ in range(int(np.prod(fshape)))]).reshape(fshape)
        fdata = log_of(lin) if which == "reduce-logaddexp" else \
            np.where(lin == 0, -np.inf, np.round(lin * 4) - 4)   # max-plus: small integers and -inf
    f = Tensor(fdata, OrderedDict((nm, Bint[k]) for nm, k in f_inputs))
    wit = dict(n=n, bnames=bnames, bsizes=bsizes, pdata=pdata.tolist(), point_form=point_form, ld=ldv,
               which=which, f_inputs=f_inputs, fdata=fdata.tolist())
    ctx.count(f"delta:{which}:{point_form}:{'unit' if unit else 'ld!=0'}")
    lazy_env = None
    if point_form == "number":
        point = Number(int(pdata), n)
    elif point_form == "lazy":
        point = Variable("y", Bint[n])
        lazy_env = Tensor(pdata, binputs, n)
    else:
        point = Tensor(pdata, binputs, n)
    side = rng.choice(["delta+f", "f+delta"])
    try:
        with np.errstate(all="ignore"):
            d = Delta("x", point, Number(ldv))
            if which == "integrate":
                r = Integrate(d, f, "x")
            else:
                op = ops.logaddexp if which == "reduce-logaddexp" else ops.max
                r = ((d + f) if side == "delta+f" else (f + d)).reduce(op, "x")
            if lazy_env is not None:
                r = r(y=lazy_env)
    except DECLINE as e:
        ctx.count(f"delta:{which}-declined:{type(e).__name__}")
        return
    order = list(zip(bnames, bsizes)) + ([("z", 2)] if extra else [])
    try:
        t = table(r, order)
    except (KeyError, ValueError) as e:
        ctx.fail("input", "C14.delta-reduce-inputs", witness=wit, expected=f"inputs within {order}", got=str(e))
        return
    if t is None:
        ctx.count(f"delta:{which}-lazy")
        return
    fnames = [nm for nm, _ in f_inputs]
    reqs, meta = [], []
    for idx in itertools.product(*[range(k) for _, k in order]):
        env = dict(zip([nm for nm, _ in order], idx))
        b = tuple(env[nm] for nm in bnames)
        p = int(pdata[b]) if bshape else int(pdata)
        col = [float(fdata[tuple({**env, "x": xx}[nm] for nm in fnames)]) for xx in range(n)]
        got = float(t[idx])
        if which == "integrate":
            want = math.exp(ldv) * col[p]
            ok = abs(got - want) <= 1e-9 * max(1.0, abs(want))
            reqs.append(f"C14 delta-sum {n} {p} 1 {sx([Fraction(v) for v in col])}")
            meta.append(Fraction(col[p]))
        elif which == "reduce-logaddexp":
            want = col[p]     # unit mass: log_density does not enter the reduction
            ok = (want == got) or abs(math.exp(got) - math.exp(want)) <= 1e-9 * max(1.0, math.exp(want))
            lincol = [Fraction(float(lin[tuple({**env, "x": xx}[nm] for nm in fnames)])) for xx in range(n)]
            reqs.append(f"C14 delta-reduce {n} {p} {sx(lincol)}")
            meta.append(lincol[p])
        else:
            want = col[p]
            ok = want == got
        if not ok:
            if unit:
                w = dict(wit)
                w.update(at=env, side=side, problem=f"{which} of a unit-mass Delta and f is not f(point)")
                ctx.fail("input", f"C14.delta-{which}", witness=w, expected=str(want), got=str(got),
                         python=DELTA_RED_PY.format(
                             n=n, which=which, side=side, form=point_form, binputs=list(zip(bnames, bsizes)),
                             pdata=pdata.tolist(), fdata=repr(fdata.tolist()).replace("inf", "np.inf"),
                             f_inputs=f_inputs, ld=ldv))
                return
            ctx.count(f"delta:{which}:ld!=0-differs")
    if use_driver and reqs:
        for a, want in zip(ctx.driver.ask(reqs), meta):
            parts = a.split()
            if parts[0] != "ok" or atom_to_num(parts[1]) != want or atom_to_num(parts[2]) != want:
                ctx.infra_errors.append(f"Lean delta sum disagrees with the python oracle: {a} vs {want}")
                return
    ctx.case(sample={k: wit[k] for k in ("n", "bsizes", "point_form", "ld", "which", "f_inputs")},
             nontrivial_key=("delta-red", which, n, tuple(bsizes), point_form, ldv, side, tuple(f_inputs),
                             pdata.tobytes(), fdata.tobytes()) if n >= 2 else None)


def delta_multi_case(ctx, use_driver=True):
    """Deltas binding 2-3 variables: evaluation at all points, and (Delta + f).reduce(op, S) /
    Integrate(Delta, f, S) for EVERY subset S of the Delta's variables (empty, strict, full)."""
    rng = ctx.rng
    k = rng.choice([2, 2, 3])
    names = ["x", "y", "z"][:k]
    real_at = rng.randrange(k) if rng.random() < 0.35 else None
    nb = rng.choice([0, 1, 1, 2])
    bnames = ["i", "j"][:nb]
    bsize = dict(zip(bnames, [rng.choice([1, 2, 3]) for _ in range(nb)]))
    kinds, sizes, pbatch, pdata, lds = {}, {}, {}, {}, {}
    for idx, nm in enumerate(names):
        kinds[nm] = "int" if idx != real_at else rng.choice(["real", "vec"])
        sizes[nm] = rng.choice([1, 2, 2, 3])
        pbatch[nm] = [b for b in bnames if rng.random() < 0.7]
        shp = tuple(bsize[b] for b in pbatch[nm])
        cnt = int(np.prod(shp)) if shp else 1
        if kinds[nm] == "int":
            pdata[nm] = np.array([rng.randrange(sizes[nm]) for _ in range(cnt)]).reshape(shp)
        elif kinds[nm] == "real":
            pdata[nm] = np.array([rng.choice([0.0, 0.5, 1.0]) for _ in range(cnt)]).reshape(shp)
        else:
            pdata[nm] = np.array([rng.choice([0.0, 0.5, 1.0]) for _ in range(cnt * 2)]).reshape(shp + (2,))
        u = rng.random()
        if u < 0.6:
            lds[nm] = ([], np.zeros(()))
        elif u < 0.85 or not bnames:
            lds[nm] = ([], np.array(rng.choice([-1.0, 0.5, 1.0, 2.0])))
        else:
            lb = [rng.choice(bnames)]
            lds[nm] = (lb, np.array([rng.choice([-1.0, 0.0, 0.5, 1.0]) for _ in range(bsize[lb[0]])]))
    dom = {nm: (sizes[nm] if kinds[nm] == "int" else "real") for nm in names}

    def pt_tensor(nm):
        return Tensor(pdata[nm], OrderedDict((b, Bint[bsize[b]]) for b in pbatch[nm]), dom[nm])

    def ld_funsor(nm):
        lb, arr = lds[nm]
        return Tensor(arr.astype(np.float64), OrderedDict((b, Bint[bsize[b]]) for b in lb)) if lb else Number(float(arr))
    which = rng.choice(["integrate", "integrate", "reduce-logaddexp", "reduce-logaddexp", "reduce-max"])
    int_names = [nm for nm in names if kinds[nm] == "int"]
    f_b = [b for b in bnames if rng.random() < 0.4]
    extra = rng.random() < 0.25
    f_inputs = [(nm, sizes[nm]) for nm in int_names] + [(b, bsize[b]) for b in f_b] + ([("u", 2)] if extra else [])
    rng.shuffle(f_inputs)
    fshape = tuple(v for _, v in f_inputs)
    cnt = int(np.prod(fshape)) if fshape else 1
    if which == "integrate":
        lin = np.array([rng.choice(DYAD) for _ in range(cnt)]).reshape(fshape)
        fdata = lin
    else:
        lin = np.array([rng.choice([0.0, 0.25, 0.5, 1.0, 2.0, 3.0]) for _ in range(cnt)]).reshape(fshape)
        fdata = log_of(lin)
    coef = np.array([rng.choice([0.5, 1.0, 2.0]) for _ in range(2)])
    build = rng.choice(["joint", "joint", "sum"])
    wit = dict(names=names, kinds=kinds, sizes=sizes, bsize=bsize, pbatch=pbatch,
               pdata={n: v.tolist() for n, v in pdata.items()}, lds={n: (b, a.tolist()) for n, (b, a) in lds.items()},
               which=which, f_inputs=f_inputs, fdata=fdata.tolist(), coef=coef.tolist(), build=build)
    ctx.count(f"delta-multi:{which}:k={k}:{'mixed' if real_at is not None else 'int'}:{build}")
    try:
        with np.errstate(all="ignore"):
            if build == "joint":
                d = Delta(tuple((nm, (pt_tensor(nm), ld_funsor(nm))) for nm in names))
            else:
                d = Delta(names[0], pt_tensor(names[0]), ld_funsor(names[0]))
                for nm in names[1:]:
                    d = d + Delta(nm, pt_tensor(nm), ld_funsor(nm))
            f = Tensor(fdata, OrderedDict((nm, Bint[v]) for nm, v in f_inputs)) if f_inputs else Tensor(fdata)
            if real_at is not None:
                rn = names[real_at]
                rv = Variable(rn, Real if kinds[rn] == "real" else Reals[2])
                f = f + ((rv * float(coef[0])) if kinds[rn] == "real" else (rv * Tensor(coef)).sum())
    except DECLINE as e:
        ctx.count(f"delta-multi:build-declined:{type(e).__name__}")
        return
    if not isinstance(d, Delta) or set(d.fresh) != set(names):
        ctx.count("delta-multi:not-a-joint-delta")
        return
    border = [(b, bsize[b]) for b in bnames] + ([("u", 2)] if extra else [])

    def pval(nm, env):
        return np.asarray(pdata[nm][tuple(env[b] for b in pbatch[nm])])

    def ldval(nm, env):
        lb, arr = lds[nm]
        return float(arr[tuple(env[b] for b in lb)]) if lb else float(arr)

    def fval(env, vals):
        base = float(fdata[tuple(({**env, **{n: int(vals[n]) for n in int_names}})[n] for n, _ in f_inputs)])
        if real_at is not None:
            rn = names[real_at]
            base += float(coef[0] * vals[rn]) if kinds[rn] == "real" else float((coef * vals[rn]).sum())
        return base

    def candidates(nm):
        if kinds[nm] == "int":
            return [np.array(v) for v in range(sizes[nm])]
        flat = pdata[nm].reshape((-1,) + ((2,) if kinds[nm] == "vec" else ()))
        out = [flat[0], flat[-1], flat[0] + 0.25]
        return out

    def as_tensor(nm, v):
        return Tensor(np.asarray(v), OrderedDict(), dom[nm])
    benvs = [dict(zip([n for n, _ in border], idx)) for idx in itertools.product(*[range(v) for _, v in border])]
    # 1. evaluation at all points
    try:
        for vals in itertools.product(*[candidates(nm) for nm in names]):
            vd = dict(zip(names, vals))
            with np.errstate(all="ignore"):
                t = table(d(**{nm: as_tensor(nm, v) for nm, v in vd.items()}), border)
            if t is None:
                ctx.count("delta-multi:eval-lazy")
                break
            for env in benvs:
                eq = all(np.array_equal(np.asarray(vd[nm], dtype=np.float64), pval(nm, env).astype(np.float64))
                         for nm in names)
                want = sum(ldval(nm, env) for nm in names) if eq else float("-inf")
                got = float(t[tuple(env[n] for n, _ in border)])
                if not (got == want or abs(got - want) <= 1e-12):
                    w = dict(wit)
                    w.update(values={n: np.asarray(v).tolist() for n, v in vd.items()}, at=env,
                             problem="joint Delta evaluated at a point")
                    ctx.fail("input", "C14.delta-multi-eval", witness=w, expected=str(want), got=str(got),
                             python=multi_py(wit, [], "eval"))
                    return
    except DECLINE as e:
        ctx.count(f"delta-multi:eval-declined:{type(e).__name__}")
    # 2. every subset S of the Delta's variables
    reqs, meta = [], []
    for m in range(k + 1):
        for S in itertools.combinations(names, m):
            rest = [nm for nm in names if nm not in S]
            try:
                with np.errstate(all="ignore"):
                    if which == "integrate":
                        r = Integrate(d, f, frozenset(S))
                    else:
                        op = ops.logaddexp if which == "reduce-logaddexp" else ops.max
                        r = (d + f).reduce(op, frozenset(S)) if S else (d + f)
            except DECLINE as e:
                ctx.count(f"delta-multi:{which}-declined:{type(e).__name__}")
                continue
            ctx.count(f"delta-multi:subset:{'empty' if not S else ('full' if not rest else 'strict')}")
            lost = [nm for nm in rest if nm not in r.inputs]
            kept = [nm for nm in S if nm in r.inputs]
            if lost or kept:
                w = dict(wit)
                w.update(S=list(S), problem=f"inputs of the result: un-reduced Delta variables {lost} lost, reduced {kept} kept")
                ctx.fail("input", "C14.delta-multi-inputs", witness=w, expected=str(sorted(rest)),
                         got=str(sorted(r.inputs)), python=multi_py(wit, list(S), which))
                return
            unit_S = all(lds[nm][1].ndim == 0 and float(lds[nm][1]) == 0.0 for nm in S)
            for vals in itertools.product(*[candidates(nm) for nm in rest]):
                vd = dict(zip(rest, vals))
                try:
                    with np.errstate(all="ignore"):
                        rv_ = r(**{nm: as_tensor(nm, v) for nm, v in vd.items()}) if vd else r
                        t = table(rv_, border)
                except DECLINE as e:
                    ctx.count(f"delta-multi:{which}-eval-declined:{type(e).__name__}")
                    continue
                except KeyError as e:
                    w = dict(wit)
                    w.update(S=list(S), problem=f"unexpected input in the result: {e}")
                    ctx.fail("input", "C14.delta-multi-inputs", witness=w, expected=str(border), got=str(e),
                             python=multi_py(wit, list(S), which))
                    return
                if t is None:
                    ctx.count(f"delta-multi:{which}-lazy")
                    continue
                for env in benvs:
                    eq = all(np.array_equal(np.asarray(vd[nm], dtype=np.float64), pval(nm, env).astype(np.float64))
                             for nm in rest)
                    full = {nm: (pval(nm, env) if nm in S else np.asarray(vd[nm])) for nm in names}
                    fv_ = fval(env, full)
                    got = float(t[tuple(env[n] for n, _ in border)])
                    if which == "integrate":
                        want = math.exp(sum(ldval(nm, env) for nm in names)) * fv_ if eq else 0.0
                        ok = abs(got - want) <= 1e-9 * max(1.0, abs(want))
                    else:
                        want = (sum(ldval(nm, env) for nm in rest) + fv_) if eq else float("-inf")
                        ok = got == want or (math.isfinite(want) and abs(math.exp(got) - math.exp(want))
                                             <= 1e-9 * max(1.0, math.exp(want)))
                    if not ok:
                        if unit_S:
                            w = dict(wit)
                            w.update(S=list(S), at=env, rest_values={n: np.asarray(v).tolist() for n, v in vd.items()},
                                     problem=f"{which} of a joint Delta over the subset {list(S)} of its variables")
                            ctx.fail("input", f"C14.delta-multi-{which}", witness=w, expected=str(want), got=str(got),
                                     python=multi_py(wit, list(S), which))
                            return
                        ctx.count(f"delta-multi:{which}:ld!=0-differs")
                    # Lean model / spec on the same slice (all-integer Deltas; surrogate rational weights)
                    if real_at is None and which != "reduce-max" and use_driver and len(reqs) < 40:
                        sz = [sizes[nm] for nm in names]
                        ws = [Fraction(1) if ldval(nm, env) == 0.0 else Fraction(2 + j) for j, nm in enumerate(names)]
                        flat = [Fraction(float(lin[tuple(({**env, **dict(zip(names, tt))})[n] for n, _ in f_inputs)]))
                                for tt in itertools.product(*[range(v) for v in sz])]
                        x = [int(vd[nm]) if nm in vd else 0 for nm in names]
                        pt = [int(pval(nm, env)) for nm in names]
                        mask = [nm in S for nm in names]
                        reqs.append(f"C14 delta-subset {sx(sz)} {sx(mask)} {sx(pt)} {sx(ws)} {sx(flat)} {sx(x)}")
                        fp = Fraction(float(lin[tuple(({**env, **dict(zip(names, [pt[j] if mask[j] else x[j] for j in range(k)]))})[n]
                                                       for n, _ in f_inputs)]))
                        rest_w = Fraction(1)
                        for j in range(k):
                            if not mask[j]:
                                rest_w *= ws[j] if x[j] == pt[j] else 0
                        s_w = Fraction(1)
                        for j in range(k):
                            if mask[j]:
                                s_w *= ws[j]
                        meta.append((s_w * rest_w * fp, rest_w * fp))
    if reqs:
        for a, (wi, wr) in zip(ctx.driver.ask(reqs), meta):
            parts = a.split()
            if parts[0] != "ok" or [atom_to_num(x) for x in parts[1:5]] != [wi, wi, wr, wr]:
                ctx.infra_errors.append(f"Lean delta-subset (spec/model) disagrees with the python oracle: {a} vs {wi} {wr}")
                return
    ctx.case(sample={kk: wit[kk] for kk in ("names", "kinds", "sizes", "bsize", "which", "build")},
             nontrivial_key=("delta-multi", str(wit)))


MULTI_PY = """
# replay for C14: a Delta binding several variables, evaluated / reduced / integrated over a subset S
import itertools, math
import numpy as np
from collections import OrderedDict
from funsor.domains import Bint, Real, Reals
from funsor.tensor import Tensor
from funsor.terms import Number, Variable
from funsor.delta import Delta
from funsor.integrate import Integrate
import funsor.ops as ops
inf, nan = float("inf"), float("nan")
W = {wit!r}
S, which = {S!r}, {which!r}
names, kinds, sizes, bsize = W["names"], W["kinds"], W["sizes"], W["bsize"]
dom = {{n: (sizes[n] if kinds[n] == "int" else "real") for n in names}}
binp = lambda bs: OrderedDict((b, Bint[bsize[b]]) for b in bs)
pt = {{n: Tensor(np.array(W["pdata"][n]), binp(W["pbatch"][n]), dom[n]) for n in names}}
ld = {{n: (Tensor(np.array(a, dtype=np.float64), binp(b)) if b else Number(float(a))) for n, (b, a) in W["lds"].items()}}
if W["build"] == "joint":
    d = Delta(tuple((n, (pt[n], ld[n])) for n in names))
else:
    d = Delta(names[0], pt[names[0]], ld[names[0]])
    for n in names[1:]:
        d = d + Delta(n, pt[n], ld[n])
fdata = np.array(W["fdata"], dtype=np.float64)
f = Tensor(fdata, OrderedDict((n, Bint[v]) for n, v in W["f_inputs"]))
for n in names:
    if kinds[n] != "int":
        v = Variable(n, Real if kinds[n] == "real" else Reals[2])
        f = f + ((v * W["coef"][0]) if kinds[n] == "real" else (v * Tensor(np.array(W["coef"]))).sum())
rest = [n for n in names if n not in S]
cand = {{n: ([np.array(v) for v in range(sizes[n])] if kinds[n] == "int" else
            [np.array(W["pdata"][n]).reshape((-1,) + ((2,) if kinds[n] == "vec" else ()))[0]]) for n in names}}
problems = []
with np.errstate(all="ignore"):
    if which == "eval":
        r, rest = d, list(names)
    elif which == "integrate":
        r = Integrate(d, f, frozenset(S))
    else:
        op = ops.logaddexp if which == "reduce-logaddexp" else ops.max
        r = (d + f).reduce(op, frozenset(S)) if S else (d + f)
    if [n for n in rest if n not in r.inputs] or [n for n in S if n in r.inputs]:
        problems.append("inputs %s, expected to keep %s and drop %s" % (sorted(r.inputs), rest, S))
    else:
        # brute force over the reduced variables, using only point-wise evaluation of the Delta
        for vals in itertools.product(*[cand[n] for n in rest]):
            vd = dict(zip(rest, vals))
            sub = {{n: Tensor(np.asarray(v), OrderedDict(), dom[n]) for n, v in vd.items()}}
            got = r(**sub) if sub else r
            acc = None
            for svals in itertools.product(*[[np.asarray(x) for x in np.unique(np.array(W["pdata"][n]).reshape(
                    (-1,) + ((2,) if kinds[n] == "vec" else ())), axis=0)] if kinds[n] != "int" else cand[n] for n in S]):
                allv = dict(sub)
                allv.update({{n: Tensor(np.asarray(v), OrderedDict(), dom[n]) for n, v in zip(S, svals)}})
                dv = d(**allv)
                if which == "eval":
                    term = dv
                else:
                    unit = dv - sum((ld[n] for n in S), Number(0.0)) if which != "integrate" else dv
                    fv = f(**{{n: v for n, v in allv.items() if n in f.inputs}})
                    term = (unit.exp() * fv) if which == "integrate" else (unit + fv)
                if acc is None:
                    acc = term
                elif which == "integrate":
                    acc = acc + term
                else:
                    acc = ops.logaddexp(acc, term) if which == "reduce-logaddexp" else ops.max(acc, term)
            if which == "eval":
                continue
            a_ = got if which == "integrate" else got.exp()
            b_ = acc if which == "integrate" else acc.exp()
            worst = ops.abs(a_ - b_).reduce(ops.max)
            if not float(np.nan_to_num(np.asarray(worst.data, dtype=np.float64), nan=np.inf)) <= 1e-9:
                problems.append("at %s: got %s, brute force %s" % ({{n: np.asarray(v).tolist() for n, v in vd.items()}}, got, acc))
print("\\n".join(problems[:6]) or "joint Delta satisfies C14 on this case")
FAILS = bool(problems)
"""


def multi_py(wit, S, which):
    return MULTI_PY.format(wit=wit, S=list(S), which=which)


def delta_arith_case(ctx):
    """Arithmetic on point masses: Delta (+|-) f and f (+|-) Delta with f mentioning the Delta's variable or not.
    Oracle: the point-wise definition  log delta_p(x) +- f(x):  value at the point ld +- f(p), -inf off the point,
    mass over the Delta's variables exp(+-f(p)), Integrate against h gives exp(ld +- f(p)) h(p)."""
    rng = ctx.rng
    kind = rng.choice(["int", "int", "real", "vec"])
    two = rng.random() < 0.3
    has_b = rng.random() < 0.6
    nb_ = rng.choice([2, 3])
    n = rng.choice([2, 3, 4])
    form = rng.choice(["tensor", "tensor", "tensor", "lazy"])
    ldv = 0.0 if rng.random() < 0.65 else rng.choice([-1.0, 0.5, 1.0])
    fk = rng.choice({"int": ["number", "table", "table", "table", "other"],
                     "real": ["number", "expr", "expr", "gauss", "gauss", "other"],
                     "vec": ["number", "expr", "expr", "gauss", "gauss", "other"]}[kind])
    opn = rng.choice(["add", "sub", "sub"])
    order_ = rng.choice(["d,f", "d,f", "f,d"])
    seed = rng.randrange(2 ** 31)
    c = dict(kind=kind, two=two, has_b=has_b, nb=nb_, n=n, form=form, ld=ldv, f=fk, op=opn, order=order_, seed=seed)
    ctx.count(f"delta-arith:{kind}:{fk}:{opn}:{order_}:{form}:{'unit' if ldv == 0 else 'ld!=0'}")
    res = run_delta_arith(c)
    if res is None:
        ctx.count("delta-arith:declined")
        return
    problems, counts = res
    for k_ in counts:
        ctx.count("delta-arith:" + k_)
    if problems:
        name, prob, exp_, got_ = problems[0]
        w = dict(c)
        w["problem"] = prob
        ctx.fail("input", name, witness=w, expected=exp_, got=got_, python=ARITH_PY.format(verif=str(_VERIF()), case=c))
        return
    ctx.case(sample=c, nontrivial_key=("delta-arith", str(c)))


def _VERIF():
    from ..common import VERIF
    return VERIF


ARITH_PY = """
# replay for C14: arithmetic on a point mass, Delta (+|-) f, against the point-wise definition
# (re-runs fv/harness/c14.py run_delta_arith on the recorded case: dense numpy oracle)
import sys
sys.path.insert(0, {verif!r})
from fv.harness.c14 import run_delta_arith
res = run_delta_arith({case!r})
for p in (res[0] if res else []):
    print(p)
FAILS = bool(res and res[0])
"""


def run_delta_arith(c):
    """Returns (problems, counts) or None when the construction itself declined."""
    rs = np.random.RandomState(c["seed"])
    kind, n, nb_ = c["kind"], c["n"], c["nb"]
    binp = OrderedDict(b=Bint[nb_]) if c["has_b"] else OrderedDict()
    bshape = (nb_,) if c["has_b"] else ()
    dom = n if kind == "int" else "real"
    ev = (2,) if kind == "vec" else ()
    if kind == "int":
        pdata = rs.randint(0, n, size=bshape)
    else:
        pdata = rs.choice([-1.0, -0.5, 0.0, 0.5, 1.0, 2.0], size=bshape + ev)
    full = Tensor(pdata, binp, dom)
    xdom = Bint[n] if kind == "int" else (Reals[ev] if ev else Real)
    point = Variable("yy", xdom) if c["form"] == "lazy" else full
    ld = float(c["ld"])
    problems, counts = [], []
    sgn = 1.0 if c["op"] == "add" else -1.0
    try:
        with np.errstate(all="ignore"):
            d = Delta("x", point, Number(ld))
            L = ld
            if c["two"]:
                p2 = rs.randint(0, 3, size=bshape)
                ld2 = 0.25 if ld != 0.0 else 0.0      # non-unit log-densities only in the counted (not gated) cases
                d = d + Delta("z", Tensor(p2, binp, 3), Number(ld2))
                L += ld2
            xv = Variable("x", xdom)
            coef = rs.choice([-1.0, 0.5, 1.0, 2.0], size=bshape + ev)
            fk = c["f"]
            if fk == "number":
                f, fpy = Number(1.5), (lambda b, u, p: 1.5)
            elif fk == "table":
                tab = np.round(rs.standard_normal(bshape + (n,)) * 2) / 2
                f = Tensor(tab, OrderedDict(list(binp.items()) + [("x", Bint[n])]))
                fpy = lambda b, u, p: float(tab[b + (int(p),)])
            elif fk == "expr":
                cT = Tensor(coef, binp)
                f = ((xv * cT).sum() + (xv * xv).sum() + 0.5) if ev else (xv * cT + xv * xv + 0.5)
                fpy = lambda b, u, p: float((coef[b] * p).sum() + (p * p).sum() + 0.5)
            elif fk == "gauss":
                dim = 2 if ev else 1
                P = rs.standard_normal(bshape + (dim, dim)) + 2.0 * np.eye(dim)
                wv = rs.standard_normal(bshape + (dim,))
                f = Gaussian(wv, P, OrderedDict(list(binp.items()) + [("x", xdom)]))
                fpy = lambda b, u, p: -0.5 * float(((np.reshape(p, (dim,)) @ P[b] - wv[b]) ** 2).sum())
            else:
                tu = np.round(rs.standard_normal(bshape + (2,)) * 2) / 2
                f = Tensor(tu, OrderedDict(list(binp.items()) + [("u", Bint[2])]))
                fpy = lambda b, u, p: float(tu[b + (u,)])
            if kind == "int":
                hd = rs.choice([-1.0, 0.5, 1.0, 2.0, 3.0], size=(n,))
                h, hpy = Tensor(hd, OrderedDict(x=Bint[n])), (lambda p: float(hd[int(p)]))
            else:
                h = (xv * 2.0).sum() + 1.0 if ev else xv * 2.0 + 1.0
                hpy = lambda p: float(np.sum(p) * 2.0 + 1.0)
            op = ops.add if c["op"] == "add" else ops.sub
            e = op(d, f) if c["order"] == "d,f" else op(f, d)
    except DECLINE as ex:
        return None
    order = [("b", nb_)] * bool(c["has_b"]) + ([("u", 2)] if c["f"] == "other" else [])
    names = ["x"] + (["z"] if c["two"] else [])

    def bind(r):
        return r(yy=full) if c["form"] == "lazy" and "yy" in r.inputs else r

    def observe(label, build, oracle, kind_="lin"):
        try:
            with np.errstate(all="ignore"):
                t = table(bind(build()), order)
        except DECLINE + (KeyError,) as ex:
            counts.append(f"{label}-declined:{type(ex).__name__}")
            return
        if t is None:
            counts.append(f"{label}-lazy")
            return
        want = np.empty([k for _, k in order])
        for idx in itertools.product(*[range(k) for _, k in order]):
            env = dict(zip([n_ for n_, _ in order], idx))
            b = (env["b"],) if c["has_b"] else ()
            want[idx] = oracle(b, env.get("u", 0), pdata[b] if bshape else pdata)
        with np.errstate(all="ignore"):
            ok = np.array_equal(np.isinf(t), np.isinf(want)) and np.allclose(
                np.where(np.isinf(t), 0, t), np.where(np.isinf(want), 0, want), rtol=1e-8, atol=1e-9) and (
                np.sign(np.where(np.isinf(t), t, 0)) == np.sign(np.where(np.isinf(want), want, 0))).all()
        if ok:
            counts.append(f"{label}-ok")
        elif label in GATED_UNIT_ONLY and ld != 0.0:
            counts.append(f"{label}:ld!=0-differs")
        else:
            problems.append((f"C14.delta-arith-{label}",
                             f"{'Delta' if c['order'] == 'd,f' else 'f'} {c['op']} {'f' if c['order'] == 'd,f' else 'Delta'}"
                             f" (f = {c['f']}): {label}", str(want.tolist()), str(t.tolist())))
    z_at = {"z": Tensor(p2, binp, 3)} if c["two"] else {}
    if kind == "int":
        off_val = Tensor((pdata + 1) % n, binp, n)
    else:
        off_val = Tensor(pdata + 0.25, binp, dom)
    dfirst = c["order"] == "d,f"
    if dfirst or c["op"] == "add":
        observe("at-point", lambda: e(x=full, **z_at), lambda b, u, p: L + sgn * fpy(b, u, p))
        if n >= 2 or kind != "int":
            observe("off-point", lambda: e(x=off_val, **z_at), lambda b, u, p: -np.inf)
        observe("mass", lambda: e.reduce(ops.logaddexp, frozenset(names)), lambda b, u, p: sgn * fpy(b, u, p))
        observe("integrate-1", lambda: Integrate(e, Number(1.0), frozenset(names)),
                lambda b, u, p: math.exp(L + sgn * fpy(b, u, p)))
        observe("integrate-h", lambda: Integrate(e, h, frozenset(names)),
                lambda b, u, p: math.exp(L + sgn * fpy(b, u, p)) * hpy(p))
    else:   # f - Delta
        observe("at-point", lambda: e(x=full, **z_at), lambda b, u, p: fpy(b, u, p) - L)
        observe("off-point", lambda: e(x=off_val, **z_at), lambda b, u, p: np.inf)
    return problems, counts


GATED_UNIT_ONLY = ("mass", "integrate-1", "integrate-h")


def delta_dep_case(ctx):
    """Delta + Delta where one Delta's log-density and/or point depends on the variable bound by the other
    (an importance-weighted draw of y whose weight / location depends on an earlier draw x); both operand orders,
    optionally a third independent Delta."""
    c = dict(seed=ctx.rng.randrange(2 ** 31), xkind=ctx.rng.choice(["int", "int", "real"]),
             dep=ctx.rng.choice(["ld", "ld", "point", "both"]), has_b=ctx.rng.random() < 0.6,
             batched_x=ctx.rng.random() < 0.5, triple=ctx.rng.random() < 0.3)
    ctx.count(f"delta-dep:{c['xkind']}:{c['dep']}:{'triple' if c['triple'] else 'pair'}")
    res = run_delta_dep(c)
    if res is None:
        ctx.count("delta-dep:declined")
        return
    problems, counts = res
    for k_ in counts:
        ctx.count("delta-dep:" + k_)
    if problems:
        name, prob, exp_, got_ = problems[0]
        w = dict(c)
        w["problem"] = prob
        ctx.fail("input", name, witness=w, expected=exp_, got=got_, python=DEP_PY.format(verif=str(_VERIF()), case=c))
        return
    ctx.case(sample=c, nontrivial_key=("delta-dep", str(c)))


DEP_PY = """
# replay for C14: Delta + Delta with a log-density / point depending on the other Delta's variable
# (re-runs fv/harness/c14.py run_delta_dep on the recorded case: dense numpy oracle, both operand orders)
import sys
sys.path.insert(0, {verif!r})
from fv.harness.c14 import run_delta_dep
res = run_delta_dep({case!r})
for p in (res[0] if res else []):
    print(p)
FAILS = bool(res and res[0])
"""


def run_delta_dep(c):
    rs = np.random.RandomState(c["seed"])
    nb_ = int(rs.randint(2, 4))
    nx = int(rs.randint(2, 5))
    binp = OrderedDict(b=Bint[nb_]) if c["has_b"] else OrderedDict()
    bshape = (nb_,) if c["has_b"] else ()
    xb = binp if c["batched_x"] else OrderedDict()
    xshape = bshape if c["batched_x"] else ()
    problems, counts = [], []
    try:
        with np.errstate(all="ignore"):
            if c["xkind"] == "int":
                px = rs.randint(0, nx, size=xshape)
                d = Delta("x", Tensor(px, xb, nx))
                wdat = np.round(rs.standard_normal(bshape + (nx,)) * 4) / 4
                pdat = rs.choice([-1.0, 0.0, 0.5, 1.0, 2.0], size=bshape + (nx,))
                xin = OrderedDict(list(binp.items()) + [("x", Bint[nx])])
                w = Tensor(wdat, xin) if c["dep"] in ("ld", "both") else Tensor(wdat[..., 0], binp)
                py = Tensor(pdat, xin) if c["dep"] in ("point", "both") else Tensor(pdat[..., 0], binp)
                wpy = (lambda b, k: float(wdat[b + (int(k),)])) if c["dep"] in ("ld", "both") else (lambda b, k: float(wdat[b + (0,)]))
                ppy = (lambda b, k: float(pdat[b + (int(k),)])) if c["dep"] in ("point", "both") else (lambda b, k: float(pdat[b + (0,)]))
                xdom = nx
            else:
                px = rs.choice([-1.0, 0.5, 1.0, 2.0], size=xshape)
                d = Delta("x", Tensor(px, xb))
                xv = Variable("x", Real)
                cw = rs.choice([-1.0, 0.5, 2.0], size=bshape)
                cp = rs.choice([0.5, 1.0, 2.0], size=bshape)
                w = (xv * Tensor(cw, binp) + 0.25) if c["dep"] in ("ld", "both") else Tensor(cw, binp)
                py = (xv * 2.0 + Tensor(cp, binp)) if c["dep"] in ("point", "both") else Tensor(cp, binp)
                wpy = (lambda b, k: float(cw[b] * k + 0.25)) if c["dep"] in ("ld", "both") else (lambda b, k: float(cw[b]))
                ppy = (lambda b, k: float(2.0 * k + cp[b])) if c["dep"] in ("point", "both") else (lambda b, k: float(cp[b]))
                xdom = "real"
            f = Delta("y", py, w)
            g = Delta("z", Tensor(np.array(1), OrderedDict(), 3)) if c["triple"] else None
            builds = {"d+f": (lambda: d + f), "f+d": (lambda: f + d)}
            if g is not None:
                builds = {"d+f+g": (lambda: d + f + g), "g+f+d": (lambda: g + f + d), "d+(f+g)": (lambda: d + (f + g))}
    except DECLINE:
        return None
    order = [("b", nb_)] if c["has_b"] else []
    pxb = np.broadcast_to(px, bshape) if bshape else np.asarray(px)
    want = np.empty(bshape)
    ypt = np.empty(bshape)
    for idx in itertools.product(*[range(k) for k in bshape]):
        k = pxb[idx]
        want[idx] = wpy(idx, k)
        ypt[idx] = ppy(idx, k)
    xt = Tensor(np.asarray(pxb), binp, xdom)
    yt, yoff = Tensor(ypt, binp), Tensor(ypt + 0.75, binp)
    zsub = {"z": Tensor(np.array(1), OrderedDict(), 3)} if c["triple"] else {}
    tables = {}
    for oname, build in builds.items():
        try:
            with np.errstate(all="ignore"):
                tot = build()
                obs = {"joint": tot(x=xt, y=yt, **zsub), "joint-off": tot(x=xt, y=yoff, **zsub)}
                red = tot.reduce(ops.logaddexp, "x")
                if "x" in red.inputs:
                    problems.append((f"C14.delta-dep-inputs", f"{oname}: x is still a free input after reducing the Delta "
                                     f"that binds it: {sorted(red.inputs)}", "no x", str(sorted(red.inputs))))
                    continue
                obs["reduced"] = red(y=yt, **zsub)
                obs["reduced-off"] = red(y=yoff, **zsub)
                for lab, r in obs.items():
                    t = table(r, order)
                    if t is None:
                        counts.append(f"{lab}-lazy")
                        continue
                    tables[(oname, lab)] = t
                    exp_ = want if not lab.endswith("off") else np.full(bshape, -np.inf)
                    if np.array_equal(np.isinf(t), np.isinf(exp_)) and np.allclose(
                            np.where(np.isinf(t), 0, t), np.where(np.isinf(exp_), 0, exp_), rtol=1e-9, atol=1e-12):
                        counts.append(f"{lab}-ok")
                    else:
                        problems.append((f"C14.delta-dep-{lab}", f"{oname} (dependence through the {c['dep']}): {lab} value "
                                         f"at the point / off the point", str(np.asarray(exp_).tolist()), str(t.tolist())))
        except DECLINE + (KeyError,) as ex:
            counts.append(f"{oname}-declined:{type(ex).__name__}")
    return problems, counts


# --------------------------------------------------------------------------------------
# Delta substitution rule / Delta + Delta on dependent multi-name Deltas vs Model/C14Subs (Props/C14/Subs.lean)
# --------------------------------------------------------------------------------------

SUBS_W = [Fraction(0), Fraction(1, 2), Fraction(1), Fraction(1), Fraction(2), Fraction(3)]


def _subs_term(rs, name, size, deps, vars_):
    shape = tuple(vars_[d] for d in deps)
    n = int(np.prod(shape)) if shape else 1
    pt = [int(v) for v in rs.randint(0, size, size=n)]
    w = [SUBS_W[int(i)] for i in rs.randint(0, len(SUBS_W), size=n)]
    return dict(name=name, deps=list(deps), pt=pt, w=w)


def _subs_delta(terms, vars_):
    out = []
    for t in terms:
        shape = tuple(vars_[d] for d in t["deps"])
        inp = OrderedDict((d, Bint[vars_[d]]) for d in t["deps"])
        out.append((t["name"], (Tensor(np.array(t["pt"]).reshape(shape), inp, vars_[t["name"]]),
                                Tensor(log_of([float(x) for x in t["w"]]).reshape(shape), inp))))
    return Delta(tuple(out))


def _subs_wire(t):
    return [t["name"], t["deps"], t["pt"], t["w"]]


def _subs_dense(r, vars_):
    """Dense linear-space table of a funsor over its (integer) inputs, names sorted; None = declined (lazy)."""
    out = sorted(r.inputs)
    if any(n not in vars_ for n in out):
        raise KeyError(f"unexpected input in result: {out}")
    ren = {n: Tensor(np.arange(vars_[n]), OrderedDict([(n + "__i", Bint[vars_[n]])]), vars_[n]) for n in out}
    g = r(**ren) if ren else r
    t = table(g, [(n + "__i", vars_[n]) for n in out])
    return out, (None if t is None else np.exp(t))


def run_delta_subs(c):
    """-> (problems, counts, request, checker(answer) -> problems) ; pure function of the case (replayable)."""
    rs = np.random.RandomState(c["seed"])
    vars_ = {"b": int(rs.randint(2, 4)), "c": int(rs.randint(2, 4)), "e": int(rs.randint(2, 4))}
    fresh = ["x", "y", "z"][:int(rs.randint(1, 4))]
    for n in fresh:
        vars_[n] = int(rs.randint(2, 4))
    problems, counts = [], []
    if c["kind"] == "subs":
        terms = []
        for n in fresh:
            deps = [d for d in ("b", "c") if rs.rand() < 0.4]
            terms.append(_subs_term(rs, n, vars_[n], deps, vars_))
        subs, wire_subs, new_names = OrderedDict(), [], iter(["u", "v", "t"])
        for n in fresh + ["b", "c"]:
            k = rs.rand()
            if n in ("b", "c") and n not in {d for t in terms for d in t["deps"]}:
                continue
            if k < 0.3:
                continue
            if k < 0.55:
                if n in fresh:
                    y = next(new_names)
                elif vars_["e"] == vars_[n] and not any(isinstance(v, Variable) and v.name == "e" for v in subs.values()):
                    y = "e"        # renamed onto a name that substituted values may also read (same size)
                else:
                    y = n + "2"
                vars_[y] = vars_[n]
                subs[n] = Variable(y, Bint[vars_[n]])
                wire_subs.append([n, "var", y])
            else:
                deps = [d for d in ("c", "e") if rs.rand() < 0.4 and vars_.get(d)]
                shape = tuple(vars_[d] for d in deps)
                data = rs.randint(0, vars_[n], size=shape)
                subs[n] = Tensor(np.array(data), OrderedDict((d, Bint[vars_[d]]) for d in deps), vars_[n])
                wire_subs.append([n, "val", deps, [int(v) for v in np.asarray(data).reshape(-1)]])
        if not subs:
            return None
        try:
            with np.errstate(all="ignore"):
                d = _subs_delta(terms, vars_)
                r = d(**subs)
                out, dense = _subs_dense(r, vars_)
        except DECLINE as ex:
            counts.append(f"declined:{type(ex).__name__}")
            return problems, counts, None, None
        keep = set(d.inputs) - set(subs)
        for k_, v in subs.items():
            if k_ in d.inputs:
                keep |= set(v.inputs)
        if set(out) != keep:
            problems.append(("C14.delta-subs-inputs", "inputs of Delta(terms)(**subs)", str(sorted(keep)), str(out)))
        kind = "delta" if isinstance(r, Delta) else ("scale" if isinstance(r, (Tensor, Number)) else "both")
        fresh_got = sorted(r.fresh) if isinstance(r, Delta) else None
        req = f"C14 delta-subs {sx([[n, s] for n, s in vars_.items()])} {sx([_subs_wire(t) for t in terms])} {sx(wire_subs)} {sx(out)}"
    else:
        mode = c["mode"]
        nl = max(1, len(fresh) - 1)
        lf, rf = fresh[:nl], fresh[nl:] or ["w"]
        if rf == ["w"]:
            vars_["w"] = int(rs.randint(2, 4))
        if mode == "shared":
            rf = [lf[0]] + [n for n in rf if n != lf[0]]
        lt, rt = [], []
        for n in lf:
            deps = [d for d in ("b",) if rs.rand() < 0.4] + ([rf[0]] if mode == "right-binds" and n == lf[0] else [])
            lt.append(_subs_term(rs, n, vars_[n], deps, vars_))
        for n in rf:
            deps = [d for d in ("b", "c") if rs.rand() < 0.4] + ([m for m in lf if rs.rand() < 0.7 and m != n] if mode in ("left-binds", "shared") else [])
            if mode == "left-binds" and n == rf[0] and lf[0] not in deps:
                deps.append(lf[0])
            rt.append(_subs_term(rs, n, vars_[n], deps, vars_))
        try:
            with np.errstate(all="ignore"):
                dl, dr = _subs_delta(lt, vars_), _subs_delta(rt, vars_)
                r = dl + dr
                out, dense = _subs_dense(r, vars_)
        except DECLINE as ex:
            counts.append(f"declined:{type(ex).__name__}")
            return problems, counts, None, None
        keep = set(dl.inputs) | set(dr.inputs)
        if set(out) != keep:
            problems.append(("C14.delta-add-inputs", "inputs of Delta + Delta", str(sorted(keep)), str(out)))
        kind = "delta" if isinstance(r, Delta) else ("scale" if isinstance(r, (Tensor, Number)) else "both")
        fresh_got = sorted(r.fresh) if isinstance(r, Delta) else None
        req = f"C14 delta-add {sx([[n, s] for n, s in vars_.items()])} {sx([_subs_wire(t) for t in lt])} {sx([_subs_wire(t) for t in rt])} {sx(out)}"
    if dense is None:
        counts.append("lazy")
        return problems, counts, None, None

    def checker(ans):
        ps = []
        a = parse_sx("(" + ans + ")")
        if a[0] != "ok":
            return [("infra", ans, "", "")]
        if c["kind"] == "subs":
            mkind, mnames, model, spec = a[1], a[2], a[5], a[6]
        else:
            mkind, mnames, model, spec = a[1], a[2], a[4], a[5]
        model = np.array([float(atom_to_num(x)) for x in model]).reshape(dense.shape)
        spec = np.array([float(atom_to_num(x)) for x in spec]).reshape(dense.shape)
        if not np.array_equal(model, spec):
            return [("infra", "Lean model and Lean spec disagree (contradicts deltaSubs_sem / addMultidelta_sem)", str(spec.tolist()), str(model.tolist()))]
        if not np.allclose(dense, spec, rtol=1e-9, atol=1e-12):
            ps.append((f"C14.delta-{c['kind']}-value", f"density of the result over {out} vs the substituted / product density",
                       str(spec.tolist()), str(dense.tolist())))
        counts.append(f"model:{mkind}")
        if c["kind"] == "subs":
            counts.append("shape-agrees" if mkind == kind else f"shape-differs:{mkind}-vs-{kind}")
        if fresh_got is not None:
            counts.append("fresh-agrees" if sorted(str(x) for x in mnames) == fresh_got else "fresh-differs")
        return ps

    return problems, counts, req, checker


SUBS_PY = """
# replay for C14: Delta(terms)(**subs) / Delta + Delta on multi-name Deltas with dependent points, against the dense
# density computed by the Lean model (fv/harness/c14.py run_delta_subs; needs lean/.lake/build/bin/drv_c14)
import sys, subprocess
sys.path.insert(0, {verif!r})
from fv.harness.c14 import run_delta_subs
res = run_delta_subs({case!r})
problems = list(res[0]) if res else []
if res and res[2]:
    ans = subprocess.run([{drv!r}], input=res[2] + "\\n", capture_output=True, text=True).stdout.strip()
    problems += res[3](ans)
for p in problems:
    print(p)
FAILS = bool(problems)
"""


def delta_subs_stream(ctx, n):
    cases, reqs = [], []
    for _ in range(n):
        kind = ctx.rng.choice(["subs", "subs", "add"])
        c = dict(seed=ctx.rng.randrange(2 ** 31), kind=kind,
                 mode=ctx.rng.choice(["left-binds", "left-binds", "right-binds", "concat", "shared"]) if kind == "add" else None)
        res = guarded(ctx, "delta-subs", run_delta_subs, c)
        if res is None:
            ctx.count("delta-subs:skipped")
            continue
        problems, counts, req, checker = res
        if req is None or problems:
            for k_ in counts:
                ctx.count(f"delta-{kind}:" + k_)
            if problems:
                name, prob, exp_, got_ = problems[0]
                ctx.fail("input", name, witness=dict(c, problem=prob), expected=exp_, got=got_,
                         python=SUBS_PY.format(verif=str(_VERIF()), case=c, drv=str(LEAN / ".lake/build/bin/drv_c14")))
            continue
        cases.append((c, counts, checker))
        reqs.append(req)
    if not reqs:
        return
    for (c, counts, checker), ans in zip(cases, ctx.driver.ask(reqs)):
        ps = checker(ans)
        for k_ in counts:
            ctx.count(f"delta-{c['kind']}:" + k_)
        if ps and ps[0][0] == "infra":
            ctx.infra_errors.append(f"delta-subs driver: {ps[0][1]} {ps[0][2]} {ps[0][3]} on {c}")
            continue
        if ps:
            name, prob, exp_, got_ = ps[0]
            ctx.fail("input", name, witness=dict(c, problem=prob), expected=exp_, got=got_,
                     python=SUBS_PY.format(verif=str(_VERIF()), case=c, drv=str(LEAN / ".lake/build/bin/drv_c14")))
            continue
        ctx.count(f"delta-{c['kind']}:ok" + (":" + c["mode"] if c["mode"] else ""))
        ctx.case(sample=c, nontrivial_key=("delta-subs", str(c)))


def delta_streams(ctx, use_driver=True):
    rng = ctx.rng
    n = 200 if ctx.tier == "quick" else 2500
    for _ in range(n):
        guarded(ctx, "delta-eval", delta_eval_case, ctx, gen_delta_case(rng), use_driver=use_driver)
    for _ in range(n):
        guarded(ctx, "delta-reduce", delta_reduce_case, ctx, use_driver=use_driver)
    for _ in range(110 if ctx.tier == "quick" else 1500):
        guarded(ctx, "delta-multi", delta_multi_case, ctx, use_driver=use_driver)
    for _ in range(60 if ctx.tier == "quick" else 1000):
        guarded(ctx, "delta-joint", delta_joint_case, ctx)
    for _ in range(160 if ctx.tier == "quick" else 2000):
        guarded(ctx, "delta-arith", delta_arith_case, ctx)
    for _ in range(70 if ctx.tier == "quick" else 1500):
        guarded(ctx, "delta-dep", delta_dep_case, ctx)
    if use_driver:
        delta_subs_stream(ctx, 120 if ctx.tier == "quick" else 2000)


# --------------------------------------------------------------------------------------
# Gaussian.sample
# --------------------------------------------------------------------------------------

def gen_gauss_case(rng):
    ni = rng.choice([0, 1, 1, 2])
    inames = ["i", "j"][:ni]
    isizes = [rng.choice([1, 2, 3]) for _ in range(ni)]
    nr = rng.choice([1, 2, 2, 3])
    rnames = ["x", "y", "z"][:nr]
    rshapes = [rng.choice([(), (), (1,), (2,)]) for _ in range(nr)]
    dims = [int(np.prod(s)) if s else 1 for s in rshapes]
    dim = sum(dims)
    rank = dim + rng.choice([0, 0, 0, 1, 2])
    mode = rng.choice(["full", "full", "partial"]) if nr >= 2 else "full"
    if mode == "full":
        sampled = list(rnames)
    else:
        m = rng.randint(1, nr - 1)
        sampled = sorted(rng.sample(rnames, m))
    noise = rng.choice(["eager", "eager", "particles", "particles2", "lazy"])
    order = [(n, ("int", k)) for n, k in zip(inames, isizes)] + [(n, ("real", s)) for n, s in zip(rnames, rshapes)]
    rng.shuffle(order)
    seed = rng.randrange(2 ** 31)
    return dict(order=order, rank=rank, sampled=sampled, noise=noise, seed=seed, mode=mode)


def gauss_parts(c):
    rs = np.random.RandomState(c["seed"])
    ishape = tuple(k for _, (t, k) in c["order"] if t == "int")
    dim = sum((int(np.prod(s)) if s else 1) for _, (t, s) in c["order"] if t == "real")
    P = rs.standard_normal(ishape + (dim, c["rank"]))
    # keep P P^T well conditioned
    P = P + 2.0 * np.eye(dim, c["rank"])
    wv = rs.standard_normal(ishape + (c["rank"],))
    inputs = OrderedDict((n, Bint[k] if t == "int" else (Reals[k] if k else Real)) for n, (t, k) in c["order"])
    return P, wv, inputs, ishape, dim


def check_gauss_case(ctx, c):
    rng = ctx.rng
    P, wv, inputs, ishape, dim = gauss_parts(c)
    ctx.count(f"gauss:{c['mode']}:{c['noise']}")
    try:
        g = Gaussian(wv, P, inputs)
    except DECLINE as e:
        ctx.count(f"gauss:build-declined:{type(e).__name__}")
        return
    if not isinstance(g, Gaussian):
        ctx.count("gauss:compressed-on-construction")
        return
    real = [(n, s) for n, (t, s) in c["order"] if t == "real"]
    ints = [(n, k) for n, (t, k) in c["order"] if t == "int"]
    offs, o = {}, 0
    for n, s in real:
        k = int(np.prod(s)) if s else 1
        offs[n] = (o, o + k)
        o += k
    a_idx = [i for n, _ in real if n in c["sampled"] for i in range(*offs[n])]
    b_idx = [i for n, _ in real if n not in c["sampled"] for i in range(*offs[n])]
    da = len(a_idx)
    Lam = P @ np.swapaxes(P, -1, -2)
    info = (P @ wv[..., None])[..., 0]
    if c["noise"] == "particles":
        si = OrderedDict(p=Bint[1 + c["seed"] % 3])                         # sizes 1-3 (a single particle too)
    elif c["noise"] == "particles2":
        si = OrderedDict(p=Bint[1 + c["seed"] % 3], q=Bint[1 + (c["seed"] // 3) % 2])
    elif c["noise"] == "lazy":
        si = OrderedDict(noise=Reals[ishape + (da,)])
    else:
        si = OrderedDict()
    pshape = tuple(int(d.size) for d in si.values() if d.dtype != "real")
    rs = np.random.RandomState(c["seed"] + 1)
    xb = rs.standard_normal(len(b_idx))
    wit = dict(order=[(n, list(v)) for n, v in c["order"]], rank=c["rank"], sampled=c["sampled"],
               noise=c["noise"], seed=c["seed"])
    from ..common import VERIF
    gpy = GAUSS_PY.format(verif=str(VERIF), case=dict(order=[(n, [t, list(k) if isinstance(k, tuple) else k])
                                                               for n, (t, k) in c["order"]],
                                                        rank=c["rank"], sampled=c["sampled"], noise=c["noise"],
                                                        seed=c["seed"], mode=c["mode"]))

    def draw(eps):
        """eps: array pshape + ishape + (da,) -> flat sample of the a-block, same leading shape."""
        def randn_fn(shape):
            if tuple(shape) != tuple(eps.shape):
                raise RuntimeError(f"randn shape {shape}, prepared {eps.shape}")
            return eps
        with RandStub(randn_fn=randn_fn) as st, np.errstate(all="ignore"):
            s = g.sample(frozenset(c["sampled"]), si)
        pts = extract_samples(s)
        if set(pts) != set(c["sampled"]):
            raise RuntimeError(f"sampled names {sorted(pts)} != {sorted(c['sampled'])}")
        cols = []
        order = [(n, int(d.size)) for n, d in si.items() if d.dtype != "real"] + ints
        for n, sh in real:
            if n not in c["sampled"]:
                continue
            pt = pts[n]
            subs = {}
            for m, sh2 in real:
                if m in pt.inputs and m not in c["sampled"]:
                    lo, hi = offs[m]
                    pos = [b_idx.index(i) for i in range(lo, hi)]
                    subs[m] = Tensor(xb[pos].reshape(sh2))
            if "noise" in pt.inputs:
                subs["noise"] = Tensor(eps.reshape(ishape + (da,)))
            if subs:
                pt = pt(**subs)
            t = table(pt, order)
            if t is None:
                return None, s, len(st.calls)
            cols.append(t.reshape(t.shape[:len(order)] + (-1,)))
        return np.concatenate(cols, axis=-1), s, len(st.calls)

    lead = pshape + ishape
    try:
        zero = np.zeros(lead + (da,))
        x0, s0, ncalls = draw(zero)
        if x0 is None:
            ctx.count("gauss:lazy-point")
            return
        want_calls = 0 if c["noise"] == "lazy" else 1
        if ncalls != want_calls:
            ctx.fail("input", "C14.gauss-random-state", witness=wit, python=gpy, expected=f"{want_calls} randn call(s)",
                     got=str(ncalls))
            return
        cols = []
        for k in range(da):
            e = zero.copy()
            e[..., k] = 1.0
            xk, _, _ = draw(e)
            cols.append(xk - x0)
        A = np.stack(cols, axis=-1)             # lead + (da, da): x = x0 + A eps
        eps = rs.standard_normal(lead + (da,))
        xr, _, _ = draw(eps)
        xr2, _, _ = draw(eps)
    except DECLINE as e:
        ctx.count(f"gauss:declined:{type(e).__name__}")
        return
    except RuntimeError as e:
        ctx.fail("input", "C14.gauss-sample-structure", witness=wit, python=gpy, expected="one randn of the noise shape",
                 got=str(e))
        return
    # inputs/output
    want_inputs = dict(inputs)
    want_inputs.update(si)
    if dict(s0.inputs) != want_inputs or s0.output != Real:
        ctx.fail("input", "C14.gauss-sample-inputs", witness=wit, python=gpy, expected=str(sorted(want_inputs)),
                 got=str(sorted(s0.inputs)))
        return
    tol = dict(rtol=1e-7, atol=1e-8)
    if not np.array_equal(xr, xr2):
        ctx.fail("input", "C14.gauss-deterministic", witness=wit, python=gpy, expected="same noise, same sample", got="differs")
        return
    pred = x0 + (A @ eps[..., None])[..., 0]
    if not np.allclose(xr, pred, **tol):
        ctx.fail("input", "C14.gauss-affine", witness=wit, python=gpy, expected=str(pred.tolist()), got=str(xr.tolist()))
        return
    # dense oracle: conditional of a given b
    Laa = Lam[..., a_idx, :][..., :, a_idx]
    rhs = info[..., a_idx]
    if b_idx:
        Lab = Lam[..., a_idx, :][..., :, b_idx]
        rhs = rhs - (Lab @ xb[:, None])[..., 0]
    mu = np.linalg.solve(Laa, rhs[..., None])[..., 0]
    cov = np.linalg.inv(Laa)
    mu_b = np.broadcast_to(mu, lead + (da,))
    cov_b = np.broadcast_to(cov, lead + (da, da))
    if not np.allclose(x0, mu_b, **tol):
        w = dict(wit)
        w["problem"] = "sample at zero noise is not the (conditional) mean"
        ctx.fail("input", "C14.gauss-mean", witness=w, python=gpy, expected=str(mu_b.tolist()), got=str(x0.tolist()))
        return
    AAt = A @ np.swapaxes(A, -1, -2)
    if not np.allclose(AAt, cov_b, **tol):
        w = dict(wit)
        w["problem"] = "A A^T of the affine map noise -> sample is not the (conditional) covariance"
        ctx.fail("input", "C14.gauss-cov", witness=w, python=gpy, expected=str(cov_b.tolist()), got=str(AAt.tolist()))
        return
    # mass: sample.reduce == original.reduce over the sampled variables (full sampling: a Tensor)
    if not b_idx and c["noise"] != "lazy":
        try:
            with np.errstate(all="ignore"):
                m1 = s0.reduce(ops.logaddexp, frozenset(c["sampled"]))
                m0 = g.reduce(ops.logaddexp, frozenset(c["sampled"]))
            order = [(n, int(d.size)) for n, d in si.items()] + ints
            t1, t0 = table(m1, order), table(m0, order)
            # dense oracle of the Gaussian integral
            r2 = (wv ** 2).sum(-1) - (info[..., None, :] @ np.linalg.solve(Lam, info[..., None]))[..., 0, 0]
            dense = 0.5 * dim * math.log(2 * math.pi) - 0.5 * np.linalg.slogdet(Lam)[1] - 0.5 * r2
            if t1 is not None and t0 is not None:
                if not np.allclose(t1, t0, **tol) or not np.allclose(t1, np.broadcast_to(dense, t1.shape), rtol=1e-6, atol=1e-7):
                    ctx.fail("input", "C14.gauss-mass", witness=wit, python=gpy, expected=str(np.asarray(dense).tolist()),
                             got=str(t1.tolist()))
                    return
                ctx.count("gauss:mass-checked")

                def gfail(nm, prob, exp_, got_):
                    w = dict(wit)
                    w["problem"] = prob
                    ctx.fail("input", nm, witness=w, python=gpy, expected=exp_, got=got_)
                if order and not joint_reductions(ctx, "gaussian", s0, c["sampled"], order, t1, gfail):
                    return
                if order:
                    v0, sh0 = next((n, sh) for n, sh in real if n in c["sampled"])
                    kk = int(np.prod(sh0)) if sh0 else 1
                    ishape_ = tuple(k for _, k in ints)
                    coef = np.round(rs.standard_normal(ishape_ + sh0) * 2) / 2
                    cT = Tensor(coef, OrderedDict((n, Bint[k]) for n, k in ints))
                    xv = Variable(v0, Reals[sh0] if sh0 else Real)
                    fG = (xv * cT).sum() if sh0 else xv * cT
                    blk = x0[..., a_idx.index(offs[v0][0]):a_idx.index(offs[v0][0]) + kk]
                    per = np.exp(t1) * (blk * coef.reshape(ishape_ + (kk,))).sum(-1)
                    if not joint_integrals(ctx, "gaussian", s0, c["sampled"], order, fG, per, gfail):
                        return
        except DECLINE as e:
            ctx.count(f"gauss:reduce-declined:{type(e).__name__}")
    ctx.case(sample=wit, nontrivial_key=("gauss", str(wit)) if da >= 2 or b_idx else None)


GAUSS_PY = """
# replay for C14: Gaussian.sample with injected noise (re-runs the harness' dense numpy comparison:
# Gaussian(white_vec, prec_sqrt) built from RandomState(seed) as in fv/harness/c14.py gauss_parts)
import sys
sys.path.insert(0, {verif!r})
from fv.harness.c14 import replay_gauss
FAILS = replay_gauss({case!r})
"""


def replay_gauss(case):
    from ..common import Ctx
    ctx = Ctx("C14")
    c = dict(case)
    c["order"] = [(n, (t, tuple(k) if isinstance(k, (list, tuple)) else k)) for n, (t, k) in c["order"]]
    check_gauss_case(ctx, c)
    for f in ctx.failures:
        print(f.name, (f.witness or {}).get("problem", ""), "expected", f.expected, "got", f.got)
    return bool(ctx.failures)


def gauss_streams(ctx):
    n = 90 if ctx.tier == "quick" else 1500
    for _ in range(n):
        guarded(ctx, "gauss", check_gauss_case, ctx, gen_gauss_case(ctx.rng))


# --------------------------------------------------------------------------------------
# Contraction._sample: discrete x Gaussian mixtures (Tensor + Gaussian), every inclusion pattern of inputs
# --------------------------------------------------------------------------------------

def gen_mixture_case(rng):
    ni = rng.choice([1, 2, 2, 3, 3, 4])
    inames = ["i", "j", "k", "l"][:ni]
    member = {}
    for n in inames:
        member[n] = rng.choice(["T", "G", "both", "both"])
    if not any(m in ("T", "both") for m in member.values()):
        member[inames[0]] = "both"
    isize = {n: rng.choice([1, 2, 2, 3]) for n in inames}
    nr = rng.choice([1, 1, 2])
    rnames = ["x", "y"][:nr]
    rshape = {n: rng.choice([(), (), (2,)]) for n in rnames}
    allnames = inames + rnames
    m = rng.randint(1, len(allnames))
    sampled = sorted(rng.sample(allnames, m))
    if rng.random() < 0.5:        # the classic request: one shared discrete variable (+ the reals)
        shared = [n for n in inames if member[n] == "both"] or [n for n in inames if member[n] == "T"]
        sampled = sorted(set([rng.choice(shared)] + (rnames if rng.random() < 0.5 else [])))
    particles = rng.choice([0, 1, 1, 2, 3])
    t_order = [n for n in inames if member[n] in ("T", "both")]
    g_order = [n for n in inames if member[n] in ("G", "both")] + rnames
    rng.shuffle(t_order)
    rng.shuffle(g_order)
    return dict(member=member, isize=isize, rshape=rshape, sampled=sampled, particles=particles,
                t_order=t_order, g_order=g_order, seed=rng.randrange(2 ** 31), rank_extra=rng.choice([0, 0, 0, 1]),
                flip=rng.random() < 0.3)


MIX_PY = """
# replay for C14: sampling a Tensor + Gaussian mixture (Contraction._sample) with injected randomness;
# re-runs the harness' dense numpy oracle (fv/harness/c14.py check_mixture_case) on the recorded case
import sys
sys.path.insert(0, {verif!r})
from fv.harness.c14 import replay_mixture
FAILS = replay_mixture({case!r})
"""


def replay_mixture(case):
    from ..common import Ctx
    ctx = Ctx("C14")
    c = dict(case)
    c["rshape"] = {k: tuple(v) for k, v in c["rshape"].items()}
    check_mixture_case(ctx, c)
    for f in ctx.failures:
        print(f.name, (f.witness or {}).get("problem", ""), "expected", f.expected, "got", f.got)
    return bool(ctx.failures)


def check_mixture_case(ctx, c):
    from ..common import VERIF
    rs = np.random.RandomState(c["seed"])
    isize, rshape, member = c["isize"], c["rshape"], c["member"]
    t_order, g_order = c["t_order"], c["g_order"]
    g_ints = [n for n in g_order if n in isize]
    reals = [n for n in g_order if n in rshape]
    dim = sum((int(np.prod(rshape[n])) if rshape[n] else 1) for n in reals)
    rank = dim + c["rank_extra"]
    tshape = tuple(isize[n] for n in t_order)
    tdata = np.round(rs.standard_normal(tshape) * 4) / 4
    tdata = np.where(rs.random_sample(tshape) < 0.2, -np.inf, tdata)
    gshape = tuple(isize[n] for n in g_ints)
    P = rs.standard_normal(gshape + (dim, rank)) + 2.0 * np.eye(dim, rank)
    wv = rs.standard_normal(gshape + (rank,))
    case = dict(c)
    case["rshape"] = {k: list(v) for k, v in rshape.items()}
    wit = dict(case)
    py = MIX_PY.format(verif=str(VERIF), case=case)
    pattern = "+".join(sorted(set(f"{member[n]}{'s' if n in c['sampled'] else 'u'}" for n in isize)))
    ctx.count(f"mixture:pattern:{pattern}")
    try:
        t = Tensor(tdata, OrderedDict((n, Bint[isize[n]]) for n in t_order))
        g = Gaussian(wv, P, OrderedDict((n, Bint[isize[n]] if n in isize else (Reals[rshape[n]] if rshape[n] else Real))
                                        for n in g_order))
        mix = (g + t) if c["flip"] else (t + g)
    except DECLINE as e:
        ctx.count(f"mixture:build-declined:{type(e).__name__}")
        return
    si = OrderedDict(p=Bint[c["particles"]]) if c["particles"] else OrderedDict()
    S = frozenset(c["sampled"])

    def run():
        r1 = np.random.RandomState(c["seed"] + 7)
        with RandStub(rand_fn=lambda shape: np.clip(r1.random_sample(shape), 1e-6, 1 - 1e-6),
                      randn_fn=lambda shape: r1.standard_normal(shape)), np.errstate(all="ignore"):
            return mix.sample(S, si)
    try:
        smp = run()
    except DECLINE as e:
        ctx.count(f"mixture:declined:{type(e).__name__}")
        return
    if smp is mix:
        ctx.count("mixture:no-progress")
        return
    want_inputs = dict(mix.inputs)
    want_inputs.update(si)
    if dict(smp.inputs) != want_inputs or smp.output != Real:
        w = dict(wit)
        w["problem"] = "inputs/output of the sample of a mixture"
        ctx.fail("input", "C14.mixture-inputs", witness=w, expected=str(sorted(want_inputs)),
                 got=str(sorted(smp.inputs)), python=py)
        return
    # exact identity, per particle and per value of the un-sampled integer inputs: the sample's mass over the
    # sampled variables (real variables integrated as well) is  sum_{sampled ints} exp(T) * Z,  Z = Gaussian integral
    red = S | frozenset(reals)
    free = [n for n in isize if n not in S]
    order = ([("p", c["particles"])] if c["particles"] else []) + [(n, isize[n]) for n in free]
    try:
        with np.errstate(all="ignore"):
            mass = smp.reduce(ops.logaddexp, red)
            tm = table(mass, order)
    except DECLINE as e:
        ctx.count(f"mixture:reduce-declined:{type(e).__name__}")
        return
    except KeyError as e:
        w = dict(wit)
        w["problem"] = f"mass of the sample has an unexpected input: {e}"
        ctx.fail("input", "C14.mixture-inputs", witness=w, expected=str(order), got=str(e), python=py)
        return
    if tm is None:
        ctx.count("mixture:mass-lazy")
        return
    Lam = P @ np.swapaxes(P, -1, -2)
    eta = (P @ wv[..., None])[..., 0]
    logz = (0.5 * dim * math.log(2 * math.pi) - 0.5 * np.linalg.slogdet(Lam)[1]
            + 0.5 * (eta[..., None, :] @ np.linalg.solve(Lam, eta[..., None]))[..., 0, 0] - 0.5 * (wv ** 2).sum(-1))
    names = list(isize)

    def expand(arr, have):
        arr = np.asarray(arr).transpose([have.index(n) for n in names if n in have]) if have else np.asarray(arr)
        return arr.reshape([isize[n] if n in have else 1 for n in names])
    joint = expand(tdata, t_order) + expand(logz, g_ints)            # over all integer inputs, in `names` order
    joint = np.broadcast_to(joint, [isize[n] for n in names])
    axes = tuple(k for k, n in enumerate(names) if n in S)
    with np.errstate(all="ignore"):
        mx = np.max(joint, axis=axes, keepdims=True) if axes else joint
        mx = np.where(np.isfinite(mx), mx, 0.0)
        want = (np.log(np.sum(np.exp(joint - mx), axis=axes)) + np.squeeze(mx, axes)) if axes else joint
    want_b = np.broadcast_to(want, tm.shape)
    with np.errstate(all="ignore"):
        ok = np.allclose(np.exp(tm - np.where(np.isfinite(want_b), want_b, 0.0)),
                         np.exp(want_b - np.where(np.isfinite(want_b), want_b, 0.0)), rtol=1e-7, atol=1e-9)
    if not ok:
        w = dict(wit)
        w["problem"] = (f"mass of the sample over the sampled variables {sorted(S)} (reals integrated), per particle and per "
                        f"value of the un-sampled integer inputs {free}")
        ctx.fail("input", "C14.mixture-mass", witness=w, expected=str(want.tolist()), got=str(tm.tolist()), python=py)
        return
    def mfail(nm, prob, exp_, got_):
        w = dict(wit)
        w["problem"] = prob
        ctx.fail("input", nm, witness=w, python=py, expected=exp_, got=got_)
    if order and not joint_reductions(ctx, "mixture", smp, red, order, tm, mfail, max_subsets=4):
        return
    if order and set(reals) <= set(S):
        try:
            ptsm = extract_samples(smp)
            s_int = [n for n in isize if n in S]
            tabs_i = {n: table(ptsm[n], order) for n in s_int if n in ptsm}
            if len(tabs_i) == len(s_int) and all(v is not None for v in tabs_i.values()):
                onames = [n for n, _ in order]
                dep = [n for n in onames if rs.random_sample() < 0.7] or onames[:1]
                fin = [(n, k) for n, k in order if n in dep] + [(n, isize[n]) for n in s_int]
                F = np.round(rs.standard_normal([k for _, k in fin]) * 2) / 2
                fM = Tensor(F, OrderedDict((n, Bint[k]) for n, k in fin)) if fin else Number(2.0)
                per = np.zeros(tm.shape)
                for idx in itertools.product(*[range(k) for _, k in order]):
                    env = dict(zip(onames, idx))
                    env.update({n: int(tabs_i[n][idx]) for n in s_int})
                    fv_ = float(F[tuple(env[n] for n, _ in fin)]) if fin else 2.0
                    per[idx] = math.exp(tm[idx]) * fv_ if np.isfinite(tm[idx]) else 0.0
                if not joint_integrals(ctx, "mixture", smp, red, order, fM, per, mfail, max_subsets=2):
                    return
        except DECLINE + (ValueError,) as e:
            ctx.count(f"mixture:jointint-declined:{type(e).__name__}")
    # support of the sampled discrete variables that the Tensor sees
    try:
        pts = extract_samples(smp)
        t_s = [n for n in t_order if n in S and n in pts]
        if t_s:
            tabs = {n: table(pts[n], order) for n in t_s}
            if all(v is not None for v in tabs.values()):
                tfull = np.broadcast_to(expand(tdata, t_order), [isize[n] for n in names])
                for idx in itertools.product(*[range(v) for _, v in order]):
                    env = dict(zip([n for n, _ in order], idx))
                    if not np.isfinite(want_b[idx]):
                        continue
                    env.update({n: int(tabs[n][idx]) for n in t_s})
                    # remaining sampled integer inputs (Gaussian-only) do not enter the Tensor
                    cell = tfull[tuple(env.get(n, 0) for n in names)]
                    if all(n in env or n not in t_order for n in names) and cell == -np.inf:
                        w = dict(wit)
                        w["problem"] = f"sampled point {dict((n, env[n]) for n in t_s)} at {idx} has probability 0"
                        ctx.fail("input", "C14.mixture-support", witness=w, expected="a cell of the support",
                                 got=str(env), python=py)
                        return
                ctx.count("mixture:support-checked")
    except DECLINE + (ValueError,) as e:
        ctx.count(f"mixture:extract-declined:{type(e).__name__}")
    # same random state -> same sample
    try:
        with np.errstate(all="ignore"):
            tm2 = table(run().reduce(ops.logaddexp, red), order)
        if tm2 is None or not np.array_equal(tm2, tm, equal_nan=True):
            w = dict(wit)
            w["problem"] = "same uniforms and noise, different sample"
            ctx.fail("input", "C14.mixture-deterministic", witness=w, python=py)
            return
    except DECLINE:
        pass
    strict = len(free) > 0
    ctx.count("mixture:free-G-only-input" if any(member[n] == "G" for n in free) else "mixture:other")
    ctx.case(sample={k: case[k] for k in ("member", "isize", "rshape", "sampled", "particles")},
             nontrivial_key=("mixture", str(case)) if strict or len(S) >= 2 else None)


def mixture_streams(ctx):
    n = 150 if ctx.tier == "quick" else 2000
    for _ in range(n):
        guarded(ctx, "mixture", check_mixture_case, ctx, gen_mixture_case(ctx.rng))


# --------------------------------------------------------------------------------------
# The MonteCarlo interpretation: histories of several Integrate / approximate calls on ONE instance
# --------------------------------------------------------------------------------------

def gen_mc_case(rng):
    kind = rng.choice(["tensor", "tensor", "tensor", "gaussian", "mixture", "mixture"])
    ni = {"tensor": rng.choice([2, 2, 3]), "gaussian": rng.choice([0, 1, 2]), "mixture": rng.choice([1, 2, 3])}[kind]
    inames = ["i", "j", "k"][:ni]
    isize = {n: rng.choice([1, 2, 2, 3]) for n in inames}
    member = {n: "T" for n in inames}
    if kind == "gaussian":
        member = {n: "G" for n in inames}
    if kind == "mixture":
        member = {n: rng.choice(["T", "G", "both", "both"]) for n in inames}
        if not any(v in ("T", "both") for v in member.values()):
            member[inames[0]] = "both"
    rshape = {} if kind == "tensor" else {"x": rng.choice([(), (2,)])}
    reals = list(rshape)
    t_vis = [n for n in inames if member[n] in ("T", "both")]
    ncalls = rng.choice([2, 2, 3, 4])
    calls = []
    for t in range(ncalls):
        if kind == "tensor":
            S = sorted(rng.sample(inames, rng.randint(1, ni)))
            f = rng.choice(["one", "one", "support", "holes", "rand", "approx"])
        elif kind == "gaussian":
            S = list(reals)
            f = rng.choice(["one", "one", "x", "rand"])
        else:
            S = sorted(rng.sample(t_vis, rng.randint(0, len(t_vis))) + reals)
            f = rng.choice(["one", "one", "support", "holes", "x", "rand"])
        calls.append([S, f])
    if kind != "gaussian" and rng.random() < 0.6 and len(t_vis) >= 2:
        # a superset first, a strict subset (same measure, a former sampled variable now a batch input) later
        calls[0][0] = sorted(t_vis + reals)
        calls[-1][0] = sorted(rng.sample(t_vis, rng.randint(1, len(t_vis) - 1)) + reals)
    if rng.random() < 0.5:
        rng.shuffle(calls)
    particles = rng.choice([0, 1, 1, 2, 3])
    collide = particles and inames and rng.random() < 0.15
    return dict(kind=kind, isize=isize, member=member, rshape={k: list(v) for k, v in rshape.items()},
                calls=calls, particles=particles, seed=rng.randrange(2 ** 31),
                extra_si=(rng.choice(inames) if collide else None))


MC_PY = """
# replay for C14: a history of Integrate / approximate calls under ONE MonteCarlo instance, with injected
# randomness; re-runs the harness' brute-force oracle (fv/harness/c14.py check_mc_case) on the recorded case
import sys
sys.path.insert(0, {verif!r})
from fv.harness.c14 import replay_mc
FAILS = replay_mc({case!r})
"""


def replay_mc(case):
    from ..common import Ctx
    ctx = Ctx("C14")
    check_mc_case(ctx, dict(case))
    for f in ctx.failures:
        print(f.name, (f.witness or {}).get("problem", ""), "expected", f.expected, "got", f.got)
    return bool(ctx.failures)


def grid_eval(r, order):
    """table(), falling back to point-wise substitution on the grid for results that stay lazy."""
    t = table(r, order)
    if t is not None:
        return t
    out = np.empty([k for _, k in order])
    for idx in itertools.product(*[range(k) for _, k in order]):
        v = r(**{n: int(i) for (n, _), i in zip(order, idx) if n in r.inputs})
        if not isinstance(v, (Tensor, Number)) or v.inputs:
            return None
        out[idx] = float(np.asarray(v.data))
    return out


def check_mc_case(ctx, c):
    from ..common import VERIF
    from funsor.montecarlo import MonteCarlo
    rs = np.random.RandomState(c["seed"])
    kind, isize, member = c["kind"], c["isize"], c["member"]
    rshape = {k: tuple(v) for k, v in c["rshape"].items()}
    names = list(isize)
    reals = list(rshape)
    t_order = [n for n in names if member[n] in ("T", "both")]
    g_ints = [n for n in names if member[n] in ("G", "both")]
    py = MC_PY.format(verif=str(VERIF), case=c)
    ctx.count(f"mc:kind:{kind}:calls={len(c['calls'])}")

    def expand(arr, have):
        arr = np.asarray(arr)
        return arr.reshape([isize[n] if n in have else 1 for n in names])
    tdata = logz = None
    try:
        parts = []
        if kind != "gaussian":
            tshape = tuple(isize[n] for n in t_order)
            tdata = np.round(rs.standard_normal(tshape) * 4) / 4
            tdata = np.where(rs.random_sample(tshape) < 0.25, -np.inf, tdata)
            parts.append(Tensor(tdata, OrderedDict((n, Bint[isize[n]]) for n in t_order)))
        if kind != "tensor":
            dim = sum((int(np.prod(v)) if v else 1) for v in rshape.values())
            gshape = tuple(isize[n] for n in g_ints)
            P = rs.standard_normal(gshape + (dim, dim)) + 2.0 * np.eye(dim)
            wv = rs.standard_normal(gshape + (dim,))
            parts.append(Gaussian(wv, P, OrderedDict([(n, Bint[isize[n]]) for n in g_ints]
                                                     + [(n, Reals[v] if v else Real) for n, v in rshape.items()])))
            Lam = P @ np.swapaxes(P, -1, -2)
            eta = (P @ wv[..., None])[..., 0]
            logz = (0.5 * dim * math.log(2 * math.pi) - 0.5 * np.linalg.slogdet(Lam)[1]
                    + 0.5 * (eta[..., None, :] @ np.linalg.solve(Lam, eta[..., None]))[..., 0, 0] - 0.5 * (wv ** 2).sum(-1))
        m = parts[0] if len(parts) == 1 else parts[0] + parts[1]
    except DECLINE as e:
        ctx.count(f"mc:build-declined:{type(e).__name__}")
        return
    joint = np.zeros([isize[n] for n in names])
    if tdata is not None:
        joint = joint + expand(tdata, t_order)
    if logz is not None:
        joint = joint + expand(logz, g_ints)
    si = OrderedDict()
    if c["particles"]:
        si["particle"] = Bint[c["particles"]]
    if c["extra_si"]:
        si[c["extra_si"]] = Bint[2]        # named like an input of the measure: must be ignored, not consumed
    si_before = OrderedDict(si)
    eff_si = [(n, int(d.size)) for n, d in si.items() if n not in m.inputs]

    def integrand(fk, S):
        if fk in ("one", "approx"):
            return Number(1.0)
        if fk in ("support", "holes") and tdata is not None:
            ind = np.isfinite(tdata) if fk == "support" else ~np.isfinite(tdata)
            return Tensor(ind.astype(np.float64), OrderedDict((n, Bint[isize[n]]) for n in t_order))
        if fk == "x" and reals:
            v = Variable("x", Reals[rshape["x"]] if rshape["x"] else Real)
            return v.sum() if rshape["x"] else v
        r2 = np.random.RandomState(c["seed"] + 13)
        sub = [n for n in names if r2.random_sample() < 0.7] or names[:1]
        if not sub:
            return Number(2.0)
        return Tensor(np.round(r2.standard_normal([isize[n] for n in sub]) * 2) / 2,
                      OrderedDict((n, Bint[isize[n]]) for n in sub))

    def one_call(mc, t, S, fk):
        r1 = np.random.RandomState(c["seed"] + 101 * (t + 1))
        with RandStub(rand_fn=lambda shape: np.clip(r1.random_sample(shape), 1e-6, 1 - 1e-6),
                      randn_fn=lambda shape: r1.standard_normal(shape)), np.errstate(all="ignore"):
            with mc:
                if fk == "approx":
                    return m.approximate(ops.logaddexp, m, frozenset(S))
                return Integrate(m, integrand(fk, S), frozenset(S))

    def observe(r, S, fk):
        if fk == "approx":
            r = r.reduce(ops.logaddexp, frozenset(S))
        free = [n for n in names if n not in S]
        order = eff_si + [(n, isize[n]) for n in free]
        extra = set(r.inputs) - {n for n, _ in order}
        with np.errstate(all="ignore"):
            t = grid_eval(r, order) if not extra else None
            if t is not None and fk == "approx":
                t = np.exp(t)         # the approximation lives in log space
        return order, extra, t

    mc = MonteCarlo(**si)
    results = []
    for t, (S, fk) in enumerate(c["calls"]):
        try:
            r = one_call(mc, t, S, fk)
        except DECLINE as e:
            ctx.count(f"mc:declined:{type(e).__name__}")
            results.append(None)
            continue
        results.append(r)
    if OrderedDict(mc.sample_inputs) != si_before or si != si_before:
        w = dict(c)
        w["problem"] = "the sample_inputs of the MonteCarlo instance were modified by sampling"
        ctx.fail("input", "C14.mc-sample-inputs", witness=w, expected=str(list(si_before)), got=str(list(mc.sample_inputs)),
                 python=py)
        return
    checked = 0
    for t, (S, fk) in enumerate(c["calls"]):
        r = results[t]
        if r is None:
            continue
        w = dict(c)
        w["call"] = t
        try:
            order, extra, tab = observe(r, S, fk)
        except DECLINE as e:
            ctx.count(f"mc:observe-declined:{type(e).__name__}")
            continue
        free = [n for n in names if n not in S]
        if extra:
            w["problem"] = f"call {t} ({fk} over {S}): result has inputs {sorted(extra)} that were integrated out / are not inputs"
            ctx.fail("input", "C14.mc-inputs", witness=w, expected=str([n for n, _ in order]), got=str(sorted(r.inputs)),
                     python=py)
            return
        # exact inputs: every requested sample input (with its size, a single particle included) is an input of the
        # result; the approximation itself has exactly the measure's inputs plus the sample inputs
        got_in = {n: int(d.size) for n, d in r.inputs.items() if d.dtype != "real"}
        if any(got_in.get(n) != k for n, k in eff_si) or (
                fk == "approx" and set(r.inputs) != set(m.inputs) | {n for n, _ in eff_si}):
            w["problem"] = (f"call {t} ({fk} over {S}): the result must carry every requested sample input "
                            f"{eff_si} (one entry per particle)")
            ctx.fail("input", "C14.mc-inputs", witness=w, expected=str(eff_si), got=str(sorted(r.inputs.items())), python=py)
            return
        if tab is None:
            ctx.count("mc:lazy-result")
            continue
        if fk in ("one", "approx", "support", "holes"):
            axes = tuple(k for k, n in enumerate(names) if n in S)
            with np.errstate(all="ignore"):
                mass = np.exp(joint).sum(axis=axes) if axes else np.exp(joint)
            want = np.zeros_like(mass) if fk == "holes" else mass
            want_b = np.broadcast_to(want, tab.shape)
            if fk == "approx" and np.isnan(tab[want_b == 0]).any():
                # sample + model - guide is (-inf) - (-inf) on a slice of zero mass: not a value, nothing to compare
                ctx.count("mc:approx-nan-on-zero-mass-slice")
                tab = np.where((want_b == 0) & np.isnan(tab), 0.0, tab)
            if not np.allclose(tab, want_b, rtol=1e-7, atol=1e-12):
                w["problem"] = (f"call {t} of the history: Integrate/approximate of the measure with integrand '{fk}' over {S}: "
                                f"mass per particle and per value of {free}")
                ctx.fail("input", "C14.mc-mass" if fk != "holes" else "C14.mc-support", witness=w,
                         expected=str(want.tolist()), got=str(tab.tolist()), python=py)
                return
        if fk == "approx" and order and not np.isnan(tab).any() and (tab > 0).all():
            def afail(nm, prob, exp_, got_, w=w):
                w = dict(w)
                w["problem"] = f"call {t}: " + prob
                ctx.fail("input", nm, witness=w, python=py, expected=exp_, got=got_)
            if not joint_reductions(ctx, "mc-approx", r, S, order, np.log(tab), afail, max_subsets=3):
                return
        # history-independence: a fresh instance given the same random state returns the same value
        try:
            rf = one_call(MonteCarlo(**si), t, S, fk)
            _, extra_f, tab_f = observe(rf, S, fk)
        except DECLINE:
            continue
        if tab_f is not None and not extra_f and not np.array_equal(np.nan_to_num(tab, nan=0.0), np.nan_to_num(tab_f, nan=0.0)):
            w["problem"] = (f"call {t} ({fk} over {S}) after {c['calls'][:t]} differs from the same call on a fresh "
                            "MonteCarlo instance with the same random state")
            ctx.fail("input", "C14.mc-history", witness=w, expected=str(tab_f.tolist()), got=str(tab.tolist()), python=py)
            return
        checked += 1
    ctx.count("mc:calls-checked", checked)
    ctx.case(sample={k: c[k] for k in ("kind", "isize", "member", "calls", "particles")},
             nontrivial_key=("mc", str(c)) if checked >= 2 else None)


def mc_streams(ctx):
    n = 120 if ctx.tier == "quick" else 1500
    for _ in range(n):
        guarded(ctx, "mc", check_mc_case, ctx, gen_mc_case(ctx.rng))


# --------------------------------------------------------------------------------------
# The Precondition interpretation: reparametrised samples of Gaussians and Gaussian mixtures
# --------------------------------------------------------------------------------------

def gen_pre_case(rng):
    ints = {}
    if rng.random() < 0.7:
        ints["i"] = ("both", rng.choice([1, 2, 3]))
    if rng.random() < 0.3:
        ints["j"] = ("T", rng.choice([2, 3]))
    if rng.random() < 0.3:
        ints["k"] = ("G", rng.choice([2, 3]))
    rshape = {"x": rng.choice([(), (2,)])}
    if rng.random() < 0.45:
        rshape["y"] = rng.choice([(), (), (2,)])
    guide = rng.choice(["G", "T+G", "T+G", "G+T", "N+G"])
    model = rng.choice(["same", "same", "mix2", "gauss2", "plusT"])
    approx = ["x"] if ("y" in rshape and rng.random() < 0.35) else sorted(rshape)
    route = "approximate"
    if model == "same" and approx == sorted(rshape) and guide != "N+G" and rng.random() < 0.4:
        route = "fb"
    return dict(ints={k: list(v) for k, v in ints.items()}, rshape={k: list(v) for k, v in rshape.items()},
                guide=guide, model=model, approx=approx, route=route, seed=rng.randrange(2 ** 31))


PRE_PY = """
# replay for C14: reparametrised sampling under the Precondition interpretation; re-runs the harness' dense
# closed-form oracle (fv/harness/c14.py check_pre_case) on the recorded case
import sys
sys.path.insert(0, {verif!r})
from fv.harness.c14 import replay_pre
FAILS = replay_pre({case!r})
"""


def replay_pre(case):
    from ..common import Ctx
    ctx = Ctx("C14")
    check_pre_case(ctx, dict(case))
    for f in ctx.failures:
        print(f.name, (f.witness or {}).get("problem", ""), "expected", f.expected, "got", f.got)
    return bool(ctx.failures)


def check_pre_case(ctx, c):
    from ..common import VERIF
    from funsor.precondition import Precondition
    from funsor.interpretations import reflect
    rs = np.random.RandomState(c["seed"])
    ints = {k: tuple(v) for k, v in c["ints"].items()}
    rshape = {k: tuple(v) for k, v in c["rshape"].items()}
    isize = {n: v[1] for n, v in ints.items()}
    names = list(ints)
    t_ints = [n for n in names if ints[n][0] in ("T", "both")]
    g_ints = [n for n in names if ints[n][0] in ("G", "both")]
    reals = list(rshape)
    numel = {n: (int(np.prod(v)) if v else 1) for n, v in rshape.items()}
    offs, o = {}, 0
    for n in reals:
        offs[n] = list(range(o, o + numel[n]))
        o += numel[n]
    dim = o
    approx = list(c["approx"])
    a_idx = [k for n in approx for k in offs[n]]
    b_idx = [k for n in reals if n not in approx for k in offs[n]]
    da = len(a_idx)
    py = PRE_PY.format(verif=str(VERIF), case=c)
    ctx.count(f"pre:{c['route']}:guide={c['guide']}:model={c['model']}:{'partial' if b_idx else 'full'}")

    def mk_gauss(gi):
        sh = tuple(isize[n] for n in gi)
        P = rs.standard_normal(sh + (dim, dim)) + 2.0 * np.eye(dim)
        wv = rs.standard_normal(sh + (dim,))
        f = Gaussian(wv, P, OrderedDict([(n, Bint[isize[n]]) for n in gi]
                                        + [(n, Reals[rshape[n]] if rshape[n] else Real) for n in reals]))
        return f, ("G", P, wv, list(gi))

    def mk_tensor(ti):
        data = np.round(rs.standard_normal(tuple(isize[n] for n in ti)) * 4) / 4
        return Tensor(data, OrderedDict((n, Bint[isize[n]]) for n in ti)), ("T", data, list(ti))
    try:
        g, gpart = mk_gauss(g_ints)
        guide_parts = [gpart]
        if c["guide"] in ("T+G", "G+T"):
            w, wpart = mk_tensor(t_ints)
            guide = (w + g) if c["guide"] == "T+G" else (g + w)
            guide_parts.append(wpart)
        elif c["guide"] == "N+G":
            guide = Number(0.5) + g
            guide_parts.append(("N", 0.5))
        else:
            guide = g
        if c["model"] == "same":
            model, model_parts = guide, guide_parts
        elif c["model"] == "mix2":
            g2, g2part = mk_gauss(g_ints[:1] if rs.random_sample() < 0.5 else g_ints)
            w2, w2part = mk_tensor(t_ints)
            model, model_parts = w2 + g2, [g2part, w2part]
        elif c["model"] == "gauss2":
            g2, g2part = mk_gauss(g_ints)
            model, model_parts = g2, [g2part]
        else:
            t3, t3part = mk_tensor(names[:1])
            model, model_parts = guide + t3, guide_parts + [t3part]
    except DECLINE as e:
        ctx.count(f"pre:build-declined:{type(e).__name__}")
        return
    if not isinstance(g, Gaussian):
        ctx.count("pre:gaussian-compressed")
        return

    def dense(parts, env, z):
        tot = 0.0
        for part in parts:
            if part[0] == "N":
                tot += part[1]
            elif part[0] == "T":
                tot += float(part[1][tuple(env[n] for n in part[2])])
            else:
                _, P, wv, gi = part
                b = tuple(env[n] for n in gi)
                tot += -0.5 * float(((z @ P[b] - wv[b]) ** 2).sum())
        return tot
    _, P, wv, _ = gpart
    Lam = P @ np.swapaxes(P, -1, -2)
    eta = (P @ wv[..., None])[..., 0]
    yb = rs.standard_normal(len(b_idx))
    Laa = Lam[..., a_idx, :][..., :, a_idx]
    r = eta[..., a_idx]
    const = -0.5 * (wv ** 2).sum(-1)
    if b_idx:
        Lab = Lam[..., a_idx, :][..., :, b_idx]
        Lbb = Lam[..., b_idx, :][..., :, b_idx]
        r = r - (Lab @ yb[:, None])[..., 0]
        const = const - 0.5 * (yb[None, :] @ Lbb @ yb[:, None])[..., 0, 0] + (eta[..., b_idx] * yb).sum(-1)
    cmean = np.linalg.solve(Laa, r[..., None])[..., 0]
    ccov = np.linalg.inv(Laa)
    logint = (0.5 * da * math.log(2 * math.pi) - 0.5 * np.linalg.slogdet(Laa)[1]
              + 0.5 * (r[..., None, :] @ np.linalg.solve(Laa, r[..., None]))[..., 0, 0] + const)
    gshape = tuple(isize[n] for n in g_ints)
    avars = frozenset(approx)
    ysubs = {}
    for n in reals:
        if n not in approx:
            ysubs[n] = Tensor(yb[[b_idx.index(k) for k in offs[n]]].reshape(rshape[n]))
    all_order = [(n, isize[n]) for n in names]
    g_order = [(n, isize[n]) for n in g_ints]
    wit = dict(c)
    try:
        with np.errstate(all="ignore"):
            if c["route"] == "approximate":
                with Precondition() as pc:
                    q = model.approximate(ops.logaddexp, guide, avars)
                fwd = None
            else:
                from funsor.adjoint import forward_backward
                with reflect:
                    log_z = guide.reduce(ops.logaddexp, avars)
                with Precondition() as pc:
                    fwd, marginals = forward_backward(ops.logaddexp, ops.add, log_z, batch_vars=pc.sample_vars)
                q = marginals[g] + g
    except DECLINE + (KeyError,) as e:
        ctx.count(f"pre:declined:{type(e).__name__}")
        return
    aux = list(pc.sample_inputs.items())
    if len(aux) != 1 or tuple(aux[0][1].shape) != gshape + (da,):
        w_ = dict(wit)
        w_["problem"] = "auxiliary white-noise input(s) of the preconditioned sample"
        ctx.fail("input", "C14.pre-inputs", witness=w_, expected=f"one input of shape {gshape + (da,)}",
                 got=str([(k, tuple(v.shape)) for k, v in aux]), python=py)
        return
    aux_name = aux[0][0]
    need = set(model.inputs) | {aux_name}
    allowed = need | set(guide.inputs)
    if not (need <= set(q.inputs) <= allowed) or q.output != Real:
        w_ = dict(wit)
        w_["problem"] = "inputs of the preconditioned sample"
        ctx.fail("input", "C14.pre-inputs", witness=w_, expected=f"{sorted(need)} (+ guide inputs)",
                 got=str(sorted(q.inputs)), python=py)
        return

    def point_at(noise):
        pts = extract_samples(q)
        cols = []
        for n in approx:
            pt = pts[n](**{aux_name: Tensor(noise)}, **{k: v for k, v in ysubs.items() if k in pts[n].inputs})
            t = table(pt, g_order)
            if t is None:
                return None
            cols.append(t.reshape(gshape + (-1,)))
        return np.concatenate(cols, -1)
    tol = dict(rtol=1e-7, atol=1e-8)
    try:
        with np.errstate(all="ignore"):
            zero = np.zeros(gshape + (da,))
            x0 = point_at(zero)
            if x0 is None:
                ctx.count("pre:lazy-point")
                return
            cols = []
            for k in range(da):
                e = zero.copy()
                e[..., k] = 1.0
                cols.append(point_at(e) - x0)
            A = np.stack(cols, -1)
            trials = []
            for _ in range(2):
                noise = rs.standard_normal(gshape + (da,))
                xs = point_at(noise)
                mass = q.reduce(ops.logaddexp, avars)(**{aux_name: Tensor(noise)},
                                                      **{k: v for k, v in ysubs.items()})
                trials.append((noise, xs, table(mass, all_order)))
    except DECLINE + (KeyError,) as e:
        ctx.count(f"pre:observe-declined:{type(e).__name__}")
        return
    if not np.allclose(x0, cmean, **tol):
        w_ = dict(wit)
        w_["problem"] = "Delta point at zero noise is not the (conditional) mean of the guide's Gaussian"
        ctx.fail("input", "C14.pre-mean", witness=w_, expected=str(cmean.tolist()), got=str(x0.tolist()), python=py)
        return
    if not np.allclose(A @ np.swapaxes(A, -1, -2), ccov, **tol):
        w_ = dict(wit)
        w_["problem"] = "A A^T of the affine map noise -> point is not the (conditional) covariance"
        ctx.fail("input", "C14.pre-cov", witness=w_, expected=str(ccov.tolist()),
                 got=str((A @ np.swapaxes(A, -1, -2)).tolist()), python=py)
        return
    for noise, xs, tm in trials:
        if not np.allclose(xs, x0 + (A @ noise[..., None])[..., 0], **tol):
            w_ = dict(wit)
            w_["problem"] = "Delta point is not affine in the noise"
            ctx.fail("input", "C14.pre-affine", witness=w_, python=py)
            return
        if tm is None:
            ctx.count("pre:mass-lazy")
            continue
        want = np.empty([k for _, k in all_order])
        for idx in itertools.product(*[range(k) for _, k in all_order]):
            env = dict(zip(names, idx))
            gb = tuple(env[n] for n in g_ints)
            z = np.zeros(dim)
            z[a_idx] = xs[gb]
            z[b_idx] = yb
            # importance identity: mass = int exp(g') + model(x*) - g'(x*)   (= weights + normaliser when model = guide)
            want[idx] = logint[gb] + dense(model_parts, env, z) - dense([gpart], env, z)
        if not np.allclose(tm, want, rtol=1e-7, atol=1e-7):
            w_ = dict(wit)
            w_["problem"] = ("total mass of the preconditioned sample over the sampled reals, per batch element, at a noise "
                             "value: expected  log int exp g' + model(x*) - g'(x*)"
                             + ("  = weights + log-normaliser (model = guide)" if c["model"] == "same" else ""))
            ctx.fail("input", "C14.pre-mass", witness=w_, expected=str(want.tolist()), got=str(tm.tolist()), python=py)
            return
    noise, xs, tm = trials[-1]
    if tm is not None and all_order:
        def pfail(nm, prob, exp_, got_):
            w_ = dict(wit)
            w_["problem"] = prob
            ctx.fail("input", nm, witness=w_, python=py, expected=exp_, got=got_)
        post = lambda r_: r_(**{k: v for k, v in {aux_name: Tensor(noise), **ysubs}.items() if k in r_.inputs})
        if not joint_reductions(ctx, "precondition", q, avars, all_order, tm, pfail, post=post, max_subsets=3):
            return
    if fwd is not None:
        tf = table(fwd, all_order)
        want = np.empty([k for _, k in all_order])
        for idx in itertools.product(*[range(k) for _, k in all_order]):
            env = dict(zip(names, idx))
            gb = tuple(env[n] for n in g_ints)
            z = np.zeros(dim)
            want[idx] = logint[gb] + dense(guide_parts, env, z) - dense([gpart], env, z)
        if tf is not None and not np.allclose(tf, want, rtol=1e-7, atol=1e-7):
            w_ = dict(wit)
            w_["problem"] = "forward value of forward_backward under Precondition is not log Z"
            ctx.fail("input", "C14.pre-forward", witness=w_, expected=str(want.tolist()), got=str(tf.tolist()), python=py)
            return
    ctx.case(sample={k: c[k] for k in ("ints", "rshape", "guide", "model", "approx", "route")},
             nontrivial_key=("pre", str(c)))


def pre_streams(ctx):
    n = 70 if ctx.tier == "quick" else 1200
    for _ in range(n):
        guarded(ctx, "pre", check_pre_case, ctx, gen_pre_case(ctx.rng))


# --------------------------------------------------------------------------------------
# Mixed radix: exhaustive over a box, model vs numpy's own unravel (validates the model's flattening)
# --------------------------------------------------------------------------------------

def radix_box(ctx):
    reqs, want = [], []
    for k in (1, 2, 3):
        for sizes in itertools.product([1, 2, 3, 4], repeat=k):
            for m in range(int(np.prod(sizes))):
                idx = [int(v) for v in np.unravel_index(m, sizes)]
                reqs.append(f"C14 decode {sx(list(sizes))} {m}")
                want.append("ok " + sx(idx))
                reqs.append(f"C14 encode {sx(list(sizes))} {sx(idx)}")
                want.append(f"ok {m}")
    ans = ctx.driver.ask(reqs)
    for r, a, w in zip(reqs, ans, want):
        if a != w:
            ctx.infra_errors.append(f"Lean mixed radix != numpy unravel_index: {r} -> {a}, expected {w}")
            return
    ctx.count("radix:box-requests", len(reqs))


# --------------------------------------------------------------------------------------

def correspond(ctx):
    ctx.rule = (
        "Tensor.sample: every shape over 1-3 inputs of sizes 1-4 x every non-empty subset of sampled variables "
        "(thorough: 5 data draws each; quick: all 1-2 input shapes, half of the 3-input ones) + random cases; weights in {0,1/4,1/2,1,2,3,4} (0 = -inf logit) incl. {0,1} "
        "tensors and all-zero rows; 0-2 sample inputs (sizes 1-3, sometimes named like an existing input); uniforms "
        "chosen by the harness through a stub of numpy.random.rand, over its whole range [0,1): exactly 0.0, 2^-60, "
        "0.5, 1-k*2^-53 (k=1..8), a coarse grid, exact CDF boundaries (dyadic rows), boundary +-1e-6/1e-4, seeded "
        "streams; a dedicated stream of rows whose float cumsum ends below 1 with leading/interior/trailing zero "
        "cells (e.g. [0,1/4,7,1/4], [1/4,7,1/4,0], up to 64 cells) drawn at 0.0 and in the top ulps; plus a 64-point "
        "even grid of uniforms per batch element (law check).  The draw statement of Tensor._sample is re-read from "
        "the source on every run (Gen/C14Variant.lean) and cross-checked on the live function.  Delta: integer / real / "
        "vector points given as Number, Tensor with 0-2 batch inputs, or a free variable bound afterwards; "
        "log-density 0 / number / tensor / -inf; evaluated at every value of the domain; (Delta+f) and (f+Delta) "
        "reduced by logaddexp and max; Integrate(Delta, f); Deltas binding 2-3 variables (integer, real and vector "
        "points, each batched over a subset of 0-2 batch inputs, unit / number / tensor log-densities, built jointly or "
        "by adding single Deltas) evaluated at all points and reduced / integrated over EVERY subset of their "
        "variables (empty, strict, full), result inputs checked.  Gaussian.sample: 0-2 integer inputs, 1-3 real inputs of "
        "shape () / (1,) / (2,), rank dim..dim+2, full and partial sampling, eager / particle / lazy noise with "
        "numpy.random.randn stubbed.  Mixtures Tensor + Gaussian (Contraction._sample): 1-4 integer inputs each in the "
        "Tensor only / the Gaussian only / both, each sampled or not, 1-2 real inputs, every kind of sampled subset, "
        "0/2/3 particles; gate per particle and per value of the un-sampled integer inputs: mass over the sampled "
        "variables (reals integrated) = sum over sampled ints of exp(T) * textbook Gaussian integral.  MonteCarlo "
        "interpretation: histories of 2-4 Integrate / approximate calls on ONE MonteCarlo instance with the same measure "
        "object (Tensor with -inf cells / Gaussian / mixture), different reduced-variable subsets (superset then strict "
        "subset and all orders) and integrands (1, indicator of the support, indicator of the -inf cells, random Tensor, x); "
        "gates per call: inputs, mass per particle and batch element = brute force, support, sample_inputs not consumed, "
        "equal to the same call on a fresh instance with the same random state.  Precondition interpretation: guides "
        "Gaussian / Tensor+Gaussian / Gaussian+Tensor / Number+Gaussian (integer inputs in both / weights only / Gaussian "
        "only), model = guide or a different mixture / Gaussian / guide+Tensor, 1-2 real inputs (scalar, vector), all or a "
        "strict subset approximated, via approximate() and via forward_backward; gates: one auxiliary noise input of the "
        "documented shape, Delta point affine in the noise with the (conditional) mean / covariance, mass per batch "
        "element and noise value = log int exp g' + model(x*) - g'(x*) in closed form.  Joint reductions: every "
        "sample-producing stream also reduces the sample over its sampled variables AND subsets of its particle / batch "
        "inputs in ONE call (logaddexp: masses add up; max) against brute force over the per-slice masses; direct Deltas "
        "binding 2-3 names whose points share a particle input: n unit Deltas have mass n, (Delta+f) gives sum of f at "
        "the points.  Joint integrals: Integrate(sample, f, sampled + X) for subsets X of the particle / batch inputs "
        "(empty included) with integrands that depend on the sampled variable AND on the batch inputs (Tensor tables; "
        "x * Tensor(i) for Gaussians), one call vs two steps vs brute force sum_X mass(slice) f(slice, point(slice)), on "
        "Tensor / Gaussian / mixture samples and hand-built Delta + weight-table measures.  Delta arithmetic: Delta (1-2 "
        "names; discrete / real / vector; batched, plain or free-variable points; log-density 0 or not) combined by add AND "
        "sub, both operand orders, with a Number, a table over the variable, a lazy expression of x, a Gaussian in x, or a "
        "Tensor not mentioning x; value at / off the point, mass, Integrate against 1 and an integrand vs the point-wise "
        "definition.  Dependent Deltas: Delta(x) + Delta(y, point(x), log-density(x)) (table indexed by a discrete x, affine in "
        "a real x), both operand orders and triples: joint value at / off the point, x gone after reducing it, value = w[b, k].  "
        "Substitution rule / Delta + Delta vs the Lean model (Model/C14Subs): Deltas binding 1-3 integer names with points and "
        "log-densities (weights in {0,1/2,1,2,3}) tabulated over batch inputs and, for sums, over the other operand's names "
        "(left binds / right binds / independent / same name on both sides); substitutions mixing Variables (renaming), "
        "constant and batched integer values, on bound names and on batch inputs; gate: result inputs and the dense "
        "density over all inputs = original density at the substituted environment (resp. product of the two densities), "
        "as proved for the model (deltaSubs_sem, addMultidelta_sem); return shape and bound names counted.  "
        "Non-trivial = a row with >= 2 positive cells (sample), domain size >= 2 "
        "(Delta), >= 2 sampled dimensions or a conditioning block (Gaussian); distinct by full case content.")
    radix_box(ctx)
    sample_streams(ctx)
    rounding_stream(ctx)
    delta_streams(ctx)
    gauss_streams(ctx)
    mixture_streams(ctx)
    mc_streams(ctx)
    pre_streams(ctx)
    d = ctx.distribution
    tot = d.get("sample:fidelity-ok", 0) + d.get("sample:fidelity-differs", 0)
    ctx.extra["sample_model_fidelity"] = (d.get("sample:fidelity-ok", 0) / tot) if tot else None
    ctx.assumptions.append("exact rational arithmetic in the model: rounding of exp / division / cumsum in "
                           "Tensor._sample is not modelled (the rounding guard is proved to be the identity in exact "
                           "arithmetic, clamp_noop); its float behaviour is covered by the correspondence only "
                           "(support/mass gates at r = 0.0 and in the top ulps of [0,1))")
    ctx.assumptions.append("Gaussian sampling is tied by dense numpy comparison (rtol 1e-7) to the mean / covariance "
                           "computed from prec_sqrt and white_vec; gaussian_sample_affine is linear algebra over Q")
    ctx.assumptions.append("Deltas with log_density != 0 are gated for evaluation only; their reduce/Integrate "
                           "results are counted (the property speaks of unit-mass Deltas)")


def search(ctx, broken):
    """A proof, the build or the correspondence broke: hunt for a concrete wrong value with the Python-side
    oracles only (no driver), at ~10x volume, gating on model fidelity as well."""
    rng = ctx.rng

    n0 = sum(1 for f in ctx.failures if f.witness is not None)

    def found():
        return sum(1 for f in ctx.failures if f.witness is not None) > n0
    for _ in range(300):
        rounding_stream_case = gen_sample_case(rng)
        rounding_stream_case["mode"] = rng.choice(["zero", "top", "ulps", "edges"])
        check_sample_case(ctx, rounding_stream_case, use_driver=False, gate_model=False)
        if found():
            return
    for _ in range(3000):
        check_sample_case(ctx, gen_sample_case(rng), use_driver=False, gate_model=True)
        if found():
            return
    for _ in range(600):
        law_case(ctx, gen_sample_case(rng), M=64)
        if found():
            return
    for _ in range(3000):
        delta_eval_case(ctx, gen_delta_case(rng), use_driver=False)
        delta_reduce_case(ctx, use_driver=False)
        delta_multi_case(ctx, use_driver=False)
        delta_joint_case(ctx)
        delta_arith_case(ctx)
        delta_dep_case(ctx)
        if found():
            return
    for _ in range(600):
        check_gauss_case(ctx, gen_gauss_case(rng))
        if found():
            return
    for _ in range(2500):
        check_mixture_case(ctx, gen_mixture_case(rng))
        if found():
            return
    for _ in range(1500):
        check_mc_case(ctx, gen_mc_case(rng))
        if found():
            return
    for _ in range(1000):
        check_pre_case(ctx, gen_pre_case(rng))
        if found():
            return
