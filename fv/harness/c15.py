"""
C15 — Op tables are truthful; ops agree across scalar and array operands; stabilised ops.

  extract(ctx)     regenerates lean/FunsorVerif/Gen/C15OpTables.lean from the LIVE tables of
                   funsor.ops (what every consumer sees), cross-checked against the AST of
                   funsor/ops/{builtin,array,op}.py; obligations `table_*_ok` in Props/C15/*.lean
                   re-elaborate when it changes.
  correspond(ctx)  (1) law grid: every table entry's law evaluated on the REAL ops (scalars + arrays),
                       three-way with the Lean XR evaluator on exact values;
                   (2) boolean semiring exhaustively;
                   (3) agreement grid: Python scalar vs 0-d array vs numpy scalar vs number×array
                       (both orders) vs elementwise arrays of shapes () .. (3,2), every catalogue op;
                   (4) special values: each implementation variant of logaddexp / safesub / safediv /
                       reciprocal / log / max / min against a Python oracle (never NaN on the domain,
                       exact limit at -inf) and against the abstract class + provenance the Lean
                       model predicts (`C15 special OP VARIANT cx cy ord`);
                   (5) numpy primitives vs the Lean transfer functions (`C15 prim …`);
                   (6) logsumexp, log-space einsum, max-plus einsum: limits at -inf and near ±1e308;
                   (7) dedicated stream of the open finding KF-safesub-inf.
  search(ctx, b)   Python-only oracles at higher volume; every live table entry's law is evaluated
                   on the real ops to produce the concrete counter-example of a broken obligation.
"""
import ast
import itertools
import math
import operator
import sys
import warnings
from functools import reduce

import numpy as np

from ..common import LEAN, REPO, parse_sx
from ..futil import funsor, ops  # noqa: F401  (funsor imported from REPO)

warnings.filterwarnings("ignore", category=RuntimeWarning)

INF = math.inf
FMAX = sys.float_info.max
FMIN = sys.float_info.min          # smallest normal
SUB = 5e-324                       # smallest subnormal
TABLES = ["DISTRIBUTIVE_OPS", "UNITS", "BINARY_INVERSES", "SAFE_BINARY_INVERSES",
          "UNARY_INVERSES", "PRODUCT_TO_POWER"]
KNOWN_OPS = ["add", "sub", "mul", "truediv", "pow", "max", "min", "and_", "or_", "xor", "logaddexp",
             "sample", "safesub", "safediv", "neg", "reciprocal"]
GEN_FILE = LEAN / "FunsorVerif" / "Gen" / "C15OpTables.lean"
KF = "KF-safesub-inf"


# ---------------------------------------------------------------------------------------
# small helpers
# ---------------------------------------------------------------------------------------

def hx(v):
    """python literal reproducing the value bit-exactly"""
    if isinstance(v, (bool, np.bool_)):
        return "True" if v else "False"
    if isinstance(v, (int, np.integer)):
        return str(int(v))
    v = float(v)
    if v != v:
        return "float('nan')"
    if math.isinf(v):
        return "float('inf')" if v > 0 else "float('-inf')"
    return f"float.fromhex('{v.hex()}')"


def arr_src(a):
    """python source of a float array, bit-exact"""
    a = np.asarray(a, dtype=np.float64)
    return "np.array([" + ", ".join(hx(v) for v in a.ravel().tolist()) + f"], dtype=float).reshape({a.shape!r})"


def jv(v):
    """json-able rendering of a value / array"""
    if isinstance(v, str):
        return v
    if isinstance(v, np.ndarray):
        return [jv(x) for x in v.tolist()] if v.ndim else jv(v.item())
    if isinstance(v, (list, tuple)):
        return [jv(x) for x in v]
    if isinstance(v, (bool, np.bool_)):
        return bool(v)
    if isinstance(v, (int, np.integer)):
        return int(v)
    if isinstance(v, complex):
        return repr(v)
    try:
        return repr(float(v))
    except Exception:
        return repr(v)


def call(f, *a):
    try:
        return f(*a)
    except Exception as e:   # a decline
        return ("EXC", type(e).__name__)


def is_exc(r):
    return isinstance(r, tuple) and len(r) == 2 and r[0] == "EXC"


def item(v):
    if isinstance(v, np.ndarray):
        return v.item() if v.size == 1 else v
    if isinstance(v, np.generic):
        return v.item()
    return v


def same(a, b, tol=0.0):
    """value equality of two scalars: ==, NaN equals NaN; `tol` relative for transcendental ops"""
    a, b = item(a), item(b)
    if isinstance(a, complex) or isinstance(b, complex):
        return a == b
    try:
        if a != a and b != b:
            return True
        if a == b:
            return True
        if tol and not (math.isinf(a) or math.isinf(b)) and a == a and b == b:
            # one rounding step is `tol`-small only in the normal range: a subnormal result has an absolute
            # ulp of 2**-1074 whatever its size (x/10 vs x*(1/10) at 6.6e-314 differ by 3 such ulps = 4e-11 relative)
            return abs(a - b) <= max(tol * max(abs(a), abs(b)), 4 * 5e-324)
    except Exception:
        return False
    return False


def close12(r, e, tol=1e-12):
    """oracle comparison for transcendental results: equal, or within tol * max(1, |expected|)
    (log(1 + tiny) legitimately rounds to 0, so a purely relative bound is wrong near 0)"""
    r, e = item(r), item(e)
    if same(r, e):
        return True
    if tol == 0.0 or r != r or e != e or math.isinf(r) or math.isinf(e):
        return False
    return abs(r - e) <= tol * max(1.0, abs(e))


def classify(v):
    v = float(item(v))
    if v != v:
        return "nan"
    if v == INF:
        return "pinf"
    if v == -INF:
        return "ninf"
    if v == 0:
        return "nzero" if math.copysign(1.0, v) < 0 else "pzero"
    if v == 1.0:
        return "one"
    return "pos" if v > 0 else "neg"


def order(a, b):
    if a != a or b != b:
        return "eq"
    return "lt" if a < b else ("gt" if a > b else "eq")


def in_classes(c, pred):
    """`one` refines `pos`"""
    return c in pred or (c == "one" and "pos" in pred)


def parse_av(ans):
    """driver answer -> ('raises'|None, classes, tag)"""
    if not ans.startswith("ok "):
        return None
    body = ans[3:]
    if body == "raises":
        return ("raises", [], "none")
    p = parse_sx(body)
    if isinstance(p, list) and len(p) == 2 and isinstance(p[0], list):
        return ("value", [str(x) for x in p[0]], str(p[1]))
    if isinstance(p, list):
        return ("value", [str(x) for x in p], "none")
    return None


PRELUDE = """import math, sys, warnings, operator
from functools import reduce
import numpy as np
warnings.simplefilter("ignore")
import funsor, funsor.ops as ops
inf = math.inf
def call(f, *a):
    try: return f(*a)
    except Exception as e: return ("EXC", type(e).__name__)
def same(a, b, tol=0.0):
    if isinstance(a, tuple) or isinstance(b, tuple): return a == b
    a = a.item() if hasattr(a, "item") else a; b = b.item() if hasattr(b, "item") else b
    if a != a and b != b: return True
    if a == b: return True
    if tol and a == a and b == b and not (math.isinf(a) or math.isinf(b)): return abs(a-b) <= max(tol*max(abs(a),abs(b)), 4*5e-324)   # 4 subnormal ulps
    return False
def close(r, e, tol=1e-12):
    r = r.item() if hasattr(r, "item") else r
    if same(r, e): return True
    if tol == 0.0 or r != r or e != e or math.isinf(r) or math.isinf(e): return False
    return abs(r - e) <= tol * max(1.0, abs(e))
def allclose12(a, b, tol=1e-12):
    a = np.asarray(a); b = np.asarray(b)
    return a.shape == b.shape and all(close(x, y, tol) for x, y in zip(a.ravel().tolist(), b.ravel().tolist()))
def allsame(a, b, tol=0.0):
    a = np.asarray(a); b = np.asarray(b)
    return a.shape == b.shape and all(same(x, y, tol) for x, y in zip(a.ravel().tolist(), b.ravel().tolist()))
"""


# ---------------------------------------------------------------------------------------
# extract: live tables + AST cross-check -> Gen/C15OpTables.lean
# ---------------------------------------------------------------------------------------

def opname(o):
    return getattr(o, "name", None) or getattr(o, "__name__", repr(o))


def uval_name(v):
    if isinstance(v, (bool, np.bool_)):
        return "tt" if v else "ff"
    try:
        f = float(v)
    except Exception:
        return None
    if f == 0.0:
        return "zero"
    if f == 1.0:
        return "one"
    if f == -INF:
        return "ninf"
    if f == INF:
        return "pinf"
    return None


def live_tables():
    t = {}
    t["units"] = sorted((opname(k), uval_name(v) or f"other:{v!r}") for k, v in ops.UNITS.items())
    t["distributive"] = sorted((opname(a), opname(b)) for a, b in ops.DISTRIBUTIVE_OPS)
    t["binaryInverses"] = sorted((opname(k), opname(v)) for k, v in ops.BINARY_INVERSES.items())
    t["safeBinaryInverses"] = sorted((opname(k), opname(v)) for k, v in ops.SAFE_BINARY_INVERSES.items())
    t["unaryInverses"] = sorted((opname(k), opname(v)) for k, v in ops.UNARY_INVERSES.items())
    t["productToPower"] = sorted((opname(k), opname(v)) for k, v in ops.PRODUCT_TO_POWER.items())
    return t


def _ast_value_name(node):
    if isinstance(node, ast.Constant):
        return uval_name(node.value) or f"other:{node.value!r}"
    if isinstance(node, ast.UnaryOp) and isinstance(node.op, ast.USub):
        inner = _ast_value_name(node.operand)
        return {"pinf": "ninf", "ninf": "pinf", "zero": "zero"}.get(inner, f"other:-{inner}")
    if isinstance(node, ast.Attribute) and node.attr == "inf":
        return "pinf"
    if isinstance(node, ast.Name):
        return node.id
    return "other:" + ast.dump(node)[:40]


def _tbl_of(node):
    """Name/Attribute referring to one of the tables -> its name"""
    if isinstance(node, ast.Name) and node.id in TABLES:
        return node.id
    if isinstance(node, ast.Attribute) and node.attr in TABLES:
        return node.attr
    return None


def ast_tables(files):
    key = {"UNITS": "units", "DISTRIBUTIVE_OPS": "distributive", "BINARY_INVERSES": "binaryInverses",
           "SAFE_BINARY_INVERSES": "safeBinaryInverses", "UNARY_INVERSES": "unaryInverses",
           "PRODUCT_TO_POWER": "productToPower"}
    out = {v: [] for v in key.values()}
    sites = []

    def nm(n):
        return n.id if isinstance(n, ast.Name) else (n.attr if isinstance(n, ast.Attribute) else "?")
    for f in files:
        try:
            tree = ast.parse(f.read_text())
        except Exception:
            continue
        for node in ast.walk(tree):
            if isinstance(node, ast.Assign) and len(node.targets) == 1 and isinstance(node.targets[0], ast.Subscript):
                tb = _tbl_of(node.targets[0].value)
                if tb and tb != "DISTRIBUTIVE_OPS":
                    k = nm(node.targets[0].slice)
                    v = _ast_value_name(node.value) if tb == "UNITS" else nm(node.value)
                    out[key[tb]].append((k, v))
                    sites.append(f"{f.name}:{node.lineno} {tb}[{k}]")
            if isinstance(node, ast.Call) and isinstance(node.func, ast.Attribute) and node.func.attr == "add":
                tb = _tbl_of(node.func.value)
                if tb == "DISTRIBUTIVE_OPS" and node.args and isinstance(node.args[0], ast.Tuple) \
                        and len(node.args[0].elts) == 2:
                    a, b = node.args[0].elts
                    out["distributive"].append((nm(a), nm(b)))
                    sites.append(f"{f.name}:{node.lineno} DISTRIBUTIVE_OPS.add")
    return {k: sorted(v) for k, v in out.items()}, sites


def lean_op(n):
    return f"Op.{n}" if n in KNOWN_OPS else f'Op.other "{n}"'


def lean_uval(n):
    return f"UVal.{n}" if n in ("zero", "one", "ninf", "pinf", "tt", "ff") else \
        'UVal.other "' + n.replace('"', "'").replace("\\", "/") + '"'


def render_gen(t):
    def lst(name, doc, rows, second):
        body = ",\n".join(f"  ({lean_op(a)}, {second(b)})" for a, b in rows)
        typ = "Op × UVal" if second is lean_uval else "Op × Op"
        return f"/-- {doc} -/\ndef {name} : List ({typ}) := [\n{body}\n]\n" if rows else \
            f"/-- {doc} -/\ndef {name} : List ({typ}) := []\n"
    parts = [
        "/- GENERATED by fv/harness/c15.py (extract) from funsor/ops/{builtin,array,op}.py — DO NOT EDIT.\n"
        "   Source of truth: the live tables of `funsor.ops` (what every consumer sees), cross-checked\n"
        "   against the AST of the three source files. -/\n"
        "import FunsorVerif.Model.C15\nnamespace FV.C15.Gen\nopen FV.C15\n",
        lst("units", "`UNITS[op] = v`", t["units"], lean_uval),
        lst("distributive", "`DISTRIBUTIVE_OPS.add((sum_op, prod_op))`", t["distributive"], lean_op),
        lst("binaryInverses", "`BINARY_INVERSES[op] = inv`", t["binaryInverses"], lean_op),
        lst("safeBinaryInverses", "`SAFE_BINARY_INVERSES[op] = inv`", t["safeBinaryInverses"], lean_op),
        lst("unaryInverses", "`UNARY_INVERSES[op] = inv`", t["unaryInverses"], lean_op),
        lst("productToPower", "`PRODUCT_TO_POWER[op] = pow_op`", t["productToPower"], lean_op),
        "end FV.C15.Gen\n",
    ]
    return "\n".join(parts)


GUARD_FILE = LEAN / "FunsorVerif" / "Gen" / "C15DtypeGuards.lean"


def dtype_guards():
    """AST of funsor/ops/array.py: every comparison on an operand's dtype inside a function ->
    (registered op name, sorted kinds for which the special branch is taken)"""
    src = (REPO / "funsor" / "ops" / "array.py").read_text()
    tree = ast.parse(src)
    kind_of_name = {"bool": "b", "bool_": "b", "int": "i", "int64": "i", "int32": "i", "uint8": "u", "float": "f",
                    "float64": "f", "float32": "f"}
    out = []
    for fn in ast.walk(tree):
        if not isinstance(fn, ast.FunctionDef):
            continue
        opn = fn.name.lstrip("_")
        for dec in fn.decorator_list:
            d = dec.func if isinstance(dec, ast.Call) else dec
            if isinstance(d, ast.Attribute) and d.attr == "register" and isinstance(d.value, ast.Name):
                opn = d.value.id
        for node in ast.walk(fn):
            if not isinstance(node, ast.Compare) or len(node.ops) != 1:
                continue
            left, right = node.left, node.comparators[0]
            txt = ast.unparse(left)
            if "dtype" not in txt or not isinstance(right, ast.Constant) or not isinstance(right.value, str):
                continue
            if txt.endswith(".dtype.kind") and isinstance(node.ops[0], (ast.In, ast.Eq)):
                kinds = list(right.value)
            elif txt.endswith(".dtype") and isinstance(node.ops[0], ast.Eq):
                kinds = [kind_of_name.get(right.value, "other:" + right.value)]
            else:
                kinds = ["other:" + ast.unparse(node)[:40]]
            out.append((opn, kinds, fn.lineno))
    return out


def render_guards(gs):
    def k(c):
        return f"Kind.{c}" if c in ("b", "i", "u", "f") else 'Kind.other "' + c.replace('"', "'") + '"'

    def f(nm):
        return f"GuardFn.{nm}" if nm in ("log", "safediv") else f'GuardFn.other "{nm}"'
    rows = ",\n".join(f"  ({f(nm)}, [{', '.join(k(c) for c in kinds)}])" for nm, kinds, _ in gs)
    return ("/- GENERATED by fv/harness/c15.py (extract) from funsor/ops/array.py — DO NOT EDIT.\n"
            "   Every test on an operand's dtype (`x.dtype == \"…\"`, `x.dtype.kind in \"…\"`) inside a registered op\n"
            "   implementation: (function, dtype kinds for which the special branch is taken). -/\n"
            "import FunsorVerif.Model.C15\nnamespace FV.C15.Gen\nopen FV.C15\n\n"
            "def dtypeGuards : List (GuardFn × List Kind) := [\n" + rows + "\n]\n\nend FV.C15.Gen\n")


def extract(ctx):
    gs = dtype_guards()
    ctx.extra["dtype_guards"] = [dict(op=a, kinds=b, line=c) for a, b, c in gs]
    gtxt = render_guards(gs)
    if not GUARD_FILE.exists() or GUARD_FILE.read_text() != gtxt:
        GUARD_FILE.write_text(gtxt)
        ctx.count("extract:guards-rewritten")
    live = live_tables()
    opsdir = REPO / "funsor" / "ops"
    astt, sites = ast_tables([opsdir / "builtin.py", opsdir / "array.py", opsdir / "op.py"])
    mism = {k: {"ast_only": sorted(set(astt[k]) - set(live[k])), "live_only": sorted(set(live[k]) - set(astt[k]))}
            for k in live if set(astt[k]) != set(live[k])}
    # writes to the tables anywhere else in funsor (numpy backend): provenance for the evidence
    others = [f for f in (REPO / "funsor").rglob("*.py")
              if "torch" not in f.parts and "jax" not in f.parts and f.parent != opsdir]
    _, other_sites = ast_tables(others)
    ctx.extra["tables"] = {k: [list(e) for e in v] for k, v in live.items()}
    ctx.extra["table_sites"] = sites
    ctx.extra["table_sites_outside_ops"] = other_sites
    ctx.extra["table_ast_vs_live_mismatch"] = mism
    ctx.count("extract:entries", sum(len(v) for v in live.values()))
    if mism:
        ctx.count("extract:ast-vs-live-mismatch", len(mism))
    txt = render_gen(live)
    if not GEN_FILE.exists() or GEN_FILE.read_text() != txt:
        GEN_FILE.write_text(txt)
        ctx.count("extract:gen-rewritten")
    ctx.c15_live = live


# ---------------------------------------------------------------------------------------
# (1) law grid: every live table entry evaluated on the real ops
# ---------------------------------------------------------------------------------------

BOOL_OPS = {"and_", "or_", "xor"}
LOG_OPS = {"logaddexp", "sample"}
NUM_GRID = [0.0, 0.5, 1.0, 2.0, 3.0, -1.0, -2.5, 4.0]
NONNEG_GRID = [0.0, 0.5, 1.0, 2.0, 3.0]
BOOL_GRID = [False, True]


def get_op(name):
    return getattr(ops, name, None)


def carriers(names, extra=()):
    """candidate carriers (label, grid, tol) for a law over the ops `names`, the stated one first"""
    names = set(names)
    if names & BOOL_OPS:
        return [("bool", BOOL_GRID, 0.0)]
    if names & LOG_OPS:
        return [("log", NUM_GRID + [-INF], 1e-12)]
    if "mul" in names and names & {"max", "min"}:
        return [("nonneg", NONNEG_GRID, 0.0)]
    if "max" in names and names <= {"max", "add"}:
        return [("max-plus", NUM_GRID + [-INF], 0.0)]
    if "min" in names and names <= {"min", "add"}:
        return [("min-plus", NUM_GRID + [INF], 0.0)]
    if names <= set(KNOWN_OPS):
        return [("real", NUM_GRID, 1e-12 if names & {"truediv", "safediv", "reciprocal", "pow"} else 0.0)]
    # unknown op: try the numeric carrier, then the boolean one
    return [("real", NUM_GRID, 1e-12), ("bool", BOOL_GRID, 0.0)]


def forms(vals):
    """the same operands as python scalars, as 0-d arrays and as one array each"""
    return vals


def law_unit(name, uname, volume=1):
    """-> (witness dict | None, evaluated count)"""
    op = get_op(name)
    if op is None or op not in ops.UNITS:
        return None, 0
    u = ops.UNITS[op]
    n = 0
    for label, grid, tol in carriers([name]):
        ok_any = False
        for x in grid:
            for form in ("scalar", "0d", "num-arr"):
                xx = x if form == "scalar" else np.asarray(x)
                uu = np.asarray(u) if form == "0d" else u
                r1, r2 = call(op, xx, uu), call(op, uu, xx)
                if is_exc(r1) or is_exc(r2):
                    continue
                ok_any = True
                n += 1
                if not (same(r1, x, tol) and same(r2, x, tol)):
                    return dict(table="UNITS", op=name, unit=jv(u), x=jv(x), form=form, carrier=label,
                                op_x_u=jv(r1), op_u_x=jv(r2), expected=jv(x)), n
        arr = np.asarray(grid)
        r = call(op, arr, u)
        if not is_exc(r):
            n += 1
            if not all(same(a, b, tol) for a, b in zip(np.asarray(r).tolist(), arr.tolist())):
                return dict(table="UNITS", op=name, unit=jv(u), x=jv(arr), form="array", carrier=label,
                            op_x_u=jv(r), expected=jv(arr)), n
        if ok_any:
            break
    return None, n


def law_distrib(s, p, volume=1):
    so, po = get_op(s), get_op(p)
    if so is None or po is None:
        return None, 0
    n = 0
    for label, grid, tol in carriers([s, p]):
        ok_any = False
        for a, b, c in itertools.product(grid, repeat=3):
            for form in ("scalar", "0d"):
                A, B, C = (a, b, c) if form == "scalar" else (np.asarray(a), np.asarray(b), np.asarray(c))
                l1, r1 = call(lambda: po(so(A, B), C)), call(lambda: so(po(A, C), po(B, C)))
                l2, r2 = call(lambda: po(C, so(A, B))), call(lambda: so(po(C, A), po(C, B)))
                if any(is_exc(v) for v in (l1, r1, l2, r2)):
                    continue
                if any(item(v) != item(v) for v in (l1, r1, l2, r2)) and label != "bool":
                    continue   # inf-inf on an extended carrier: outside the carrier
                ok_any = True
                n += 1
                if not (same(l1, r1, tol) and same(l2, r2, tol)):
                    return dict(table="DISTRIBUTIVE_OPS", sum_op=s, prod_op=p, a=jv(a), b=jv(b), c=jv(c),
                                form=form, carrier=label, lhs=jv(l1), rhs=jv(r1), lhs_mirror=jv(l2),
                                rhs_mirror=jv(r2)), n
        if ok_any:
            break
    return None, n


def law_bininv(table, o, inv, volume=1):
    oo, io = get_op(o), get_op(inv)
    if oo is None or io is None:
        return None, 0
    n = 0
    for label, grid, tol in carriers([o, inv]):
        ok_any = False
        for x, y in itertools.product(grid, repeat=2):
            if label != "bool" and o == "mul" and y == 0:
                continue     # inverse away from the zero divisor
            for form in ("scalar", "0d", "num-arr"):
                X = x if form == "scalar" else (np.asarray(x) if form == "0d" else x)
                Y = y if form == "scalar" else np.asarray(y)
                r = call(lambda: io(oo(X, Y), Y))
                if is_exc(r):
                    continue
                ok_any = True
                n += 1
                if not same(r, x, tol or 1e-12 if label == "real" else tol):
                    return dict(table=table, op=o, inverse=inv, x=jv(x), y=jv(y), form=form, carrier=label,
                                got=jv(r), expected=jv(x)), n
        if ok_any:
            break
    return None, n


def law_uninv(o, inv, volume=1):
    oo, io = get_op(o), get_op(inv)
    if oo is None or io is None or oo not in ops.UNITS:
        return None, 0
    u = ops.UNITS[oo]
    n = 0
    for label, grid, tol in carriers([o, inv]):
        ok_any = False
        for x in grid:
            if o == "mul" and x == 0:
                continue
            for form in ("scalar", "0d"):
                X = float(x) if form == "scalar" and label == "real" else (x if form == "scalar" else np.asarray(x))
                r = call(lambda: oo(X, io(X)))
                if is_exc(r):
                    continue
                ok_any = True
                n += 1
                if not same(r, u, 1e-12 if label == "real" else 0.0):
                    return dict(table="UNARY_INVERSES", op=o, inverse=inv, x=jv(x), form=form, carrier=label,
                                got=jv(r), expected=jv(u)), n
        if ok_any:
            break
    return None, n


def law_power(o, pw, volume=1):
    oo, po = get_op(o), get_op(pw)
    if oo is None or po is None:
        return None, 0
    n = 0
    for label, grid, tol in carriers([o, pw]):
        ok_any = False
        for x in grid:
            for k in range(1, 6 * volume):
                for form in ("scalar", "0d"):
                    X = x if form == "scalar" else np.asarray(x)
                    r1 = call(lambda: reduce(oo, [X] * k))
                    r2 = call(po, X, k)
                    if is_exc(r1) or is_exc(r2):
                        continue
                    ok_any = True
                    n += 1
                    if not same(r1, r2, 1e-12 if label == "real" else 0.0):
                        return dict(table="PRODUCT_TO_POWER", op=o, power=pw, x=jv(x), n=k, form=form,
                                    carrier=label, repeated=jv(r1), power_value=jv(r2)), n
        if ok_any:
            break
    return None, n


LAW_PY = {
    "UNITS": """op = ops.{op}; u = ops.UNITS[op]; x = {x}
r1, r2 = call(op, x, u), call(op, u, x)
print("op(x,u) =", r1, " op(u,x) =", r2, " expected", x)
FAILS = not (allsame(r1, x, {tol}) and allsame(r2, x, {tol})) if not (isinstance(r1, tuple) or isinstance(r2, tuple)) else False
""",
    "DISTRIBUTIVE_OPS": """s, p = ops.{s}, ops.{p}; a, b, c = {a}, {b}, {c}
present = (s, p) in ops.DISTRIBUTIVE_OPS
l1, r1 = p(s(a, b), c), s(p(a, c), p(b, c)); l2, r2 = p(c, s(a, b)), s(p(c, a), p(c, b))
print("declared distributive:", present, " (a+b)*c =", l1, " a*c+b*c =", r1, " c*(a+b) =", l2, " c*a+c*b =", r2)
FAILS = present and not (same(l1, r1, {tol}) and same(l2, r2, {tol}))
""",
    "INV": """op, tbl = ops.{op}, ops.{table}; x, y = {x}, {y}
inv = tbl.get(op); r = call(lambda: inv(op(x, y), y)) if inv is not None else x
print("{table}[{op}] =", inv, " inv(op(x,y),y) =", r, " expected", x)
FAILS = not isinstance(r, tuple) and not same(r, x, 1e-12)
""",
    "UNARY_INVERSES": """op = ops.{op}; x = {x}
inv = ops.UNARY_INVERSES.get(op); u = ops.UNITS[op]; r = call(lambda: op(x, inv(x))) if inv is not None else u
print("UNARY_INVERSES[{op}] =", inv, " op(x, inv(x)) =", r, " expected unit", u)
FAILS = not isinstance(r, tuple) and not same(r, u, 1e-12)
""",
    "PRODUCT_TO_POWER": """op = ops.{op}; x, n = {x}, {n}
pw = ops.PRODUCT_TO_POWER.get(op); r1 = reduce(op, [x] * n); r2 = pw(x, n) if pw is not None else r1
print("PRODUCT_TO_POWER[{op}] =", pw, " repeated =", r1, " power =", r2)
FAILS = not same(r1, r2, 1e-12)
""",
}


def py_of_value(v):
    if isinstance(v, list):
        return "np.array([" + ", ".join(py_of_value(x) for x in v) + "])"
    if isinstance(v, bool):
        return "True" if v else "False"
    if isinstance(v, str):
        return hx(float(v))
    return repr(v)


def law_python(w):
    t = w["table"]
    tol = "1e-12" if w.get("carrier") in ("log", "real") else "0.0"
    if t == "UNITS":
        body = LAW_PY["UNITS"].format(op=w["op"], x=py_of_value(w["x"]), tol=tol)
    elif t == "DISTRIBUTIVE_OPS":
        body = LAW_PY["DISTRIBUTIVE_OPS"].format(s=w["sum_op"], p=w["prod_op"], a=py_of_value(w["a"]),
                                                 b=py_of_value(w["b"]), c=py_of_value(w["c"]), tol=tol)
    elif t in ("BINARY_INVERSES", "SAFE_BINARY_INVERSES"):
        body = LAW_PY["INV"].format(op=w["op"], table=t, x=py_of_value(w["x"]), y=py_of_value(w["y"]))
    elif t == "UNARY_INVERSES":
        body = LAW_PY["UNARY_INVERSES"].format(op=w["op"], x=py_of_value(w["x"]))
    else:
        body = LAW_PY["PRODUCT_TO_POWER"].format(op=w["op"], x=py_of_value(w["x"]), n=w["n"])
    return PRELUDE + body


def law_grid(ctx, volume=1, record=True):
    """evaluate every live table entry's law on the real ops; returns number of violations"""
    live = live_tables()
    bad = 0
    jobs = []
    for o, u in live["units"]:
        jobs.append(("units", (o, u), lambda o=o, u=u: law_unit(o, u, volume)))
    for s, p in live["distributive"]:
        jobs.append(("distributive", (s, p), lambda s=s, p=p: law_distrib(s, p, volume)))
    for o, i in live["binaryInverses"]:
        jobs.append(("inverses", (o, i), lambda o=o, i=i: law_bininv("BINARY_INVERSES", o, i, volume)))
    for o, i in live["safeBinaryInverses"]:
        jobs.append(("inverses", (o, i), lambda o=o, i=i: law_bininv("SAFE_BINARY_INVERSES", o, i, volume)))
    for o, i in live["unaryInverses"]:
        jobs.append(("inverses", (o, i), lambda o=o, i=i: law_uninv(o, i, volume)))
    for o, p in live["productToPower"]:
        jobs.append(("power", (o, p), lambda o=o, p=p: law_power(o, p, volume)))
    for kind, entry, job in jobs:
        w, n = job()
        ctx.count(f"law:{kind}:evaluations", n)
        if n == 0:
            ctx.count(f"law:{kind}:not-evaluable")
        if record:
            ctx.case(sample={"table-entry": list(entry), "law-evaluations": n} if kind == "units" else None,
                     nontrivial_key=("law", kind, entry) if n else None)
        if w is not None:
            bad += 1
            ctx.fail("input", f"C15.table-{kind}:{'/'.join(entry)}", witness=w,
                     expected="the law the table entry asserts", got="law violated on the real ops",
                     python=law_python(w))
    return bad


def xr_atom(v):
    if isinstance(v, (bool, np.bool_)):
        return "1" if v else "0"
    v = float(v)
    if v == INF:
        return "inf"
    if v == -INF:
        return "-inf"
    from fractions import Fraction
    f = Fraction(v)
    return str(f.numerator) if f.denominator == 1 else f"{f.numerator}/{f.denominator}"


def exact_eval_tie(ctx):
    """real op on exact (dyadic / ±inf / bool) operands == the Lean XR evaluator used by the other
    properties' drivers (three-way tie of add/sub/mul/max/min/and_/or_/xor)."""
    reqs, meta = [], []
    grid = [0.0, 0.5, 1.0, -1.0, 2.0, -2.5, 3.0, INF, -INF]
    for name in ("add", "sub", "mul", "max", "min"):
        for a, b in itertools.product(grid, repeat=2):
            for form in ("scalar", "0d"):
                r = call(get_op(name), *( (a, b) if form == "scalar" else (np.asarray(a), np.asarray(b)) ))
                if is_exc(r):
                    continue
                reqs.append(f"C15 eval {name} {xr_atom(a)} {xr_atom(b)}")
                meta.append((name, a, b, form, item(r)))
    for name in ("and_", "or_", "xor"):
        for a, b in itertools.product(BOOL_GRID, repeat=2):
            for form in ("scalar", "0d"):
                r = call(get_op(name), *((a, b) if form == "scalar" else (np.asarray(a), np.asarray(b))))
                reqs.append(f"C15 eval {name} {xr_atom(a)} {xr_atom(b)}")
                meta.append((name, a, b, form, item(r)))
    ans = ctx.driver.ask(reqs)
    for (name, a, b, form, r), an in zip(meta, ans):
        ctx.count("exact-eval:cases")
        if not an.startswith("ok "):
            ctx.infra_errors.append(f"driver: {an} for eval {name} {a} {b}")
            return
        tok = an[3:]
        want = float("nan") if tok == "nan" else (INF if tok == "inf" else (-INF if tok == "-inf" else None))
        if want is None:
            from fractions import Fraction
            want = float(Fraction(tok))
        got = float(r)
        if not same(got, want):
            ctx.fail("input", f"C15.exact-eval:{name}", witness=dict(op=name, a=jv(a), b=jv(b), form=form),
                     expected=jv(want), got=jv(got),
                     python=PRELUDE + f"r = ops.{name}({hx(a) if form == 'scalar' else 'np.asarray(' + hx(a) + ')'}, "
                                      f"{hx(b) if form == 'scalar' else 'np.asarray(' + hx(b) + ')'})\n"
                                      f"print(r)\nFAILS = not same(float(r), {hx(want)})\n")


def table_echo(ctx):
    """the tables the Lean obligations were elaborated over are the live ones of this run"""
    live = live_tables()
    names = ["units", "distributive", "binaryInverses", "safeBinaryInverses", "unaryInverses", "productToPower"]
    ans = ctx.driver.ask([f"C15 table {n}" for n in names])
    for n, a in zip(names, ans):
        got = parse_sx(a[3:]) if a.startswith("ok ") else None
        got = sorted((str(x[0]), str(x[1])) for x in got) if isinstance(got, list) else None
        want = sorted((o, v if not v.startswith("other:") else v[6:].replace('"', "'").replace("\\", "/"))
                      for o, v in live[n])
        ctx.count("table-echo")
        if got != want:
            ctx.fail("correspondence", f"C15.table-echo:{n}", witness=dict(table=n, lean=got, live=want))


# ---------------------------------------------------------------------------------------
# (2) boolean semiring, exhaustively
# ---------------------------------------------------------------------------------------

def bool_semiring(ctx):
    B = BOOL_GRID
    A3 = np.array(list(itertools.product(B, repeat=3)))          # all 8 triples, as arrays
    a_, b_, c_ = A3[:, 0], A3[:, 1], A3[:, 2]
    AND, OR, XOR = ops.and_, ops.or_, ops.xor
    py = {"and_": operator.and_, "or_": operator.or_, "xor": operator.xor}

    def bad(name, w, exp, got, code):
        ctx.fail("input", f"C15.bool-semiring:{name}", witness=w, expected=jv(exp), got=jv(got),
                 python=PRELUDE + code)
    for a, b, c in itertools.product(B, repeat=3):
        for form in ("scalar", "0d"):
            cv = (lambda v: v) if form == "scalar" else np.asarray
            x, y, z = cv(a), cv(b), cv(c)
            w = dict(a=a, b=b, c=c, form=form)
            ctx.count("bool-semiring:triples")
            checks = [
                ("and-truth", AND(x, y), a and b), ("or-truth", OR(x, y), a or b), ("xor-truth", XOR(x, y), a != b),
                ("and-assoc", AND(AND(x, y), z), AND(x, AND(y, z))), ("or-assoc", OR(OR(x, y), z), OR(x, OR(y, z))),
                ("xor-assoc", XOR(XOR(x, y), z), XOR(x, XOR(y, z))),
                ("and-comm", AND(x, y), AND(y, x)), ("or-comm", OR(x, y), OR(y, x)),
                ("distrib", AND(OR(x, y), z), OR(AND(x, z), AND(y, z))),
                ("and-unit", AND(x, ops.UNITS[AND]), a), ("or-unit", OR(x, ops.UNITS[OR]), a),
                ("xor-unit", XOR(x, ops.UNITS[XOR]), a), ("xor-self-inverse", XOR(XOR(x, y), y), a),
                ("or-absorbing", OR(x, True), True), ("and-absorbing", AND(x, False), False),
            ]
            for name, got, exp in checks:
                if not same(got, exp):
                    bad(name, w, exp, got,
                        f"a, b, c = {a}, {b}, {c}\nprint('see witness: boolean law {name}')\n"
                        f"FAILS = not (same(ops.and_(a, ops.UNITS[ops.and_]), a) and same(ops.or_(a, ops.UNITS[ops.or_]), a)"
                        f" and same(ops.and_(a, b), a and b) and same(ops.or_(a, b), a or b) and same(ops.xor(a, b), a != b))\n")
                    return
            ctx.case(nontrivial_key=("bool", a, b, c, form))
    # elementwise on the array of all triples
    for name, got, exp in [
        ("and-array", AND(a_, b_), np.logical_and(a_, b_)), ("or-array", OR(a_, b_), np.logical_or(a_, b_)),
        ("xor-array", XOR(a_, b_), np.logical_xor(a_, b_)),
        ("distrib-array", AND(OR(a_, b_), c_), OR(AND(a_, c_), AND(b_, c_))),
        ("and-unit-array", AND(a_, ops.UNITS[AND]), a_), ("or-unit-array", OR(a_, ops.UNITS[OR]), a_),
    ]:
        ctx.count("bool-semiring:array-laws")
        if not np.array_equal(np.asarray(got), np.asarray(exp)):
            bad(name, dict(a=jv(a_), b=jv(b_), c=jv(c_)), exp, got,
                "a = np.array([False, True])\n"
                "FAILS = not (np.array_equal(ops.and_(a, ops.UNITS[ops.and_]), a) and np.array_equal(ops.or_(a, ops.UNITS[ops.or_]), a))\n")
            return


# ---------------------------------------------------------------------------------------
# (3) agreement grid: scalar vs 0-d vs numpy scalar vs number×array vs elementwise
# ---------------------------------------------------------------------------------------

EDGE = [0.0, -0.0, 1.0, -1.0, INF, -INF, FMAX, -FMAX, FMIN, -FMIN, SUB, -SUB]
SHAPES = [(), (1,), (3,), (2, 1), (3, 2)]
FLOAT_BIN = ["add", "sub", "mul", "truediv", "floordiv", "mod", "pow", "max", "min", "eq", "ne", "lt", "le",
             "gt", "ge", "logaddexp", "safesub", "safediv"]
FLOAT_UN = ["abs", "neg", "pos", "exp", "log", "log1p", "sqrt", "reciprocal", "sigmoid", "tanh", "atanh",
            "lgamma"]
INT_BIN = ["add", "sub", "mul", "truediv", "floordiv", "mod", "max", "min", "and_", "or_", "xor", "lshift",
           "rshift", "eq", "ne", "lt", "le", "gt", "ge"]
INT_UN = ["abs", "neg", "pos", "invert"]
BOOL_BIN = ["and_", "or_", "xor", "eq", "ne", "max", "min"]
# transcendental (or, for safediv, "multiply by the rounded reciprocal"): 1e-12 relative; others exact
TRANSC = {"exp", "log", "log1p", "sigmoid", "tanh", "atanh", "lgamma", "logaddexp", "pow", "safediv"}


def random_floats(rng, n):
    out = []
    for _ in range(n):
        k = rng.random()
        if k < 0.25:
            v = rng.choice([0.5, 2.0, 3.0, -2.5, 0.25, 7.0, -0.75, 10.0])
        elif k < 0.5:
            v = rng.gauss(0, 1) * 10 ** rng.randint(-3, 3)
        elif k < 0.65:
            v = rng.choice([-1, 1]) * rng.uniform(1, 9) * 10 ** rng.randint(290, 307)
        elif k < 0.8:
            v = rng.choice([-1, 1]) * rng.uniform(1, 9) * 10 ** rng.randint(-307, -290)
        elif k < 0.9:
            v = rng.choice([-1, 1]) * rng.uniform(600, 760)
        else:
            v = rng.choice([-1, 1]) * rng.uniform(1, 9) * 10 ** rng.randint(-323, -309)   # subnormal
        out.append(float(v))
    return out


def kf_region(name, a, b=None):
    """operand region of the open finding KF-safesub-inf (kept out of the clean stream): the
    unstabilised scalar / (array, Number) variants differ from the clipped array variants exactly
    where the clip acts."""
    if name == "safesub":
        return b == -INF
    if name == "safediv":
        return abs(b) < FMIN
    if name == "reciprocal":
        return abs(a) < FMIN
    return False


def in_domain(name, a, b, s):
    """is (a, b) with scalar result `s` inside the op's domain for the agreement claim?"""
    if is_exc(s):
        return False, "scalar-declines"
    if isinstance(s, complex):
        return False, "complex"
    if isinstance(s, float) and s != s:
        return False, "scalar-nan"
    if name == "log" and not (a >= 0):
        return False, "log-of-negative"
    if name == "pow" and isinstance(a, float) and a < 0 and not (isinstance(b, float) and b.is_integer()):
        return False, "pow-neg-base"
    if name in ("safesub", "safediv", "reciprocal") and kf_region(name, a, b):
        return False, "kf-region"
    if name == "safediv" and (math.isinf(a) and math.isinf(b)):
        return False, "inf/inf"
    return True, ""


def agree_python(name, args, form):
    a = ", ".join(hx(x) for x in args)
    if form == "0d":
        v = ", ".join(f"np.asarray({hx(x)})" for x in args)
    elif form == "npscalar":
        v = ", ".join(f"np.float64({hx(x)})" if isinstance(x, float) else f"np.asarray({hx(x)})[()]" for x in args)
    elif form == "num-arr":
        v = f"{hx(args[0])}, np.asarray({hx(args[1])})"
    elif form == "arr-num":
        v = f"np.asarray({hx(args[0])}), {hx(args[1])}"
    else:
        v = ", ".join(f"np.full({form!r}, {hx(x)})" for x in args)
    tol = "1e-12" if name in TRANSC else "0.0"
    return PRELUDE + (f"s = call(ops.{name}, {a})\nv = call(ops.{name}, {v})\nprint('scalar', s, ' other', v)\n"
                      f"FAILS = not isinstance(s, tuple) and not isinstance(v, tuple) and "
                      f"not all(same(s, x, {tol}) for x in np.asarray(v).ravel().tolist())\n")


def check_agree(ctx, name, args, kind):
    """one operand tuple: scalar reference vs every array form.  Returns True if evaluated."""
    op = get_op(name)
    s = call(op, *args)
    ok, why = in_domain(name, args[0], args[1] if len(args) > 1 else None, s) if kind == "float" else \
        ((not is_exc(s)) and not isinstance(s, complex), "scalar-declines")
    if not ok:
        ctx.count(f"agree:outside-domain:{why}")
        return False
    tol = 1e-12 if name in TRANSC else 0.0
    forms = [("0d", tuple(np.asarray(x) for x in args))]
    if kind == "float":
        forms.append(("npscalar", tuple(np.float64(x) for x in args)))
    if len(args) == 2:
        forms.append(("num-arr", (args[0], np.asarray(args[1]))))
        forms.append(("arr-num", (np.asarray(args[0]), args[1])))
    for form, vargs in forms:
        if name in ("safesub", "safediv") and form == "arr-num":
            pass   # same default body as the scalar variant: compared like any other form
        v = call(op, *vargs)
        if is_exc(v):
            ctx.count(f"agree:array-declines:{name}")
            continue
        ctx.count("agree:comparisons")
        if not same(s, v, tol):
            ctx.fail("input", f"C15.agree:{name}:{form}", witness=dict(op=name, operands=jv(args), form=form, kind=kind),
                     expected=jv(s), got=jv(v), python=agree_python(name, args, form))
            return True
    return True


def check_elementwise(ctx, name, pairs, shape, kind):
    """arrays of `shape` filled with operand tuples; every element must equal the scalar result"""
    op = get_op(name)
    n = int(np.prod(shape)) if shape else 1
    pairs = pairs[:n]
    ar = len(pairs[0])
    dt = {"float": np.float64, "int": np.int64, "bool": np.bool_}[kind]
    arrs = [np.array([p[i] for p in pairs], dtype=dt).reshape(shape) for i in range(ar)]
    v = call(op, *arrs)
    if is_exc(v):
        ctx.count(f"agree:array-declines:{name}")
        return
    v = np.asarray(v)
    if v.shape != tuple(shape):
        ctx.fail("input", f"C15.agree:{name}:shape", witness=dict(op=name, shape=list(shape), operands=jv(pairs)),
                 expected=list(shape), got=list(v.shape),
                 python=PRELUDE + f"v = ops.{name}(" + ", ".join(f"np.zeros({tuple(shape)!r})+1" for _ in range(ar)) +
                 f")\nFAILS = np.asarray(v).shape != {tuple(shape)!r}\n")
        return
    tol = 1e-12 if name in TRANSC else 0.0
    for p, got in zip(pairs, v.ravel().tolist()):
        s = call(op, *p)
        ok, why = in_domain(name, p[0], p[1] if ar > 1 else None, s) if kind == "float" else \
            ((not is_exc(s)) and not isinstance(s, complex), "")
        if not ok:
            continue
        ctx.count("agree:elementwise-cells")
        if not same(s, got, tol):
            ctx.fail("input", f"C15.agree:{name}:elementwise", witness=dict(op=name, operands=jv(p), shape=list(shape), kind=kind),
                     expected=jv(s), got=jv(got), python=agree_python(name, p, tuple(shape)))
            return
    # broadcasting a python number against the array (binary ops): number×array both orders
    if ar == 2 and kind == "float":
        x0 = pairs[0][0]
        vb = call(op, x0, arrs[1])
        if not is_exc(vb):
            for p, got in zip(pairs, np.asarray(vb).ravel().tolist()):
                s = call(op, x0, p[1])
                ok, _ = in_domain(name, x0, p[1], s)
                if ok:
                    ctx.count("agree:broadcast-cells")
                    if not same(s, got, tol):
                        ctx.fail("input", f"C15.agree:{name}:num-arr-broadcast",
                                 witness=dict(op=name, operands=jv((x0, p[1])), shape=list(shape)),
                                 expected=jv(s), got=jv(got), python=agree_python(name, (x0, p[1]), "num-arr"))
                        return


def agreement_grid(ctx, volume=1):
    rng = ctx.rng
    nrand = (6 if ctx.tier == "quick" else 14) * volume
    fl = EDGE + random_floats(rng, nrand)
    ints = [0, 1, -1, 2, 3, -3, 7, 62, -64] + [rng.randint(-1000, 1000) for _ in range(3 * volume)]
    pairs = list(itertools.product(fl, repeat=2))        # both operand orders by construction
    for name in FLOAT_BIN:
        for p in pairs:
            if check_agree(ctx, name, p, "float"):
                nt = any(v in EDGE[4:] or v == 0 for v in p)
                ctx.case(sample=dict(op=name, operands=jv(p)) if rng.random() < 0.0005 else None,
                         nontrivial_key=(name, p[0].hex(), p[1].hex()) if nt or True else None)
        for shape in SHAPES:
            for _ in range(2 * volume):
                check_elementwise(ctx, name, [rng.choice(pairs) for _ in range(6)], shape, "float")
    for name in FLOAT_UN:
        for a in fl:
            if check_agree(ctx, name, (a,), "float"):
                ctx.case(nontrivial_key=(name, a.hex()))
        for shape in SHAPES:
            check_elementwise(ctx, name, [(rng.choice(fl),) for _ in range(6)], shape, "float")
    ipairs = list(itertools.product(ints, repeat=2))
    for name in INT_BIN:
        for p in ipairs:
            if name in ("lshift", "rshift") and not (0 <= p[1] < 40 and abs(p[0]) < 2 ** 20):
                ctx.count("agree:outside-domain:shift-range")
                continue
            if check_agree(ctx, name, p, "int"):
                ctx.case(nontrivial_key=(name, p))
        for shape in SHAPES[1:]:
            ps = [p for p in (rng.choice(ipairs) for _ in range(12))
                  if name not in ("lshift", "rshift") or (0 <= p[1] < 40 and abs(p[0]) < 2 ** 20)]
            if len(ps) >= 6:
                check_elementwise(ctx, name, ps, shape, "int")
    for name in INT_UN:
        for a in ints:
            if check_agree(ctx, name, (a,), "int"):
                ctx.case(nontrivial_key=(name, a))
    bpairs = list(itertools.product(BOOL_GRID, repeat=2))
    for name in BOOL_BIN:
        for p in bpairs:
            if check_agree(ctx, name, p, "bool"):
                ctx.case(nontrivial_key=(name, p))
        check_elementwise(ctx, name, bpairs + bpairs[:2], (3, 2), "bool")


# ---------------------------------------------------------------------------------------
# (3b) mixed (Python scalar, array) calls across ARRAY DTYPES
# ---------------------------------------------------------------------------------------

DTYPES = [np.float64, np.float32, np.int64, np.int32, np.bool_, np.uint8]
DT_BIN = ["add", "sub", "mul", "truediv", "floordiv", "mod", "pow", "max", "min", "and_", "or_", "xor", "eq", "ne",
          "lt", "le", "gt", "ge", "logaddexp", "sample", "safesub", "safediv", "lshift", "rshift"]
DT_TRANSC = {"logaddexp", "sample", "pow", "safediv", "truediv"}
DT_SHAPES = [(), (3,), (2, 3)]
F32MAX = float(np.finfo(np.float32).max)


def dt_elements(rng, dt, n):
    if dt is np.bool_:
        pool = [True, False]
    elif dt is np.uint8:
        pool = [0, 1, 2, 3, 7, 200, 255]
    elif dt in (np.int64, np.int32):
        pool = [0, 1, -1, 2, 3, -4, 7, -64, 1000]
    else:
        pool = [0.0, 1.0, -1.0, 0.5, -2.5, 3.0, 0.375, -0.0, 4.0, 96.0]      # exact in float32
    return [rng.choice(pool) for _ in range(n)]


def dt_scalars(rng):
    fixed = [0.5, -2.5, 0.375, 1.5, -1, 3, 0, 1, 7, True, False, INF, -INF, 2 ** 40, -2 ** 40, 2 ** 31, 1e300, float("nan")]
    return fixed + [rng.choice([0.25, -0.75, 2.5, 10.5, -3, 12, 255, 256, -129])]


def dt_domain(name, s, e, order, dt, want):
    """(in-domain?, reason) for one (scalar, element) cell; `want` is the Python-scalar result"""
    if isinstance(s, float) and s != s:
        return False, "nan-scalar"
    a, b = (s, e) if order == 0 else (e, s)
    if is_exc(want) or isinstance(want, complex):
        return False, "scalar-declines"
    if isinstance(want, float) and want != want:
        return False, "scalar-nan"
    if name == "pow" and isinstance(a, (int, float)) and a < 0 and isinstance(b, float) and not b.is_integer():
        return False, "pow-neg-base"
    if dt is np.float32 and isinstance(s, (int, float)) and not isinstance(s, bool) and math.isfinite(s) \
            and (abs(s) > F32MAX or float(np.float32(s)) != float(s)):
        return False, "scalar-not-representable-in-float32(numpy weak promotion)"
    if dt is np.bool_ and isinstance(s, bool) and name in ("add", "sub", "mul", "truediv", "floordiv", "mod", "pow",
                                                             "safesub", "safediv", "lshift", "rshift"):
        return False, "bool-bool-arithmetic(numpy boolean algebra)"
    if dt is np.uint8 and name in ("sub", "safesub"):
        return False, "unsigned-subtraction(wraparound)"
    if name in ("safesub", "safediv", "reciprocal") and isinstance(b, (int, float)) and kf_region(name, float(a), float(b)):
        return False, "kf-region"
    if name == "safediv" and isinstance(a, float) and isinstance(b, float) and math.isinf(a) and math.isinf(b):
        return False, "inf/inf"
    return True, ""


def dt_guard(name, a, b):
    """keep the Python-scalar oracle cheap (no astronomically large ints)"""
    if name == "pow":
        if isinstance(a, float) or isinstance(b, float):
            return abs(b) <= 16 or (isinstance(b, float) and math.isinf(b))
        return abs(a) <= 64 and 0 <= b <= 16
    if name in ("lshift", "rshift"):
        return isinstance(a, int) and isinstance(b, int) and 0 <= b < 40 and abs(a) < 2 ** 20
    return True


def dt_python(name, s, elems, dt, shape, order):
    dtn = {np.float64: "np.float64", np.float32: "np.float32", np.int64: "np.int64", np.int32: "np.int32",
           np.bool_: "np.bool_", np.uint8: "np.uint8"}[dt]
    arr = f"np.array([{', '.join(hx(e) for e in elems)}], dtype={dtn}).reshape({tuple(shape)!r})"
    tol = "1e-6" if (dt is np.float32 or name in DT_TRANSC) else "0.0"
    callsrc = f"ops.{name}(s, arr)" if order == 0 else f"ops.{name}(arr, s)"
    ref = f"ops.{name}(s, e)" if order == 0 else f"ops.{name}(e, s)"
    return PRELUDE + (f"s = {hx(s)}\narr = {arr}\ngot = call(lambda: np.asarray({callsrc}))\nprint(got)\nbad = []\n"
                      f"if not isinstance(got, tuple):\n"
                      f"    for e, g in zip(arr.ravel().tolist(), got.ravel().tolist()):\n"
                      f"        w = call(lambda: {ref})\n"
                      f"        if isinstance(w, tuple) or isinstance(w, complex) or w != w: continue\n"
                      f"        if not (float(g) == float(w) or ({tol} and abs(float(g) - float(w)) <= {tol} * max(1.0, abs(float(w))))): bad.append((e, g, w))\n"
                      f"print('mismatches (element, got, python-scalar):', bad)\nFAILS = bool(bad)\n")


def safediv_ref(x, y, fmax=FMAX):
    """documented stabilised behaviour: x * min(1/y, finfo.max), with 1/±0 = ±inf"""
    x, y = float(x), float(y)
    r = math.copysign(INF, y) if y == 0 else (0.0 * y if math.isinf(y) else 1.0 / y)
    return x * min(r, fmax)


def stabilised_dtype_block(ctx):
    """For the stabilised ops the oracle at the boundary is the DOCUMENTED stabilised behaviour, not the Python
    scalar default (which raises at 0): safediv(x, 0) = x * finfo.max (0 for x = 0), never NaN for finite x and a
    non-negative divisor — on every dtype, zeros included (int 0, uint8 0, bool False) — and a divisor held in an
    integer/bool array must give exactly what the same values held as float64 give.  Same equivalence for safesub
    on signed integer arrays."""
    rng = ctx.rng
    dtn = {np.float64: "np.float64", np.float32: "np.float32", np.int64: "np.int64", np.int32: "np.int32",
           np.bool_: "np.bool_", np.uint8: "np.uint8"}
    nums = [0.0, 0.5, -2.5, 3.0, 1.0, -0.0, 7.0, 1e300, -1e-300, 0, 2]
    for dt in DTYPES:
        pool = [False, True] if dt is np.bool_ else ([0, 1, 2, 3, 200, 255] if dt is np.uint8 else
                                                    ([0, 1, 2, 3, 7, 1000] if dt in (np.int64, np.int32) else
                                                     [0.0, 1.0, 2.0, 0.5, 3.0, 96.0]))
        for shape in DT_SHAPES:
            n = int(np.prod(shape)) if shape else 1
            for rep in range(4):
                ys = [0 if (k == 0 or rng.random() < 0.35) else rng.choice(pool) for k in range(n)]
                ys = [bool(v) for v in ys] if dt is np.bool_ else ys
                yarr = np.array(ys, dtype=dt).reshape(shape)
                yflt = yarr.astype(np.float64)
                fmax = float(np.finfo(np.float32).max) if dt is np.float32 else FMAX
                for form in ("number", "array"):
                    xs = [rng.choice(nums)] * n if form == "number" else [rng.choice(nums) for _ in range(n)]
                    X = xs[0] if form == "number" else np.array([float(v) for v in xs]).reshape(shape)
                    got = call(ops.safediv, X, yarr)
                    ctx.count(f"dtype:stabilised:safediv:{dt.__name__}")
                    if is_exc(got):
                        ctx.count(f"dtype:array-declines:safediv:{dt.__name__}")
                        continue
                    got = np.asarray(got, dtype=np.float64)
                    held = np.asarray(ops.safediv(X, yflt), dtype=np.float64) if dt not in (np.float64, np.float32) else None
                    xsrc = hx(X) if form == "number" else arr_src(X)
                    ysrc = f"np.array([{', '.join(hx(v) for v in ys)}], dtype={dtn[dt]}).reshape({tuple(shape)!r})"
                    py = PRELUDE + (f"x = {xsrc}\ny = {ysrc}\nr = np.asarray(ops.safediv(x, y), dtype=float)\n"
                                    f"rf = np.asarray(ops.safediv(x, y.astype(np.float64)), dtype=float)\nprint(r, rf)\n"
                                    f"xf = np.broadcast_to(np.asarray(x, dtype=float), r.shape)\n"
                                    f"FAILS = bool(np.isnan(r[np.isfinite(xf)]).any())"
                                    + ("" if held is None else " or not allsame(r, rf)") + "\n")
                    for k, (xv, yv, g) in enumerate(zip(xs, yarr.ravel().tolist(), got.ravel().tolist())):
                        w = dict(op="safediv", form=f"({form}, array)", dtype=dt.__name__, shape=list(shape),
                                 x=jv(xv), divisor=jv(yv), numerators=jv(xs), divisors=jv(ys))
                        if math.isfinite(float(xv)) and g != g:
                            ctx.fail("input", f"C15.safediv-nan:{dt.__name__}", witness=w,
                                     expected="never NaN for a finite numerator and a non-negative divisor (0/0 = 0)", got="nan", python=py)
                            break
                        if held is not None and not same(g, held.ravel().tolist()[k]):
                            ctx.fail("input", f"C15.safediv-int-vs-float-divisor:{dt.__name__}", witness=w,
                                     expected=jv(held.ravel().tolist()[k]), got=jv(g), python=py)
                            break
                        ref = safediv_ref(xv, yv, fmax)
                        if dt is np.float32 and form == "number" and math.isfinite(ref) and abs(ref) > fmax:
                            ref = math.copysign(INF, ref)      # x * finfo(float32).max overflows the float32 result
                        ctx.count("dtype:stabilised:cells")
                        if ref == ref and not (same(g, ref) or (math.isfinite(ref) and math.isfinite(g)
                                                                and abs(g - ref) <= (1e-6 if dt is np.float32 else 1e-12) * max(1.0, abs(ref)))):
                            ctx.fail("input", f"C15.safediv-documented:{dt.__name__}", witness=w,
                                     expected=jv(ref), got=jv(g), python=py)
                            break
                    else:
                        ctx.case(nontrivial_key=("stab", "safediv", dt.__name__, shape, form, yarr.tobytes(), repr(xs)))
                # safesub: signed-integer-held subtrahend == float-held subtrahend (finite values: == x - y)
                if dt in (np.int64, np.int32):
                    x = rng.choice([0.5, -2.5, 3.0, 0.0, -INF])
                    a, b = call(ops.safesub, x, yarr), call(ops.safesub, x, yflt)
                    ctx.count(f"dtype:stabilised:safesub:{dt.__name__}")
                    if not is_exc(a) and not is_exc(b) and not all(same(u, v) for u, v in
                                                                    zip(np.asarray(a).ravel().tolist(), np.asarray(b).ravel().tolist())):
                        ctx.fail("input", f"C15.safesub-int-vs-float:{dt.__name__}",
                                 witness=dict(op="safesub", x=jv(x), dtype=dt.__name__, y=jv(ys)), expected=jv(b), got=jv(a),
                                 python=PRELUDE + f"x = {hx(x)}\ny = np.array([{', '.join(hx(v) for v in ys)}], dtype={dtn[dt]})\n"
                                 "r = ops.safesub(x, y); rf = ops.safesub(x, y.astype(np.float64))\nprint(r, rf)\nFAILS = not allsame(r, rf)\n")


def dtype_grid(ctx, volume=1):
    """Every binary op, (Python scalar, array) in both orders, array dtypes float64/float32/int64/int32/bool/uint8,
    shapes (), (3,), (2,3).  Oracle: the Python-scalar default applied to every element; values compared in
    float64 (result dtype counted, not gated).  Plus the UNITS neutrality law on every dtype, and the Lean
    dtype-indexed model of the mixed max/min registrations (`C15 mixed …`)."""
    rng = ctx.rng
    reqs, meta = [], []
    for name in DT_BIN:
        op = get_op(name)
        for dt in DTYPES:
            for shape in DT_SHAPES:
                n = int(np.prod(shape)) if shape else 1
                for s in dt_scalars(rng):
                    for order in (0, 1):
                        elems = dt_elements(rng, dt, n)
                        if not all(dt_guard(name, *((s, e) if order == 0 else (e, s))) for e in elems):
                            ctx.count("dtype:skipped-guard")
                            continue
                        arr = np.array(elems, dtype=dt).reshape(shape)
                        got = call(op, s, arr) if order == 0 else call(op, arr, s)
                        if is_exc(got):
                            ctx.count(f"dtype:array-declines:{name}:{dt.__name__}")
                            continue
                        got = np.asarray(got)
                        if got.dtype == np.float16:
                            ctx.count("dtype:outside-domain:float16-promotion-of-small-int-dtype")
                            continue
                        if got.shape != tuple(shape):
                            ctx.fail("input", f"C15.dtype:{name}:shape", witness=dict(op=name, dtype=dt.__name__, shape=list(shape),
                                     scalar=jv(s), order=order), expected=list(shape), got=list(got.shape),
                                     python=dt_python(name, s, arr.ravel().tolist(), dt, shape, order))
                            continue
                        ctx.count(f"dtype:result-dtype:{dt.__name__}->{got.dtype}")
                        tol = 1e-6 if (dt is np.float32 or name in DT_TRANSC) else 0.0
                        gated = 0
                        for e, g in zip(arr.ravel().tolist(), got.ravel().tolist()):
                            want = call(op, s, e) if order == 0 else call(op, e, s)
                            ok, why = dt_domain(name, s, e, order, dt, want)
                            if ok and got.dtype.kind in "iu" and not isinstance(want, bool):
                                info = np.iinfo(got.dtype)
                                if not (info.min <= want <= info.max):
                                    ok, why = False, "integer-result-overflow(wraparound)"
                            if ok and got.dtype == np.float32 and not isinstance(want, bool) and math.isfinite(float(want)) \
                                    and abs(float(want)) > F32MAX:
                                ok, why = False, "float32-result-overflow"
                            if not ok:
                                ctx.count(f"dtype:outside-domain:{why}")
                                continue
                            gated += 1
                            ctx.count("dtype:cells")
                            w, gv = float(want), float(g)
                            if not (gv == w or (tol and abs(gv - w) <= tol * max(1.0, abs(w)))):
                                ctx.fail("input", f"C15.dtype:{name}:{dt.__name__}",
                                         witness=dict(op=name, dtype=dt.__name__, shape=list(shape), scalar=jv(s), element=jv(e),
                                                      order="scalar,array" if order == 0 else "array,scalar",
                                                      result_dtype=str(got.dtype)),
                                         expected=jv(want), got=jv(g),
                                         python=dt_python(name, s, arr.ravel().tolist(), dt, shape, order))
                                break
                            if name in ("max", "min") and dt in (np.float64, np.int64, np.bool_) and len(reqs) < 4000 \
                                    and not (isinstance(s, float) and s != s):
                                dtn = {np.float64: "f64", np.int64: "i64", np.bool_: "bool"}[dt]
                                ea = xr_atom(e) if dt is np.float64 else (("true" if e else "false") if dt is np.bool_ else str(int(e)))
                                reqs.append(f"C15 mixed {name} {dtn} {xr_atom(s)} {ea}")
                                meta.append((name, dtn, s, e, gv))
                        if gated:
                            ctx.case(sample=dict(op=name, dtype=dt.__name__, scalar=jv(s), shape=list(shape)) if rng.random() < 0.001 else None,
                                     nontrivial_key=("dtype", name, dt.__name__, shape, repr(s), order, arr.tobytes()))
    # (float64 array, array of every dtype), both orders: the (array, array) registrations across dtypes
    # (e.g. _safediv must not take an integer reciprocal of an integer divisor array — /repo 0be2287)
    for name in DT_BIN:
        op = get_op(name)
        for dt in DTYPES:
            for order in (0, 1):
                fs = [rng.choice([0.5, -2.5, 0.375, 1.5, 3.0, -1.0, 0.0, 7.0]) for _ in range(6)]
                es = dt_elements(rng, dt, 6)
                if not all(dt_guard(name, *((f, e) if order == 0 else (e, f))) for f, e in zip(fs, es)):
                    continue
                fa, ea = np.array(fs).reshape(2, 3), np.array(es, dtype=dt).reshape(2, 3)
                got = call(op, fa, ea) if order == 0 else call(op, ea, fa)
                if is_exc(got):
                    ctx.count(f"dtype:array-declines:{name}:{dt.__name__}")
                    continue
                got = np.asarray(got)
                if got.dtype == np.float16 or got.shape != (2, 3):
                    ctx.count("dtype:outside-domain:float16-promotion-of-small-int-dtype")
                    continue
                tol = 1e-6 if (dt is np.float32 or name in DT_TRANSC) else 0.0
                for f, e, g in zip(fs, ea.ravel().tolist(), got.ravel().tolist()):
                    want = call(op, f, e) if order == 0 else call(op, e, f)
                    ok, why = dt_domain(name, f, e, order, dt, want)
                    if ok and got.dtype == np.float32 and math.isfinite(float(want)) and abs(float(want)) > F32MAX:
                        ok, why = False, "float32-result-overflow"
                    if not ok:
                        ctx.count(f"dtype:outside-domain:{why}")
                        continue
                    ctx.count("dtype:array-array-cells")
                    w, gv = float(want), float(g)
                    if not (gv == w or (tol and abs(gv - w) <= tol * max(1.0, abs(w)))):
                        dtn = {np.float64: "np.float64", np.float32: "np.float32", np.int64: "np.int64", np.int32: "np.int32",
                               np.bool_: "np.bool_", np.uint8: "np.uint8"}[dt]
                        A = f"np.array([{', '.join(hx(v) for v in fs)}])"
                        B = f"np.array([{', '.join(hx(v) for v in es)}], dtype={dtn})"
                        cs = f"ops.{name}(A, B)" if order == 0 else f"ops.{name}(B, A)"
                        rs = f"ops.{name}(a, b)" if order == 0 else f"ops.{name}(b, a)"
                        ctx.fail("input", f"C15.dtype-array-array:{name}:{dt.__name__}",
                                 witness=dict(op=name, dtype=dt.__name__, float_operand=jv(fs), other_operand=jv(es),
                                              order="float,other" if order == 0 else "other,float", cell=[jv(f), jv(e)]),
                                 expected=jv(want), got=jv(g),
                                 python=PRELUDE + f"A = {A}\nB = {B}\ngot = np.asarray({cs})\nprint(got)\nbad = []\n"
                                 f"for a, b, g in zip(A.tolist(), B.tolist(), got.tolist()):\n"
                                 f"    w = call(lambda: {rs})\n"
                                 f"    if isinstance(w, tuple) or isinstance(w, complex) or w != w: continue\n"
                                 f"    if not (float(g) == float(w) or abs(float(g) - float(w)) <= 1e-6 * max(1.0, abs(float(w)))): bad.append((a, b, g, w))\n"
                                 f"print(bad)\nFAILS = bool(bad)\n")
                        break
    stabilised_dtype_block(ctx)
    # UNITS neutrality on every dtype
    for uop, u in ops.UNITS.items():
        nm = opname(uop)
        for dt in DTYPES:
            if nm in BOOL_OPS and dt is not np.bool_ and nm == "and_":
                continue           # True is neutral for `and` on booleans only (bitwise & on ints is not the carrier)
            for shape in DT_SHAPES:
                n = int(np.prod(shape)) if shape else 1
                arr = np.array(dt_elements(rng, dt, n), dtype=dt).reshape(shape)
                for order in (0, 1):
                    got = call(uop, u, arr) if order == 0 else call(uop, arr, u)
                    if is_exc(got):
                        ctx.count(f"dtype:units:declines:{nm}:{dt.__name__}")
                        continue
                    got = np.asarray(got)
                    if got.dtype == np.float16:
                        ctx.count("dtype:outside-domain:float16-promotion-of-small-int-dtype")
                        continue
                    ctx.count("dtype:units:checks")
                    okv = got.shape == arr.shape and all(float(g) == float(e) for g, e in zip(got.ravel().tolist(), arr.ravel().tolist()))
                    if not okv:
                        ctx.fail("input", f"C15.dtype-units:{nm}:{dt.__name__}",
                                 witness=dict(op=nm, unit=jv(u), dtype=dt.__name__, array=jv(arr.astype(float) if dt is not np.bool_ else arr),
                                              order="unit,array" if order == 0 else "array,unit"),
                                 expected="the array itself (the declared unit is neutral)", got=jv(got.astype(float)),
                                 python=dt_python(nm, u, arr.ravel().tolist(), dt, shape, order))
    if reqs:
        ans = ctx.driver.ask(reqs) if ctx.driver.available() else []
        for (name, dtn, s_, e, gv), an, rq in zip(meta, ans, reqs):
            if not an.startswith("ok "):
                ctx.infra_errors.append(f"driver: {an} for {rq}")
                return
            tok = an[3:]
            from fractions import Fraction
            want = float("nan") if tok == "nan" else (INF if tok == "inf" else (-INF if tok == "-inf" else float(Fraction(tok))))
            ctx.count("dtype:lean-mixed-model-checks")
            if not same(gv, want):
                ctx.fail("correspondence", f"C15.dtype-model:{name}:{dtn}", witness=dict(request=rq, model=an, impl=jv(gv), scalar=jv(s_), element=jv(e)),
                         expected=tok, got=jv(gv))


# ---------------------------------------------------------------------------------------
# (3c) unary ops on integer / bool arrays (ops enumerated from the registry)
# ---------------------------------------------------------------------------------------

def unary_registry():
    """every elementwise unary op of funsor.ops that evaluates on a plain Python number"""
    out = []
    for nm in sorted(dir(ops)):
        op = getattr(ops, nm, None)
        if not isinstance(op, ops.UnaryOp) or isinstance(op, (ops.ReductionOp,)) or nm[0].isupper():
            continue
        if getattr(type(op), "arity", 1) != 1 or isinstance(op, ops.FinitaryOp):
            continue
        r = call(op, 2)
        if is_exc(r) or not isinstance(r, (int, float, bool)):
            r = call(op, 0.5)
            if is_exc(r) or not isinstance(r, (int, float, bool)):
                continue
        out.append(nm)
    return out


def unary_dtype_stream(ctx):
    """Scalar/array consistency of every unary op on int64/int32/uint8/bool data with values {0,1,2,3,7}: 0-d arrays,
    numpy scalars, 1-d and 2-d arrays must equal the op's Python-scalar implementation entrywise (tolerance by
    RESULT dtype: numpy computes transcendental functions of 8-bit data in float16); where the inverse clause
    applies (`exp.inv is log`), exp(log(x)) = x."""
    names = unary_registry()
    ctx.extra["unary_registry"] = names
    vals = [0, 1, 2, 3, 7]
    dts = [np.int64, np.int32, np.uint8, np.bool_]
    dtn = {np.int64: "np.int64", np.int32: "np.int32", np.uint8: "np.uint8", np.bool_: "np.bool_"}

    def tol_of(dtype):
        return {np.dtype(np.float16): 2e-3, np.dtype(np.float32): 1e-6}.get(np.dtype(dtype), 1e-12)
    for nm in names:
        op = get_op(nm)
        for dt in dts:
            data = [bool(v % 2) for v in vals] if dt is np.bool_ else vals
            forms = [("0-d", [np.array(v, dtype=dt) for v in data]), ("numpy-scalar", [dt(v) for v in data]),
                     ("1-d", [np.array(data, dtype=dt)]), ("2-d", [np.array(data + data[:1], dtype=dt).reshape(2, 3)])]
            for fname, xs in forms:
                for x in xs:
                    got = call(op, x)
                    ctx.count(f"unary-dtype:{nm}")
                    if is_exc(got):
                        ctx.count(f"unary-dtype:array-declines:{nm}:{dt.__name__}")
                        continue
                    got = np.asarray(got)
                    elems = np.asarray(x).ravel().tolist()
                    if got.shape != np.asarray(x).shape:
                        continue
                    tol = tol_of(got.dtype) if got.dtype.kind == "f" else 0.0
                    for e, g in zip(elems, got.ravel().tolist()):
                        if dt is np.bool_ and nm in ("invert", "neg", "pos"):
                            ctx.count("unary-dtype:outside-domain:python-bool-is-int")
                            continue
                        if dt is np.uint8 and nm in ("sigmoid", "neg"):
                            # -x wraps on unsigned data (sigmoid's body is 1 / (1 + exp(-x))): numpy's unsigned
                            # arithmetic, same class as unsigned subtraction in the binary grid
                            ctx.count("unary-dtype:outside-domain:unsigned-negation(wraparound)")
                            continue
                        want = call(op, e)
                        if is_exc(want) or isinstance(want, complex) or (isinstance(want, float) and want != want):
                            ctx.count("unary-dtype:outside-domain:scalar-declines")
                            continue
                        if got.dtype.kind in "iu" and not (np.iinfo(got.dtype).min <= want <= np.iinfo(got.dtype).max):
                            ctx.count("unary-dtype:outside-domain:integer-result-overflow(wraparound)")
                            continue
                        if got.dtype.kind == "f" and math.isfinite(float(want)) and abs(float(want)) > float(np.finfo(got.dtype).max):
                            ctx.count("unary-dtype:outside-domain:result-dtype-overflow")
                            continue
                        ctx.count("unary-dtype:cells")
                        w, gv = float(want), float(g)
                        if not (gv == w or (tol and math.isfinite(w) and math.isfinite(gv) and abs(gv - w) <= tol * max(1.0, abs(w)))):
                            src = (f"np.array({hx(e)}, dtype={dtn[dt]})" if fname != "numpy-scalar" else f"{dtn[dt]}({hx(e)})")
                            ctx.fail("input", f"C15.unary-dtype:{nm}:{dt.__name__}",
                                     witness=dict(op=nm, dtype=dt.__name__, form=fname, element=jv(e), result_dtype=str(got.dtype)),
                                     expected=jv(want), got=jv(g),
                                     python=PRELUDE + f"x = {src}\ng = float(np.asarray(ops.{nm}(x)))\nw = float(ops.{nm}({hx(e)}))\nprint(g, w)\n"
                                     f"FAILS = not (g == w or abs(g - w) <= {max(tol, 1e-12)} * max(1.0, abs(w)))\n")
                            break
                    else:
                        ctx.case(nontrivial_key=("unary-dtype", nm, dt.__name__, fname, np.asarray(x).tobytes()))
    # inverse clause: exp(log(x)) = x on positive integer data of every dtype
    if getattr(ops.exp, "inv", None) is ops.log:
        for dt in dts:
            x = np.array([True, True] if dt is np.bool_ else [1, 2, 3, 7], dtype=dt)
            r = call(lambda: ops.exp(ops.log(x)))
            ctx.count("unary-dtype:inverse-checks")
            if is_exc(r):
                continue
            r = np.asarray(r, dtype=np.float64)
            tol = 5e-3 if dt is np.uint8 else 1e-12
            if not all(abs(a - float(b)) <= tol * max(1.0, float(b)) for a, b in zip(r.tolist(), x.tolist())):
                ctx.fail("input", f"C15.unary-dtype:exp-log-inverse:{dt.__name__}", witness=dict(x=jv(x.astype(float)), dtype=dt.__name__),
                         expected=jv(x.astype(float)), got=jv(r),
                         python=PRELUDE + f"x = np.array({x.tolist()!r}, dtype={dtn[dt]})\nr = np.asarray(ops.exp(ops.log(x)), dtype=float)\nprint(r)\n"
                         f"FAILS = not all(abs(a - float(b)) <= {tol} * max(1.0, float(b)) for a, b in zip(r.tolist(), x.tolist()))\n")


# ---------------------------------------------------------------------------------------
# (4) special values of the stabilised ops: Python oracle + abstract class / provenance
# ---------------------------------------------------------------------------------------

VARIANTS = ["scalar", "arr", "numArr", "arrNum"]


def variant_args(variant, a, b):
    if variant == "scalar":
        return a, b
    if variant == "arr":
        return np.asarray(a), np.asarray(b)
    if variant == "numArr":
        return a, np.asarray(b)
    return np.asarray(a), b


def variant_code(name, variant, a, b):
    A = hx(a) if variant in ("scalar", "numArr") else f"np.asarray({hx(a)})"
    B = hx(b) if variant in ("scalar", "arrNum") else f"np.asarray({hx(b)})"
    return f"ops.{name}({A}, {B})"


def lae_oracle(a, b):
    if a == -INF:
        return b
    if b == -INF:
        return a
    return max(a, b) + math.log1p(math.exp(-abs(a - b)))


def log_dom(v):
    return v == v and v != INF


def special_oracles(ctx, name, variant, a, b, r):
    """Python-side statement of the property for one concrete call; returns a failure tuple or None."""
    if is_exc(r):
        return None
    code = variant_code(name, variant, a, b)
    rv = float(item(r))
    if name == "logaddexp" and log_dom(a) and log_dom(b):
        exp = lae_oracle(a, b)
        exact = a == -INF or b == -INF
        # 1e-12 relative to max(1, |expected|): log(1 + tiny) legitimately rounds to 0
        okv = same(rv, exp) if exact else (rv == rv and (same(rv, exp) or abs(rv - exp) <= 1e-12 * max(1.0, abs(exp))))
        if not okv:
            return ("C15.logaddexp-limit", exp, rv,
                    PRELUDE + f"r = float({code})\nprint(r)\ne = {hx(exp)}\n"
                    + ("FAILS = not same(r, e)\n" if exact else
                       "FAILS = not (r == r and (same(r, e) or abs(r - e) <= 1e-12 * max(1.0, abs(e))))\n"))
    stab = variant in ("arr", "numArr")
    if name == "safesub" and stab and a == a and b == b and not (a == INF and b == INF):
        exp = a + min(-b, FMAX)
        if rv != rv or (math.isfinite(b) and not same(rv, a - b)) or (a == -INF and b == -INF and rv != -INF):
            return ("C15.safesub-nan", exp, rv, PRELUDE + f"r = {code}\nprint(r)\nFAILS = bool(r != r) or not same(r, {hx(exp)})\n")
    if name == "safediv" and stab and a == a and b == b and (b > 0 or (b == 0 and math.copysign(1, b) > 0)) \
            and not (math.isinf(a) and math.isinf(b)):
        if rv != rv or (a == 0 and b == 0 and rv != 0):
            return ("C15.safediv-nan", "not NaN (0/0 = 0)", rv, PRELUDE + f"r = {code}\nprint(r)\nFAILS = bool(r != r)\n")
    return None


def special_grid(ctx, use_driver=True, volume=1):
    rng = ctx.rng
    fl = EDGE + [700.0, -700.0, 1e308, -1e308, 0.5, 3.0, -2.5] + random_floats(rng, 4 * volume)
    pairs = list(itertools.product(fl, repeat=2))
    reqs, meta = [], []
    for name in ("logaddexp", "safesub", "safediv", "max", "min", "sample"):
        op = get_op(name)
        for variant in VARIANTS:
            if name == "sample" and variant not in ("scalar", "arr"):
                continue
            for a, b in pairs:
                r = call(op, *variant_args(variant, a, b))
                ctx.count(f"special:{name}:{variant}")
                bad = special_oracles(ctx, name, variant, a, b, r) if name != "sample" else None
                if bad:
                    ctx.fail("input", f"{bad[0]}:{variant}", witness=dict(op=name, variant=variant, a=jv(a), b=jv(b)),
                             expected=jv(bad[1]), got=jv(bad[2]), python=bad[3])
                    continue
                if not is_exc(r) and float(item(r)) != float(item(r)):
                    ctx.count(f"observed:nan-outside-domain:{name}:{variant}")
                if name in ("safesub", "safediv") and variant in ("scalar", "arrNum") and kf_region(name, a, b):
                    ctx.count("special:kf-region(model-follows-code)")
                reqs.append(f"C15 special {name} {variant} {classify(a)} {classify(b)} {order(a, b)}")
                meta.append((name, variant, a, b, r))
                ctx.case(nontrivial_key=("special", name, variant, a.hex(), b.hex()))
    for name, fn in (("reciprocal", ops.reciprocal), ("log", ops.log)):
        for variant in ("scalar", "arr"):
            for a in fl:
                r = call(fn, a if variant == "scalar" else np.asarray(a))
                ctx.count(f"special:{name}:{variant}")
                if name == "reciprocal" and variant == "arr" and not is_exc(r):
                    rv = float(item(r))
                    if rv != rv or rv == INF:
                        ctx.fail("input", "C15.reciprocal-nan", witness=dict(op=name, variant=variant, a=jv(a)),
                                 expected="finite or -inf, never NaN / +inf", got=jv(rv),
                                 python=PRELUDE + f"r = ops.reciprocal(np.asarray({hx(a)}))\nprint(r)\nFAILS = bool(r != r) or bool(r == inf)\n")
                        continue
                reqs.append(f"C15 special1 {name} {variant} {classify(a)}")
                meta.append((name, variant, a, None, r))
                ctx.case(nontrivial_key=("special1", name, variant, a.hex()))
    # the bool branch of the array log
    lb = ops.log(np.array([False, True]))
    if not (lb[0] == -INF and lb[1] == 0.0):
        ctx.fail("input", "C15.log-bool", witness=dict(x=[False, True]), expected=["-inf", "0.0"], got=jv(lb),
                 python=PRELUDE + "r = ops.log(np.array([False, True]))\nFAILS = not (r[0] == -inf and r[1] == 0.0)\n")
    if not use_driver:
        return
    ans = ctx.driver.ask(reqs)
    for (name, variant, a, b, r), an, rq in zip(meta, ans, reqs):
        p = parse_av(an)
        if p is None:
            ctx.infra_errors.append(f"driver: {an} for {rq}")
            return
        kind, classes, tag = p
        w = dict(op=name, variant=variant, a=jv(a), b=jv(b) if b is not None else None, request=rq,
                 model=an, impl=jv(r) if not is_exc(r) else list(r))
        code = variant_code(name, variant, a, b) if b is not None else \
            f"ops.{name}({hx(a) if variant == 'scalar' else 'np.asarray(' + hx(a) + ')'})"
        if kind == "raises" or is_exc(r):
            ctx.count("special:raises")
            if (kind == "raises") != is_exc(r):
                ctx.fail("correspondence", f"C15.special-class:{name}:{variant}", witness=w,
                         expected=an, got=w["impl"],
                         python=PRELUDE + f"r = call(lambda: {code})\nprint(r)\nFAILS = isinstance(r, tuple) != {kind == 'raises'}\n")
            continue
        c = classify(r)
        okc = in_classes(c, classes)
        okt = True
        if tag == "x":
            okt = same(r, a)
        elif tag == "y":
            okt = same(r, b)
        ctx.count("special:class-checks")
        if tag != "none":
            ctx.count("special:provenance-checks")
        if not (okc and okt):
            ctx.fail("correspondence", f"C15.special-class:{name}:{variant}", witness=w,
                     expected=f"class in {classes}, provenance {tag}", got=f"{jv(r)} (class {c})",
                     python=PRELUDE + f"r = {code}\nprint(r)\n"
                     + "def cls(v):\n    v = float(v)\n    if v != v: return 'nan'\n    if v == inf: return 'pinf'\n"
                       "    if v == -inf: return 'ninf'\n    if v == 0: return 'nzero' if math.copysign(1, v) < 0 else 'pzero'\n"
                       "    return 'one' if v == 1 else ('pos' if v > 0 else 'neg')\n"
                     + f"c = cls(r); pred = {classes!r}\nFAILS = not (c in pred or (c == 'one' and 'pos' in pred))"
                     + (f" or not same(r, {hx(a)})" if tag == "x" else (f" or not same(r, {hx(b)})" if tag == "y" else "")) + "\n")


# ---------------------------------------------------------------------------------------
# (5) numpy / python primitives against the Lean transfer functions
# ---------------------------------------------------------------------------------------

def primitive_grid(ctx):
    rng = ctx.rng
    fl = EDGE + [700.0, -700.0, 1e308, -1e308, 0.5, 3.0, -2.5, 1e-320, -1e-320, 1e-300, 1e300] + random_floats(rng, 6)
    finfo = np.finfo(np.float64)

    def pymax(a, b):
        return max(a, b)

    def pymin(a, b):
        return min(a, b)
    bins = {"add": np.add, "sub": np.subtract, "mul": np.multiply, "div": np.true_divide,
            "maxnp": np.maximum, "minnp": np.minimum, "maxpy": pymax, "minpy": pymin}
    uns = {"neg": np.negative, "recip": np.reciprocal, "exp": np.exp, "lognp": np.log,
           "logpy": ops.log.default, "cliplo": lambda v: np.clip(v, finfo.min, None),
           "cliphi": lambda v: np.clip(v, None, finfo.max)}
    reqs, meta = [], []
    for nm, f in bins.items():
        for a, b in itertools.product(fl, repeat=2):
            r = f(a, b) if nm in ("maxpy", "minpy") else f(np.float64(a), np.float64(b))
            reqs.append(f"C15 prim {nm} {classify(a)} {classify(b)}")
            meta.append((nm, a, b, float(r)))
    for nm, f in uns.items():
        for a in fl:
            r = f(a) if nm == "logpy" else f(np.float64(a))
            reqs.append(f"C15 prim {nm} {classify(a)}")
            meta.append((nm, a, None, float(r)))
    ans = ctx.driver.ask(reqs)
    for (nm, a, b, r), an, rq in zip(meta, ans, reqs):
        ctx.count("prim:checks")
        if not an.startswith("ok "):
            ctx.infra_errors.append(f"driver: {an} for {rq}")
            return
        classes = [str(x) for x in parse_sx(an[3:])]
        if not in_classes(classify(r), classes):
            ctx.infra_errors.append(f"Lean transfer function {nm} is unsound: {a!r}, {b!r} -> {r!r} "
                                    f"(class {classify(r)}) but model predicts {classes}")
            return


# ---------------------------------------------------------------------------------------
# (5b) magnitude-refined model (Model/C15/Mag.lean): transfer functions + logaddexp variants
# ---------------------------------------------------------------------------------------

def classify_mag(v):
    v = float(item(v))
    if v != v:
        return "nan"
    if v == INF:
        return "pinf"
    if v == -INF:
        return "ninf"
    if v == 0:
        return "nz" if math.copysign(1.0, v) < 0 else "pz"
    a = abs(v)
    lvl = "S" if a <= 2.0 ** 10 else ("M" if a <= 2.0 ** 1000 else "H")
    return ("p" if v > 0 else "n") + lvl


def magnitude_grid(ctx, volume=1):
    """(i) numpy primitives vs the magnitude transfer functions; (ii) every logaddexp variant and the
    stabilised safesub vs the class set the magnitude model predicts; (iii) the Python statement of
    overflow-freedom: logaddexp of two finite doubles is finite."""
    rng = ctx.rng
    finfo = np.finfo(np.float64)
    fl = EDGE + [2.0 ** 10, -2.0 ** 10, 2.0 ** 10 + 1, 2.0 ** 1000, -2.0 ** 1000, 2.0 ** 1000 * 1.5, 700.0, -700.0,
                 745.2, -745.2, 709.0, 710.0, 1e308, -1e308, 1e-320, 0.5, 3.0, -2.5, 1500.0, -1500.0] \
        + random_floats(rng, 8 * volume)
    reqs, meta = [], []
    bins = {"add": np.add, "sub": np.subtract, "maxnp": np.maximum, "maxpy": lambda a, b: max(a, b)}
    uns = {"exp": np.exp, "lognp": np.log, "logpy": ops.log.default, "neg": np.negative,
           "cliplo": lambda v: np.clip(v, finfo.min, None)}
    for nm, f in bins.items():
        for a, b in itertools.product(fl, repeat=2):
            r = f(a, b) if nm == "maxpy" else f(np.float64(a), np.float64(b))
            reqs.append(f"C15 mag prim {nm} {classify_mag(a)} {classify_mag(b)}")
            meta.append(("prim", nm, a, b, float(r)))
    for nm, f in uns.items():
        for a in fl:
            r = f(a) if nm == "logpy" else f(np.float64(a))
            reqs.append(f"C15 mag prim {nm} {classify_mag(a)}")
            meta.append(("prim", nm, a, None, float(r)))
    for variant in VARIANTS:
        for a, b in itertools.product(fl, repeat=2):
            r = call(ops.logaddexp, *variant_args(variant, a, b))
            if is_exc(r):
                continue
            rv = float(item(r))
            if math.isfinite(a) and math.isfinite(b):
                ctx.count("mag:finite-operands")
                if not math.isfinite(rv):
                    ctx.fail("input", f"C15.logaddexp-overflow:{variant}", witness=dict(op="logaddexp", variant=variant, a=jv(a), b=jv(b)),
                             expected="a finite value", got=jv(rv),
                             python=PRELUDE + f"r = float({variant_code('logaddexp', variant, a, b)})\nprint(r)\nFAILS = not math.isfinite(r)\n")
                    continue
            reqs.append(f"C15 mag logaddexp {variant} {classify_mag(a)} {classify_mag(b)} {order(a, b)}")
            meta.append(("logaddexp", variant, a, b, rv))
            ctx.case(nontrivial_key=("mag", variant, a.hex(), b.hex()))
    for variant in ("arr", "numArr"):
        for a, b in itertools.product(fl, repeat=2):
            rv = float(item(call(ops.safesub, *variant_args(variant, a, b))))
            reqs.append(f"C15 mag safesub {variant} {classify_mag(a)} {classify_mag(b)} {order(a, b)}")
            meta.append(("safesub", variant, a, b, rv))
    ans = ctx.driver.ask(reqs)
    for (kind, nm, a, b, rv), an, rq in zip(meta, ans, reqs):
        if not an.startswith("ok "):
            ctx.infra_errors.append(f"driver: {an} for {rq}")
            return
        p = parse_sx(an[3:])
        classes = [str(x) for x in (p[0] if kind != "prim" else p)]
        c = classify_mag(rv)
        ctx.count("mag:prim-checks" if kind == "prim" else "mag:class-checks")
        if c not in classes:
            if kind == "prim":
                ctx.infra_errors.append(f"magnitude transfer function {nm} is unsound: {a!r}, {b!r} -> {rv!r} "
                                        f"(class {c}) but model predicts {classes}")
                return
            ctx.fail("correspondence", f"C15.mag-class:{kind}:{nm}", witness=dict(op=kind, variant=nm, a=jv(a), b=jv(b), request=rq, model=an, impl=jv(rv)),
                     expected=f"class in {classes}", got=f"{rv!r} ({c})",
                     python=PRELUDE + f"r = float({variant_code(kind, nm, a, b)})\nprint(r)\nFAILS = True\n")


# ---------------------------------------------------------------------------------------
# (6) logsumexp, log-space einsum, max-plus einsum
# ---------------------------------------------------------------------------------------

def lse_oracle(xs):
    m = max(xs)
    if m == -INF:
        return -INF
    if m == INF:
        return INF
    return m + math.log(math.fsum(math.exp(x - m) for x in xs))


def lse_tol(xs):
    return 0.0 if sum(1 for x in xs if x != -INF) <= 1 else 1e-12


def log_values(rng, n, allow_pinf=False):
    centre = rng.choice([0.0, 0.0, 5.0, -700.0, 700.0, 1e308, -1e308, 1.7e308, -1.7e308, 1e-300])
    out = []
    for _ in range(n):
        k = rng.random()
        if k < 0.3:
            out.append(-INF)
        elif k < 0.35 and allow_pinf:
            out.append(INF)
        elif k < 0.45:
            out.append(rng.choice([0.0, -0.0, 1.0, -1.0, FMAX, -FMAX, FMIN, SUB]))
        else:
            out.append(float(centre + rng.uniform(-30, 0)) if abs(centre) < 1e300 else float(centre))
    return out


def logsumexp_stream(ctx, n_cases, use_driver=True):
    rng = ctx.rng
    reqs, meta = [], []
    fixed = [[-INF], [-INF, -INF], [-INF] * 5, [0.0, -INF], [-INF, 3.5, -INF], [1e308, 1e308], [-1e308, -1e308],
             [FMAX, FMAX], [-FMAX, -INF], [INF, 0.0], [INF, -INF]]
    for k in range(n_cases + len(fixed)):
        xs = fixed[k] if k < len(fixed) else log_values(rng, rng.randint(1, 5), allow_pinf=rng.random() < 0.1)
        r = call(ops.logsumexp, np.array(xs))
        ctx.count("lse:1d")
        if is_exc(r):
            ctx.count("lse:declined")
            continue
        exp = lse_oracle(xs)
        rv = float(r)
        if not close12(rv, exp, lse_tol(xs)):
            ctx.fail("input", "C15.logsumexp-limit", witness=dict(x=jv(xs)), expected=jv(exp), got=jv(rv),
                     python=PRELUDE + f"r = ops.logsumexp(np.array([{', '.join(hx(x) for x in xs)}]))\nprint(r)\n"
                                      f"FAILS = not close(r, {hx(exp)}, {lse_tol(xs)})\n")
            continue
        reqs.append("C15 lse (" + " ".join(classify(x) for x in xs) + ")")
        meta.append((xs, rv))
        ctx.case(sample=dict(op="logsumexp", x=jv(xs), result=jv(rv)) if k == len(fixed) else None,
                 nontrivial_key=("lse", tuple(x.hex() for x in xs)))
    # 2-d, axis / keepdims
    for _ in range(n_cases // 2):
        shape = rng.choice([(3, 2), (2, 1), (2, 3), (1, 3)])
        xs = np.array(log_values(rng, shape[0] * shape[1])).reshape(shape)
        axis = rng.choice([None, 0, 1, -1])
        keep = rng.random() < 0.5
        r = call(ops.logsumexp, xs, axis, keep)
        ctx.count("lse:2d")
        if is_exc(r):
            ctx.count("lse:declined")
            continue
        r = np.asarray(r)
        if axis is None:
            exp = np.array(lse_oracle(xs.ravel().tolist())).reshape((1, 1) if keep else ())
            tols = np.array(lse_tol(xs.ravel().tolist())).reshape(exp.shape)
        else:
            ax = axis % 2
            rows = xs.T.tolist() if ax == 0 else xs.tolist()
            exp = np.array([lse_oracle(row) for row in rows])
            tols = np.array([lse_tol(row) for row in rows])
            if keep:
                exp, tols = np.expand_dims(exp, ax), np.expand_dims(tols, ax)
        ok = r.shape == exp.shape and all(close12(a, b, t) for a, b, t in
                                          zip(r.ravel().tolist(), exp.ravel().tolist(), tols.ravel().tolist()))
        if not ok:
            ctx.fail("input", "C15.logsumexp-limit-2d", witness=dict(x=jv(xs), axis=axis, keepdims=keep),
                     expected=jv(exp), got=jv(r),
                     python=PRELUDE + f"x = {arr_src(xs)}\nr = ops.logsumexp(x, {axis}, {keep})\nprint(r)\n"
                       f"e = {arr_src(exp)}\nFAILS = not allclose12(r, e, 1e-12)\n")
            continue
        ctx.case(nontrivial_key=("lse2", xs.tobytes(), axis, keep))
    if use_driver and reqs:
        ans = ctx.driver.ask(reqs)
        for (xs, rv), an, rq in zip(meta, ans, reqs):
            if not an.startswith("ok "):
                ctx.infra_errors.append(f"driver: {an} for {rq}")
                return
            classes = [str(x) for x in parse_sx(an[3:])]
            ctx.count("lse:class-checks")
            if not in_classes(classify(rv), classes):
                ctx.fail("correspondence", "C15.logsumexp-class", witness=dict(x=jv(xs), request=rq, model=an, impl=jv(rv)),
                         expected=f"class in {classes}", got=f"{rv!r} ({classify(rv)})")


EINSUM_EQS = [("a,a->", [("a",), ("a",)]), ("ab,bc->ac", [("a", "b"), ("b", "c")]), ("ab,b->a", [("a", "b"), ("b",)]),
              ("ab->a", [("a", "b")]), ("ab,ab->", [("a", "b"), ("a", "b")]), ("a,b->ab", [("a",), ("b",)]),
              ("ab,bc,c->a", [("a", "b"), ("b", "c"), ("c",)]), ("ab->ba", [("a", "b")]), ("ab->ab", [("a", "b")])]


def einsum_oracle(eq, operands, mode):
    """brute force over index assignments; exact operand sums (Fractions) for the log mode"""
    from fractions import Fraction
    ins, out = eq.split("->")
    ins = ins.split(",")
    sizes = {}
    for dims, o in zip(ins, operands):
        for d, s in zip(dims, o.shape):
            sizes[d] = s
    contract = sorted(set("".join(ins)) - set(out))
    res = np.empty([sizes[d] for d in out])
    for oidx in itertools.product(*[range(sizes[d]) for d in out]):
        env = dict(zip(out, oidx))
        terms = []
        for cidx in itertools.product(*[range(sizes[d]) for d in contract]):
            env.update(zip(contract, cidx))
            vals = [float(o[tuple(env[d] for d in dims)]) for dims, o in zip(ins, operands)]
            if mode == "max":
                terms.append(reduce(operator.add, vals))
            elif any(v == -INF for v in vals):
                terms.append(None)
            else:
                terms.append(sum(Fraction(v) for v in vals))
        if mode == "max":
            res[oidx] = max(terms)
            continue
        fin = [t for t in terms if t is not None]
        if not fin:
            res[oidx] = -INF
            continue
        m = max(fin)
        s = math.fsum(math.exp(float(t - m)) for t in fin)
        fm = float(m) if abs(m) <= Fraction(FMAX) else (INF if m > 0 else -INF)
        res[oidx] = fm + math.log(s) if len(fin) > 1 else fm
    return res


SYMBOL_POOL = "abcdefghijklmnopqrstuvwxyzABCDEFGHIJKLMNOPQRSTUVWXYZ0123456789αβγδεζηθικλμ"


def many_dim_case(rng, nd):
    """an equation with `nd` distinct dimension symbols spread over several small operands.  Up to 14 dims
    have size 2 (the implementation's np.einsum iterates the full index space), the rest size 1.
    Adversarial choice: all 26 lowercase letters plus symbols that sort before them, and the LAST symbols
    in sorted order get size 2 — a renaming that runs out of letters leaves exactly those un-renamed and
    makes them collide with renamed ones (a diagonal instead of a full sum)."""
    lower, other = "abcdefghijklmnopqrstuvwxyz", "ABCDEFGHIJKLMNOPQRSTUVWXYZ0123456789"
    if nd > 26 and rng.random() < 0.75 and nd - 26 <= len(other):
        syms = list(lower) + rng.sample(other, nd - 26)
    else:
        syms = rng.sample(SYMBOL_POOL, nd)
    srt = sorted(syms)
    big = set(srt[-8:]) | set(rng.sample(syms, min(nd, rng.randint(2, 6))))
    sizes = {d: (2 if d in big else 1) for d in syms}
    dims, todo = [], list(syms)
    rng.shuffle(todo)
    while todo:
        k = min(len(todo), rng.randint(2, 4))
        ds = [todo.pop() for _ in range(k)]
        if dims and rng.random() < 0.6:       # share a dim with an earlier operand
            d = rng.choice(rng.choice(dims))
            if d not in ds:
                ds.append(d)
        rng.shuffle(ds)
        dims.append(tuple(ds))
    out = rng.sample(sorted(big), min(len(big), rng.randint(0, 3)))
    eq = ",".join("".join(ds) for ds in dims) + "->" + "".join(out)
    operands = []
    for ds in dims:
        shape = tuple(sizes[d] for d in ds)
        n = int(np.prod(shape))
        c = rng.choice([0.0, 0.0, 3.0, -5.0])
        v = [(-INF if rng.random() < 0.1 else float(c + rng.uniform(-3, 0))) for _ in range(n)]
        operands.append(np.array(v, dtype=np.float64).reshape(shape))
    return eq, dims, operands


def many_dim_oracle(eq, operands):
    """linear-space oracle: np.einsum (pairwise, optimize=True) under OUR OWN injective renaming"""
    syms = sorted(set(eq) - set(",->"))
    if len(syms) > 52:
        return None
    ren = dict(zip(syms, "abcdefghijklmnopqrstuvwxyzABCDEFGHIJKLMNOPQRSTUVWXYZ"))
    eq2 = "".join(ren.get(ch, ch) for ch in eq)
    lin = np.einsum(eq2, *[np.exp(o) for o in operands], optimize=True)
    with np.errstate(divide="ignore"):
        return np.log(lin)


def many_dim_stream(ctx, n_cases):
    """numpy_log.einsum renames the symbols onto a 52-letter alphabet: 27..52 distinct dims must give the
    right value (two dims must never share a letter), more than 52 must decline."""
    from funsor.einsum.numpy_log import einsum as log_einsum
    rng = ctx.rng
    for k in range(n_cases):
        nd = [27, 28, 29, 30, 53, 60][k] if k < 6 else rng.choice([5, 12, 26, 27, 28, 29, 30, 31, 40, 52, 53, 54, 60, 70])
        eq, dims, operands = many_dim_case(rng, nd)
        r = call(log_einsum, eq, *operands)
        ctx.count(f"einsum:many-dims:{'<=26' if nd <= 26 else ('27-52' if nd <= 52 else '>52')}")
        w = dict(equation=eq, ndims=nd, operands=[jv(o) for o in operands])
        src = ", ".join(arr_src(o) for o in operands)
        if is_exc(r):
            ctx.count(f"einsum:many-dims:declined:{r[1]}")
            if nd <= 52:
                ctx.count("einsum:many-dims:declined-within-alphabet")
            continue
        exp = many_dim_oracle(eq, operands)
        if exp is None:     # a value for more than 52 symbols: compare with the brute-force oracle
            exp = einsum_oracle(eq, operands, "log")
        r = np.asarray(r, dtype=np.float64)
        # 1e-10 * max(1, |expected|): up to ~15 operands accumulate rounding in two different orders
        ok = r.shape == exp.shape and all(a == b or (a == a and b == b and not math.isinf(a) and not math.isinf(b)
                                          and abs(a - b) <= 1e-10 * max(abs(b), 1.0))
                                          for a, b in zip(r.ravel().tolist(), exp.ravel().tolist()))
        if not ok:
            ctx.fail("input", "C15.einsum-log-many-dims" if nd <= 52 else "C15.einsum-log-beyond-alphabet",
                     witness=w, expected=jv(exp), got=jv(r),
                     python=PRELUDE + "from funsor.einsum.numpy_log import einsum\n"
                     f"r = call(lambda: np.asarray(einsum({eq!r}, {src})))\nprint(r)\n"
                     f"e = {arr_src(exp)}\n"
                     f"FAILS = not isinstance(r, tuple) and (r.shape != e.shape or not all(x == y or (x == x and y == y and not math.isinf(x) "
                     f"and not math.isinf(y) and abs(x - y) <= 1e-10 * max(abs(y), 1.0)) "
                     f"for x, y in zip(r.ravel().tolist(), e.ravel().tolist())))\n")
            continue
        ctx.case(sample=dict(op="einsum-log", ndims=nd, equation=eq) if k == 0 else None,
                 nontrivial_key=("einsum-many", eq, tuple(o.tobytes() for o in operands)))


def einsum_stream(ctx, n_cases, use_driver=True):
    from funsor.einsum.numpy_log import einsum as log_einsum
    from funsor.einsum.numpy_map import einsum as map_einsum
    rng = ctx.rng
    reqs, meta = [], []
    fixed = [("a,a->", [[-INF, -INF], [-INF, -INF]], None), ("a,a->", [[-INF, 0.0], [2.0, -INF]], None),
             ("a,a->", [[8e307, 8e307], [8e307, 8e307 - 1e300]], None), ("a,a->", [[-8e307, -INF], [-8e307, -INF]], None),
             ("ab->a", [[[-INF, -INF], [1e308, -INF]]], None), ("a,a->", [[1e308, 1e308], [-1e308, -1e308]], None)]
    for k in range(n_cases + len(fixed)):
        mode = "log" if k < len(fixed) or rng.random() < 0.7 else "max"
        if k < len(fixed):
            eq, vals, _ = fixed[k]
            dims = dict(EINSUM_EQS)[eq]
            operands = [np.array(v, dtype=np.float64) for v in vals]
        else:
            eq, dims = rng.choice(EINSUM_EQS)
            sizes = {d: rng.randint(1, 3) for d in "abc"}
            # per-operand band (width <= 30) around a centre; the centres' sum stays representable
            centres = [rng.choice([0.0, 0.0, 5.0, -700.0, 700.0, 5e307, -5e307, 1.7e308, -1.7e308]) for _ in dims]
            # stated domain: every partial sum of the shifts is representable (KF-logeinsum-shift-overflow
            # owns the region where it is not)
            while any(abs(sum(centres[:j + 1])) > 1.75e308 for j in range(len(centres))):
                centres[rng.randrange(len(centres))] = 0.0
            operands = []
            for ds, c in zip(dims, centres):
                shape = tuple(sizes[d] for d in ds)
                n = int(np.prod(shape))
                v = [(-INF if rng.random() < 0.3 else (float(c + rng.uniform(-30, 0)) if abs(c) < 1e300 else float(c)))
                     for _ in range(n)]
                operands.append(np.array(v, dtype=np.float64).reshape(shape))
        f = log_einsum if mode == "log" else map_einsum
        r = call(f, eq, *operands)
        ctx.count(f"einsum:{mode}")
        if is_exc(r):
            ctx.count("einsum:declined")
            continue
        r = np.asarray(r, dtype=np.float64)
        exp = einsum_oracle(eq, operands, mode)
        scale = max([1.0] + [abs(float(np.max(o[np.isfinite(o)]))) for o in operands if np.isfinite(o).any()])

        def close(a, b):
            if a == b or (a != a and b != b):
                return True
            if mode == "max" or math.isinf(a) or math.isinf(b) or a != a or b != b:
                return False
            return abs(a - b) <= 1e-12 * max(abs(b), scale)
        ok = r.shape == exp.shape and all(close(a, b) for a, b in zip(r.ravel().tolist(), exp.ravel().tolist()))
        if not ok:
            ops_src = ", ".join(arr_src(o) for o in operands)
            ctx.fail("input", f"C15.einsum-{mode}-limit", witness=dict(equation=eq, operands=[jv(o) for o in operands], mode=mode),
                     expected=jv(exp), got=jv(r),
                     python=PRELUDE + f"from funsor.einsum.numpy_{'log' if mode == 'log' else 'map'} import einsum\n"
                     f"r = np.asarray(einsum({eq!r}, {ops_src}))\nprint(r)\n"
                     f"e = {arr_src(exp)}\n"
                     f"FAILS = r.shape != e.shape or not all(same(x, y) or (x == x and y == y and not math.isinf(x) and not math.isinf(y) "
                     f"and abs(x - y) <= 1e-12 * max(abs(y), {scale!r})) for x, y in zip(r.ravel().tolist(), e.ravel().tolist()))\n")
            continue
        ctx.case(sample=dict(op=f"einsum-{mode}", equation=eq, operands=[jv(o) for o in operands]) if k == len(fixed) else None,
                 nontrivial_key=("einsum", mode, eq, tuple(o.tobytes() for o in operands)))
        if eq == "a,a->":
            xs, ys = operands[0].tolist(), operands[1].tolist()
            cl = lambda vs: "(" + " ".join(classify(v) for v in vs) + ")"   # noqa: E731
            reqs.append(f"C15 einsumlog false {cl(xs)} {cl(ys)}" if mode == "log" else f"C15 einsummax {cl(xs)} {cl(ys)}")
            meta.append((mode, xs, ys, float(r)))
    if use_driver and reqs:
        ans = ctx.driver.ask(reqs)
        for (mode, xs, ys, rv), an, rq in zip(meta, ans, reqs):
            if not an.startswith("ok "):
                ctx.infra_errors.append(f"driver: {an} for {rq}")
                return
            classes = [str(x) for x in parse_sx(an[3:])]
            ctx.count("einsum:class-checks")
            if not in_classes(classify(rv), classes):
                ctx.fail("correspondence", f"C15.einsum-{mode}-class",
                         witness=dict(x=jv(xs), y=jv(ys), request=rq, model=an, impl=jv(rv)),
                         expected=f"class in {classes}", got=f"{rv!r} ({classify(rv)})")


# ---------------------------------------------------------------------------------------
# (7) dedicated stream of the open finding KF-safesub-inf, and out-of-domain observations
# ---------------------------------------------------------------------------------------

KF_PY = PRELUDE + """r1 = ops.safesub(-inf, -inf)                         # Python numbers: plain x - y
r2 = ops.safesub(np.asarray(-inf), -inf)             # (array, Number): falls through to the default
r3 = ops.safesub(np.asarray(-inf), np.asarray(-inf)) # stabilised registration
r4 = ops.safediv(np.asarray(0.0), 0.0)               # (array, Number): plain division
r5 = ops.safediv(np.asarray(0.0), np.asarray(0.0))
print("safesub(-inf,-inf): scalar", r1, " (array,Number)", r2, " (array,array)", r3)
print("safediv(0,0): (array,Number)", r4, " (array,array)", r5)
FAILS = bool(r1 != r1) or bool(r2 != r2) or bool(r4 != r4)
"""


def kf_stream(ctx):
    a0, ai = np.asarray(0.0), np.asarray(-INF)
    sym = {
        "safesub(-inf,-inf) scalar is NaN": call(ops.safesub, -INF, -INF),
        "safesub(array(-inf), -inf) is NaN": call(ops.safesub, ai, -INF),
        "safediv(array(0.), 0.) is NaN": call(ops.safediv, a0, 0.0),
    }
    nan_hits = [k for k, v in sym.items() if not is_exc(v) and float(item(v)) != float(item(v))]
    dis = {
        "safesub(-1., -inf): scalar inf vs array finfo.max":
            (call(ops.safesub, -1.0, -INF), call(ops.safesub, np.asarray(-1.0), ai)),
        "reciprocal(5e-324): scalar inf vs array finfo.max":
            (call(ops.reciprocal, SUB), call(ops.reciprocal, np.asarray(SUB))),
        "safediv(1., 0.): scalar raises vs array finfo.max":
            (call(ops.safediv, 1.0, 0.0), call(ops.safediv, np.asarray(1.0), a0)),
    }
    dis_hits = [k for k, (s, v) in dis.items() if is_exc(s) != is_exc(v) or (not is_exc(s) and not same(s, v))]
    stab_ok = same(call(ops.safesub, ai, ai), -INF) and same(call(ops.safediv, a0, a0), 0.0)
    ctx.count("kf-stream:symptoms-nan", len(nan_hits))
    ctx.count("kf-stream:symptoms-disagree", len(dis_hits))
    reproduced = bool(nan_hits)
    what = ("safesub/safediv/reciprocal: the scalar default and the (array, Number) fall-through are not "
            "stabilised (plain sub/truediv/1.0/x): " + "; ".join(nan_hits + dis_hits)
            + f" — while the (array, array)/(Number, array) registrations give -inf / 0 (checked: {stab_ok})")
    ctx.case(sample=dict(stream=KF, reproduced=reproduced, nan=nan_hits, disagree=dis_hits),
             nontrivial_key=("kf", tuple(nan_hits), tuple(dis_hits)))
    if not ctx.known(KF, reproduced, what if reproduced else None) and reproduced:
        ctx.fail("input", "C15.safe-ops-unstabilised", witness=dict(nan=nan_hits, disagree=dis_hits,
                 values={k: jv(v) if not is_exc(v) else list(v) for k, v in sym.items()}),
                 expected="never NaN inside the domain; same answer as the array variant", got="; ".join(nan_hits),
                 python=KF_PY)


KF2 = "KF-logeinsum-shift-overflow"
KF2_PY = PRELUDE + """from funsor.einsum.numpy_log import einsum
r1 = einsum("a,a->", np.array([9e307, -inf]), np.array([-inf, 9e307]))      # every term is -inf: exact value -inf
r2 = einsum("a,a,a->", np.array([1e308]), np.array([1e308]), np.array([-1e308]))   # exact value 1e308
print("disjoint supports, shifts 9e307 + 9e307:", r1, "  three operands 1e308 + 1e308 - 1e308:", r2)
FAILS = bool(r1 != r1)
"""


def kf2_stream(ctx):
    from funsor.einsum.numpy_log import einsum as log_einsum
    rng = ctx.rng
    hits, tried = [], 0
    cases = [([9e307, -INF], [-INF, 9e307]), ([1.7e308, -INF], [-INF, 1e307]), ([FMAX, -INF, -INF], [-INF, 1.0, FMAX])]
    for _ in range(20):
        a, b = rng.uniform(9e307, 1.7e308), rng.uniform(9e307, 1.7e308)
        cases.append(([a, -INF], [-INF, b]))
    for xs, ys in cases:
        r = call(log_einsum, "a,a->", np.array(xs), np.array(ys))
        tried += 1
        exp = einsum_oracle("a,a->", [np.array(xs), np.array(ys)], "log")
        if not is_exc(r) and float(r) != float(r) and float(exp) == -INF:
            hits.append((xs, ys))
    r3 = call(log_einsum, "a,a,a->", np.array([1e308]), np.array([1e308]), np.array([-1e308]))
    sibling = (not is_exc(r3)) and float(np.asarray(r3)) == INF
    ctx.count("kf2-stream:tried", tried)
    ctx.count("kf2-stream:nan", len(hits))
    reproduced = bool(hits)
    what = (f"numpy_log.einsum sums the shifts before the log term (sum(shifts + [result])): {len(hits)}/{tried} "
            "inner products with disjoint supports and shifts whose sum overflows return nan (exact value -inf), "
            "e.g. einsum('a,a->', [9e307,-inf], [-inf,9e307])"
            + ("; einsum('a,a,a->', [1e308],[1e308],[-1e308]) = inf (exact 1e308)" if sibling else ""))
    ctx.case(sample=dict(stream=KF2, reproduced=reproduced, nan_cases=len(hits), sibling_inf=bool(sibling)),
             nontrivial_key=("kf2", len(hits), bool(sibling)))
    if not ctx.known(KF2, reproduced, what if reproduced else None) and reproduced:
        ctx.fail("input", "C15.einsum-log-shift-overflow",
                 witness=dict(equation="a,a->", operands=[jv(hits[0][0]), jv(hits[0][1])]),
                 expected="-inf", got="nan", python=KF2_PY)


CLASSIFICATION = {
    "safesub/safediv/reciprocal scalar + (array, Number) variants unstabilised":
        dict(verdict="finding", id=KF, theorem="safesub_unstabilised_witness, safediv_unstabilised_witness, reciprocal_scalar_witness"),
    "log-einsum: shift sum overflows while the log term is -inf -> nan":
        dict(verdict="finding (fixed in /repo: numpy_log.einsum now returns sum([result] + shifts); the dedicated stream "
                     "kf2_stream keeps watching for a regression)", id=KF2, theorem="logEinsumDot_overflow_witness; suggested order proved NaN-free: logEinsumDotFixed_never_nan"),
    "log-einsum: per-operand spread > 745 (e.g. [800,0]·[-800,5] -> -inf, exact 5.0067)":
        dict(verdict="outside-domain", reason="exp(entry - shift) underflows to 0 inside one operand; the stated band of the "
             "log-space einsum is spread < 745 per operand (every exp(entry - shift) > 0); not a limit at -inf nor at the range boundary",
             theorem="logEinsumDot_underflow_witness (model admits -inf for all-finite operands), logEinsumDot_band_never_ninf (not inside the band)"),
    "scalar log(-1.) = -inf but array log = nan":
        dict(verdict="outside-domain", reason="x < 0 is not in log's domain; the scalar guard `x > 0 else -inf` exists for log(0) = -inf "
             "(and, by accident, rescues logaddexp(-inf,-inf)); on x >= 0 (incl. -0.0) the variants agree",
             theorem="log_variants_agree, log_differs_below_zero"),
    "safediv(0., -0.) = nan (also 0/negative-subnormal)":
        dict(verdict="outside-domain", reason="the divisor domain is +0, positive or +inf (linear-space measures); 1/-0 = -inf is not clipped "
             "(only the upper bound is) and 0 * -inf = nan; characterised exactly",
             theorem="safediv_nan_iff, safediv_never_nan"),
    "safediv(x, integer-dtype divisor array) used an integer reciprocal (0 for |y| > 1)":
        dict(verdict="finding (fixed in /repo 0be2287; gated in the clean dtype grid, scalar×array and array×array)",
             theorem="(grid) — the model's safediv composition is over the float carrier the fixed code converts to"),
    "ops.reciprocal(integer array) raises ValueError":
        dict(verdict="decline", reason="fail-stop; counted as agree:array-declines / dtype:array-declines", theorem="-"),
    "safediv(5e-324, 5e-324) = 8.9e-16 (subnormal divisor)":
        dict(verdict="outside-domain", reason="the clipped reciprocal of a subnormal is finfo.max, not 1/y; divisors are 0 or normal",
             theorem="(grid only)"),
    "safesub(+inf,+inf) = nan, safediv(inf,inf) = nan in every variant":
        dict(verdict="outside-domain", reason="genuinely indeterminate; +inf is not a log-space / finite linear value", theorem="safesub_nan_iff, safediv_nan_iff"),
    "sample(array(-inf), array(-inf)) = nan":
        dict(verdict="outside-property", reason="ops.sample is not named by the property; it reuses logaddexp's unclipped default body on arrays; "
             "a UNITS[sample] entry would be refuted by the law grid", theorem="sample_on_arrays_nan_at_ninf"),
}


def observations(ctx):
    """behaviour OUTSIDE the stated domains, recorded (never gated) so the evidence shows where the
    domain boundaries of the theorems lie on the real code"""
    from funsor.einsum.numpy_log import einsum as log_einsum
    obs = {
        "safesub(+inf,+inf) arrays -> nan (indeterminate, outside domain)":
            call(ops.safesub, np.asarray(INF), np.asarray(INF)),
        "safediv(inf,inf) arrays -> nan (outside domain)": call(ops.safediv, np.asarray(INF), np.asarray(INF)),
        "safediv(0., -0.) arrays -> nan (negative-zero divisor, outside domain)":
            call(ops.safediv, np.asarray(0.0), np.asarray(-0.0)),
        "safediv(5e-324, 5e-324) arrays -> 8.9e-16 not 1 (subnormal divisor, outside domain)":
            call(ops.safediv, np.asarray(SUB), np.asarray(SUB)),
        "sample(array(-inf), array(-inf)) -> nan (ops.sample uses the unclipped default body on arrays)":
            call(ops.sample, np.asarray(-INF), np.asarray(-INF)),
        "log-einsum a,a-> [9e307,-inf]·[-inf,9e307] -> nan (finding KF-logeinsum-shift-overflow)":
            call(log_einsum, "a,a->", np.array([9e307, -INF]), np.array([-INF, 9e307])),
        "log-einsum a,a-> [800,0]·[-800,5] -> -inf not 5.0067 (per-operand dynamic range > 745)":
            call(log_einsum, "a,a->", np.array([800.0, 0.0]), np.array([-800.0, 5.0])),
        "scalar log(-1.) -> -inf but array log -> nan (x < 0 outside domain)":
            (call(ops.log, -1.0), call(ops.log, np.asarray(-1.0))),
    }
    ctx.extra["classification"] = CLASSIFICATION
    ctx.extra["observations_outside_domain"] = {k: jv(v) if not is_exc(v) else list(v) for k, v in obs.items()}
    same_default = getattr(ops.sample, "default", None) is getattr(ops.logaddexp, "default", 1)
    ctx.extra["sample_default_is_logaddexp_default"] = bool(same_default)
    if not same_default:
        ctx.fail("correspondence", "C15.sample-denotation",
                 witness=dict(what="ops.sample.default is not ops.logaddexp.default: the catalogue entry "
                                   "(sample, add) is justified only for logaddexp's numeric denotation"))


# ---------------------------------------------------------------------------------------
# (6b) systematic einsum grid over <= 4 symbols for all three numpy backends
# ---------------------------------------------------------------------------------------

SEMIRINGS3 = {"funsor.einsum.numpy_log": "log", "funsor.einsum.numpy_map": "max", "numpy": "real"}


def sr_oracle(eq, operands, mode):
    """independent semiring contraction: align every operand to the sorted symbol order by transpose+reshape,
    combine by broadcasting, reduce the contracted axes, permute to the requested output order"""
    ins, out = eq.split("->")
    ins = ins.split(",")
    syms = sorted(set("".join(ins)))
    acc = None
    for dims, o in zip(ins, operands):
        order = sorted(range(len(dims)), key=lambda k: dims[k])
        t = np.transpose(np.asarray(o, dtype=np.float64), order)
        have = sorted(dims)
        shape = [t.shape[have.index(sy)] if sy in have else 1 for sy in syms]
        t = t.reshape(shape)
        acc = t if acc is None else (acc * t if mode == "real" else acc + t)
    axes = tuple(k for k, sy in enumerate(syms) if sy not in out)
    if axes:
        if mode == "real":
            acc = acc.sum(axis=axes)
        elif mode == "max":
            acc = acc.max(axis=axes)
        else:
            with np.errstate(all="ignore"):
                m = acc.max(axis=axes, keepdims=True)
                m0 = np.where(np.isfinite(m), m, 0.0)
                acc = np.log(np.exp(acc - m0).sum(axis=axes)) + np.squeeze(m0, axis=axes)
    kept = [sy for sy in syms if sy in out]
    return np.transpose(acc, [kept.index(sy) for sy in out]) if out else acc


def all_dims_strings(symbols):
    out = []
    for k in range(1, len(symbols) + 1):
        for sub in itertools.permutations(symbols, k):
            out.append("".join(sub))
    return out


def all_outputs(symbols):
    out = [""]
    for k in range(1, len(symbols) + 1):
        for sub in itertools.permutations(symbols, k):
            out.append("".join(sub))
    return out


def einsum_equations(rng, n_sample, n_random):
    """always: single operand × every permuted/reduced output; identical dims on 2-3 operands × every output;
    transposed full operands × every output.  Then a deterministic sample of the rest of the enumeration."""
    eqs = []
    must = []
    for d in ("ab", "abc", "abcd", "ba", "cab", "dbca"):
        for out in all_outputs(sorted(d)):
            must.append(([d], out))
            must.append(([d, d], out))
            if len(d) <= 3:
                must.append(([d, d, d], out))
    for trio in (["ab", "ba"], ["abc", "cba"], ["abc", "bca"], ["abc", "bca", "cab"], ["abcd", "dcba"], ["ab", "ba", "ab"],
                 ["abc", "acb", "b"], ["abcd", "badc", "cd"]):
        for out in all_outputs(sorted(set("".join(trio)))):
            must.append((trio, out))
    rng.shuffle(must)
    core = [m for m in must if len(m[1]) >= 2 and len(set(m[0])) == 1][:60] + must[:n_sample]
    eqs += core
    strings = all_dims_strings("abcd")
    for _ in range(n_random):
        k = rng.choice([1, 2, 2, 3, 3])
        ins = [rng.choice(strings) for _ in range(k)]
        if rng.random() < 0.3:
            ins = [ins[0]] * k if rng.random() < 0.5 else ["".join(rng.sample(ins[0], len(ins[0]))) for _ in range(k)]
        used = sorted(set("".join(ins)))
        outs = rng.sample(used, rng.randint(0, len(used)))
        eqs.append((ins, "".join(outs)))
    return eqs


def einsum_systematic(ctx, n_sample, n_random, funsor_every=3):
    import opt_einsum
    from collections import OrderedDict as OD
    from funsor.einsum import einsum as funsor_einsum
    from funsor.einsum.numpy_log import einsum as log_einsum
    from funsor.einsum.numpy_map import einsum as map_einsum
    from funsor.tensor import Tensor
    from funsor.domains import Bint
    rng = ctx.rng
    direct = {"funsor.einsum.numpy_log": log_einsum, "funsor.einsum.numpy_map": map_einsum,
              "numpy": lambda eq, *o: np.einsum(eq, *o)}
    for idx, (ins, out) in enumerate(einsum_equations(rng, n_sample, n_random)):
        eq = ",".join(ins) + "->" + out
        sizes = dict(zip("abcd", rng.choice([(2, 2, 2, 2), (3, 3, 3, 3), (2, 3, 4, 5), (5, 2, 3, 4), (3, 4, 2, 5)])))
        for backend, mode in SEMIRINGS3.items():
            operands = []
            for d in ins:
                shape = tuple(sizes[c] for c in d)
                nel = int(np.prod(shape))
                if mode == "real":
                    v = [float(rng.choice([0, 1, 2, 3, 1, 2])) for _ in range(nel)]
                else:
                    v = [(-INF if rng.random() < 0.15 else float(rng.randint(-4, 6))) for _ in range(nel)]
                operands.append(np.array(v).reshape(shape))
            exp = sr_oracle(eq, operands, mode)
            tol = 1e-9 if mode == "log" else 0.0
            paths = [("direct", lambda: direct[backend](eq, *operands))]
            if backend != "numpy":
                paths.append(("opt_einsum", lambda: opt_einsum.contract(eq, *operands, backend=backend)))
            if idx % funsor_every == 0 and all(len(set(d)) == len(d) for d in ins):
                def via_funsor():
                    ts = [Tensor(o, OD((c, Bint[sizes[c]]) for c in d)) for d, o in zip(ins, operands)]
                    r = funsor_einsum(eq, *ts, backend=backend)
                    if not isinstance(r, Tensor):
                        return np.asarray(r.data) if hasattr(r, "data") else ("EXC", "lazy")
                    if set(r.inputs) != set(out):
                        return ("EXC", f"inputs {list(r.inputs)}")
                    return np.asarray(r.align(tuple(out)).data)
                paths.append(("funsor.einsum", via_funsor))
            for pname, fn in paths:
                r = call(fn)
                ctx.count(f"einsum-sys:{pname}:{mode}")
                if is_exc(r):
                    ctx.count(f"einsum-sys:declined:{pname}:{mode}:{r[1][:30]}")
                    continue
                r = np.asarray(r, dtype=np.float64)
                ok = r.shape == exp.shape and all(a == b or (tol and math.isfinite(a) and math.isfinite(b) and
                                                              abs(a - b) <= tol * max(1.0, abs(b)))
                                                  for a, b in zip(r.ravel().tolist(), exp.ravel().tolist()))
                if ok:
                    if pname == "direct":
                        ctx.case(sample=dict(op="einsum-systematic", equation=eq, backend=backend) if idx == 0 else None,
                                 nontrivial_key=("einsum-sys", eq, backend, tuple(o.tobytes() for o in operands)))
                    continue
                osrc = ", ".join(arr_src(o) for o in operands)
                if pname == "direct":
                    callsrc = ("np.einsum" if backend == "numpy" else f"__import__('{backend}', fromlist=['einsum']).einsum") + f"({eq!r}, *operands)"
                elif pname == "opt_einsum":
                    callsrc = f"__import__('opt_einsum').contract({eq!r}, *operands, backend={backend!r})"
                else:
                    callsrc = (f"(lambda r: np.asarray(r.align(tuple({out!r})).data) if hasattr(r, 'align') and {out!r} else np.asarray(r.data))("
                               f"__import__('funsor.einsum', fromlist=['einsum']).einsum({eq!r}, *[funsor.tensor.Tensor(o, OrderedDict((c, funsor.Bint[o.shape[k]]) "
                               f"for k, c in enumerate(d))) for d, o in zip({ins!r}, operands)], backend={backend!r}))")
                ctx.fail("input", f"C15.einsum-sys:{pname}:{backend.split('.')[-1]}",
                         witness=dict(equation=eq, backend=backend, path=pname, sizes={c: sizes[c] for c in sorted(set(''.join(ins)))},
                                      operands=[jv(o) for o in operands]),
                         expected=dict(shape=list(exp.shape), values=jv(exp)), got=dict(shape=list(r.shape), values=jv(r)),
                         python=PRELUDE + "from collections import OrderedDict\nimport funsor.tensor\n"
                         f"operands = [{osrc}]\nr = np.asarray({callsrc}, dtype=float)\nprint(r)\ne = {arr_src(exp)}\n"
                         f"FAILS = r.shape != e.shape or not all(x == y or (math.isfinite(x) and math.isfinite(y) and abs(x - y) <= 1e-9 * max(1.0, abs(y))) "
                         "for x, y in zip(r.ravel().tolist(), e.ravel().tolist()))\n")
                break


# ---------------------------------------------------------------------------------------
# (8) multi-step histories across float precisions (fresh process per history)
# ---------------------------------------------------------------------------------------

HISTORY_SCRIPT = r'''
import sys, json, math, warnings
sys.path.insert(0, sys.argv[1])
warnings.simplefilter("ignore")
import numpy as np
import funsor, funsor.ops as ops
from collections import OrderedDict
from funsor.tensor import Tensor
from funsor.einsum.numpy_log import einsum as log_einsum
inf = math.inf
seq = sys.argv[2].split(",")
DT = {"f32": np.float32, "f64": np.float64, "f16": np.float16, "i64": np.int64, "i32": np.int32, "bool": np.bool_}
fails = []
count = [0]

def rec(step, name, witness, expected, got):
    fails.append(dict(step=step, name=name, witness=witness, expected=repr(expected), got=repr(got)))

def close(g, e, tol):
    g = np.asarray(g, dtype=np.float64); e = np.asarray(e, dtype=np.float64)
    if g.shape != e.shape: return False
    for a, b in zip(g.ravel().tolist(), e.ravel().tolist()):
        if a == b or (a != a and b != b): continue
        if math.isinf(a) or math.isinf(b) or a != a or b != b: return False
        if abs(a - b) > tol * max(1.0, abs(b)): return False
    return True

def helpers(step, tag):
    dt = DT[tag]; x = np.ones((2,), dtype=dt)
    count[0] += 1
    if dt in (np.float16, np.float32, np.float64):
        fi, ni = ops.finfo(x), np.finfo(dt)
        for attr in ("min", "max", "eps", "tiny", "bits"):
            if getattr(fi, attr) != getattr(ni, attr):
                rec(step, "finfo." + attr, dict(dtype=tag, history=seq[:step]), getattr(ni, attr), getattr(fi, attr))
    if not ops.is_numeric_array(x): rec(step, "is_numeric_array", dict(dtype=tag), True, False)
    for nm, got, want in (("new_zeros", ops.new_zeros(x, (2, 1)), np.zeros((2, 1), dtype=dt)),
                          ("new_full", ops.new_full(x, (3,), 1), np.full((3,), 1, dtype=dt)),
                          ("new_arange", ops.new_arange(x, 0, 4, 1), np.arange(0, 4, 1)),
                          ("new_eye", ops.new_eye(x, (2,)), np.broadcast_to(np.eye(2), (2, 2))),
                          ("full_like", ops.full_like(x, 1), np.full_like(x, 1))):
        got = np.asarray(got)
        if got.dtype != want.dtype or got.shape != want.shape or not (got == want).all():
            rec(step, nm, dict(dtype=tag, history=seq[:step]), (str(want.dtype), want.tolist()), (str(got.dtype), got.tolist()))

def boundary(step, tag):
    dt = DT[tag]; fi = np.finfo(dt); fmax = float(fi.max); tol = 1e-5 if dt is np.float32 else 1e-12
    mags = [1e30] if dt is np.float32 else [1e30, 1e100, 1e300]
    A = lambda v: np.array(v, dtype=dt)
    W = lambda **k: dict(dtype=tag, history=seq[:step], **k)
    def chk(name, got, exp, **k):
        count[0] += 1
        if not close(got, exp, tol): rec(step, name, W(**k), np.asarray(exp, dtype=float).tolist(), np.asarray(got, dtype=float).tolist())
    # clamp_finite
    for m in mags:
        t = Tensor(A([m, -m, inf, -inf, 0.5]), OrderedDict(i=funsor.Bint[5]))
        chk("Tensor.clamp_finite", t.clamp_finite().data, [m, -m, fmax, -fmax, 0.5], magnitude=m)
        # log-space einsum at the range boundary and at -inf
        chk("log-einsum a,a->", log_einsum("a,a->", A([-m, -inf]), A([-m, -inf])), -2 * m, x=[-m, "-inf"], y=[-m, "-inf"])
        chk("log-einsum ab->a", log_einsum("ab->a", A([[-m, -m], [-inf, -inf]])), [-m + math.log(2), -inf], x=[[-m, -m], ["-inf", "-inf"]])
        chk("log-einsum ab,bc->ac", log_einsum("ab,bc->ac", A([[-m, -inf]]), A([[0.0, -inf], [5.0, 1.0]])), [[-m, -inf]], magnitude=m)
        chk("logaddexp arr,arr", ops.logaddexp(A(-m), A(-m)), -m + math.log(2), a=-m, b=-m)
        chk("logaddexp num,arr", ops.logaddexp(-m, A(-inf)), -m, a=-m, b="-inf")
        chk("logaddexp arr,arr big", ops.logaddexp(A(m), A(-m)), m, a=m, b=-m)
        chk("logsumexp", ops.logsumexp(A([-m, -m, -inf])), -m + math.log(2), x=[-m, -m, "-inf"])
        chk("safesub", ops.safesub(A(-m), A(-inf)), float(dt(-m) + dt(fmax)), x=-m, y="-inf")
    chk("logaddexp -inf,-inf", ops.logaddexp(A(-inf), A(-inf)), -inf)
    chk("logsumexp all -inf", ops.logsumexp(A([-inf, -inf])), -inf)
    chk("reciprocal(0)", ops.reciprocal(A(0.0)), fmax)
    chk("safediv(0.5, 0)", ops.safediv(A(0.5), A(0.0)), float(dt(0.5) * dt(fmax)))
    chk("safediv(0, 0)", ops.safediv(A(0.0), A(0.0)), 0.0)
    chk("safesub(0, -inf)", ops.safesub(A(0.0), A(-inf)), fmax)
    chk("max unit", ops.max(-inf, A([1.0, -2.0])), [1.0, -2.0])

for step, tag in enumerate(seq):
    try:
        helpers(step, tag)
        if tag in ("f32", "f64"):
            boundary(step, tag)
    except Exception as e:
        if tag in ("f32", "f64"):
            rec(step, "exception", dict(dtype=tag, history=seq[:step]), "no exception", type(e).__name__ + ": " + str(e)[:200])
print("HISTORY-RESULT " + json.dumps(dict(fails=fails, checks=count[0])))
'''

HISTORIES = ["f32,f64,f32,i64,f64", "f64,f32,f64,bool,f32", "f16,f64,f32,f64", "f32,f32,f64", "i64,f32,f64,f16,f64"]


def history_python(seq, f):
    """self-contained replay: the warm-up steps of the history, then the failing step, in ONE fresh process"""
    import textwrap
    return ("import subprocess, sys, json, os\n"
            f"SCRIPT = {HISTORY_SCRIPT!r}\n"
            "import funsor\nrepo = os.path.dirname(os.path.dirname(os.path.abspath(funsor.__file__)))\n"
            f"p = subprocess.run([sys.executable, '-c', SCRIPT, repo, {seq!r}], stdout=subprocess.PIPE, stderr=subprocess.PIPE, text=True)\n"
            "line = [l for l in p.stdout.splitlines() if l.startswith('HISTORY-RESULT ')]\n"
            "res = json.loads(line[0][15:]) if line else dict(fails=['crash: ' + p.stderr[-300:]])\n"
            "print(res['fails'][:3])\nFAILS = bool(res['fails'])\n")


def history_stream(ctx):
    """Each history runs in a FRESH interpreter (module-level state such as a cache in funsor.ops must start
    empty): helpers and the stabilised-op boundary grid on an interleaved dtype sequence — float32 first, float64
    first, float16 first — every step compared with the answer for THAT dtype."""
    import json
    import subprocess
    import os as _os
    env = dict(_os.environ)
    env.pop("PYTHONPATH", None)
    for seq in HISTORIES:
        p = subprocess.run([sys.executable, "-c", HISTORY_SCRIPT, str(REPO), seq], stdout=subprocess.PIPE,
                           stderr=subprocess.PIPE, text=True, env=env, timeout=300)
        line = [l for l in p.stdout.splitlines() if l.startswith("HISTORY-RESULT ")]
        if not line:
            ctx.infra_errors.append(f"history subprocess failed for {seq}: {p.stderr[-500:]}")
            return
        res = json.loads(line[0][len("HISTORY-RESULT "):])
        ctx.count("history:sequences")
        ctx.count("history:checks", res["checks"])
        ctx.case(sample=dict(stream="history", sequence=seq, checks=res["checks"]), nontrivial_key=("history", seq))
        seen = set()
        for f in res["fails"]:
            key = f["name"]
            if key in seen:
                continue
            seen.add(key)
            ctx.fail("input", f"C15.history:{f['name']}", witness=dict(sequence=seq, **f["witness"], step=f["step"]),
                     expected=f["expected"], got=f["got"], python=history_python(seq, f))



# ---------------------------------------------------------------------------------------
# transform tables (Model/C15Transform.lean, Props/C15/Transform.lean)
# ---------------------------------------------------------------------------------------

def transform_stream(ctx):
    """ties Model/C15Transform.lean to funsor/ops/builtin.py: (a) the `set_inv` table of the model is the
    live one (every TransformOp of funsor.ops, its `.inv`); (b) the transcribed bodies and
    log_abs_det_jacobian formulas, evaluated by the Lean driver over Float, agree with the real ops on
    numpy float64 scalars inside each transform's domain (relative 1e-9: libm vs numpy ulps, log1p)."""
    import struct
    from funsor.ops.builtin import TransformOp
    names = ["exp", "log", "tanh", "atanh", "sigmoid"]
    live_ops = sorted(k for k in dir(ops) if isinstance(getattr(ops, k), TransformOp) and k != "wrapped_transform")
    live_inv = sorted((k, getattr(getattr(ops, k).inv, "__name__", "?")) for k in live_ops)
    ans = ctx.driver.ask(["C15 xforminv"])
    got = parse_sx(ans[0][3:]) if ans and ans[0].startswith("ok ") else None
    got = sorted((str(a), str(b)) for a, b in got) if isinstance(got, list) else None
    ctx.count("transform:table-echo")
    if got != live_inv:
        ctx.fail("correspondence", "C15.transform-inv-table", witness=dict(lean=got, live=live_inv))
        return

    def bits(v):
        return struct.unpack("<Q", struct.pack("<d", float(v)))[0]

    def unbits(n):
        return struct.unpack("<d", struct.pack("<Q", int(n)))[0]

    rng = ctx.rng
    n = 400 if ctx.tier != "quick" else 60
    dom = {"exp": lambda: rng.uniform(-30, 30), "log": lambda: math.exp(rng.uniform(-30, 30)),
           "tanh": lambda: rng.uniform(-8, 8), "atanh": lambda: rng.uniform(-0.999, 0.999),
           "sigmoid": lambda: rng.uniform(-30, 30)}
    reqs, meta = [], []
    for nm in names:
        o = getattr(ops, nm)
        for _ in range(n):
            x = np.float64(dom[nm]())
            y = call(o, x)
            if is_exc(y):
                continue
            l = call(o.log_abs_det_jacobian, x, y)
            xi = call(o.inv, y)
            reqs.append(f"C15 xform body {nm} {bits(x)} 0")
            meta.append((nm, "body", x, y, y))
            if not is_exc(l):
                reqs.append(f"C15 xform ladj {nm} {bits(x)} {bits(y)}")
                meta.append((nm, "ladj", x, y, l))
            if nm == "sigmoid" and not is_exc(xi):
                reqs.append(f"C15 xform body sigmoid_inv {bits(y)} 0")
                meta.append((nm, "inv", x, y, xi))
    ans = ctx.driver.ask(reqs)
    for (nm, kind, x, y, real), an in zip(meta, ans):
        if not an.startswith("ok ") or an == "ok none":
            ctx.infra_errors.append(f"driver: {an} for xform {kind} {nm}")
            return
        lean = unbits(an[3:])
        real = float(real)
        ctx.count(f"transform:{kind}")
        ctx.case(sample=dict(stream="transform", op=nm, kind=kind, x=jv(x)), nontrivial_key=("transform", nm, kind, bits(x)))
        tol = 1e-9 * max(1.0, abs(real), abs(lean))
        if kind == "inv":
            # 1 - sigmoid(x) cancels for large x: compare through the conditioning of log1p(-y)
            tol = max(tol, 1e-15 / max(1e-300, min(float(y), 1.0 - float(y))) if 0.0 < float(y) < 1.0 else INF)
        if not (abs(lean - real) <= tol):
            ctx.fail("correspondence", f"C15.transform-{kind}:{nm}",
                     witness=dict(op=nm, kind=kind, x=jv(x), y=jv(y), lean=jv(lean), real=jv(real)))
            return

# ---------------------------------------------------------------------------------------
# correspond / search
# ---------------------------------------------------------------------------------------

def dtype_grid_nodriver(ctx):
    class _NoDriver:
        def available(self):
            return False
    real, ctx.driver = ctx.driver, _NoDriver()
    try:
        dtype_grid(ctx)
    finally:
        ctx.driver = real


def correspond(ctx):
    ctx.rule = (
        "law grid: every live entry of UNITS / DISTRIBUTIVE_OPS / *_INVERSES / PRODUCT_TO_POWER evaluated on the "
        "real ops over the op's carrier (dyadic reals, non-negative for (max|min,mul), ±inf for max/min/log units, "
        "booleans), scalars + 0-d + arrays; boolean semiring exhaustive (8 triples × scalar/0-d + arrays); "
        "agreement grid: edge values {±0, ±1, ±inf, ±float max, ±smallest normal, ±smallest subnormal} ∪ seeded "
        "random floats (moderate, 1e±300, ±600..760, subnormal), all ordered pairs, every float op; ints and bools "
        "for the integer/boolean ops; forms: Python scalar (reference) vs 0-d array, numpy scalar, number×array in "
        "both orders, elementwise + broadcast on shapes (), (1,), (3,), (2,1), (3,2); special-value grid: every "
        "variant (scalar, arr, numArr, arrNum) of logaddexp/safesub/safediv/max/min/sample, reciprocal/log, against a "
        "Python oracle and against the class set + provenance of the Lean model; numpy primitives vs Lean transfer "
        "functions; logsumexp (1-d, 2-d axis/keepdims), log-space and max-plus einsum (9 equations) with -inf "
        "entries and operand bands near 0, ±700, ±5e307, ±1.7e308 against a brute-force oracle.  Non-trivial = "
        "the reference evaluation returned a value inside the op's domain; distinct by (op, form/variant, operand bits).")
    live = getattr(ctx, "c15_live", None) or live_tables()
    ctx.c15_live = live
    table_echo(ctx)
    law_grid(ctx)
    exact_eval_tie(ctx)
    bool_semiring(ctx)
    agreement_grid(ctx)
    dtype_grid(ctx)
    unary_dtype_stream(ctx)
    special_grid(ctx)
    primitive_grid(ctx)
    magnitude_grid(ctx)
    transform_stream(ctx)
    big = ctx.tier != "quick"
    logsumexp_stream(ctx, 12000 if big else 300)
    einsum_stream(ctx, 12000 if big else 400)
    if big:
        for _ in range(16):
            agreement_grid(ctx)
            special_grid(ctx)
    many_dim_stream(ctx, 3000 if big else 200)
    einsum_systematic(ctx, 6000 if big else 500, 6000 if big else 400)
    history_stream(ctx)
    kf_stream(ctx)
    kf2_stream(ctx)
    observations(ctx)
    ctx.exhaustive = False
    ctx.assumptions += [
        "C15: bit-exact IEEE-754 arithmetic is not modelled; the abstract domain {nan,-inf,<0,-0,+0,>0,1,+inf} has "
        "sound class-level transfer functions validated against numpy on the grid (prim:checks); 'near the float "
        "range boundary' is grid-checked against a Python oracle, not proved",
        "C15: domains stated in the theorems — logaddexp/logsumexp/log-einsum: no NaN, no +inf operands (log-einsum "
        "additionally: per-operand band < 745 wide and a representable sum of shifts); safesub: not (+inf,+inf); "
        "safediv/reciprocal: divisor +0, or normal, or +inf with a finite numerator; log: x >= 0",
        "C15: (sample, add) is accepted for the numeric denotation of logaddexp only (same default body); its "
        "sampling semantics is declared unmodelled",
        "C15: the laws are proved on ideal carriers (commutative semirings / rings / fields, WithBot/WithTop Q, "
        "Q with non-negative multiplier, Bool, WithBot R via exp); the tie to float ops is the law grid on "
        "exactly representable operands",
    ]


def search(ctx, broken):
    """A proof, the build or the correspondence broke: evaluate every live table entry's law on the
    real ops (the concrete counter-entry of a failed table obligation), then the Python-only
    oracles at higher volume."""
    ctx.extra["search_ran_for"] = list(broken)
    n0 = sum(1 for f in ctx.failures if f.witness is not None and f.kind == "input")
    law_grid(ctx, volume=3, record=False)
    bool_semiring(ctx)
    history_stream(ctx)
    for _ in range(3):
        agreement_grid(ctx, volume=2)
        dtype_grid_nodriver(ctx)
        unary_dtype_stream(ctx)
        special_grid(ctx, use_driver=False, volume=3)
        logsumexp_stream(ctx, 1500, use_driver=False)
        einsum_stream(ctx, 1500, use_driver=False)
        many_dim_stream(ctx, 150)
        einsum_systematic(ctx, 1500, 1500)
        if sum(1 for f in ctx.failures if f.witness is not None and f.kind == "input") > n0:
            return
